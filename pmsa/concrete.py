"""Concrete evaluation of *extracted terms* (never of repository code) on small inputs.

Used (a) to turn an already failed identity into a printable witness and (b) to decide predicates over small finite
domains (e.g. "is this frame-spacing test true for evenly spaced timesteps?").  The evaluator understands a fixed table of
numpy / builtin operations; anything else raises Unsupported and the caller reports the obligation as undecided.
"""
from __future__ import annotations

from typing import Any, Dict

import numpy as np

from .vg import Term, NONE, show, is_const


class Unsupported(Exception):
    pass


FUNCS = {
    "numpy.linalg.inv": np.linalg.inv, "numpy.dot": np.dot, "numpy.matmul": np.matmul, "numpy.rint": np.rint, "numpy.round": np.round,
    "numpy.around": np.around, "numpy.floor": np.floor, "numpy.ceil": np.ceil, "numpy.trunc": np.trunc, "numpy.fix": np.fix,
    "numpy.array": np.array, "numpy.asarray": np.asarray, "numpy.transpose": np.transpose, "numpy.linalg.solve": np.linalg.solve,
    "numpy.abs": np.abs, "numpy.where": np.where, "numpy.sign": np.sign, "numpy.diff": np.diff, "numpy.unique": np.unique,
    "numpy.all": np.all, "numpy.any": np.any, "numpy.allclose": np.allclose, "numpy.isclose": np.isclose, "numpy.sum": np.sum,
    "numpy.sqrt": np.sqrt, "numpy.square": np.square, "numpy.linalg.norm": np.linalg.norm, "numpy.argsort": np.argsort,
    "numpy.argpartition": np.argpartition, "numpy.sort": np.sort, "numpy.arange": np.arange, "numpy.zeros": np.zeros,
    "numpy.std": np.std, "numpy.ptp": np.ptp, "numpy.max": np.max, "numpy.min": np.min, "numpy.array_equal": np.array_equal,
    "numpy.count_nonzero": np.count_nonzero, "numpy.mean": np.mean, "numpy.conj": np.conj, "numpy.real": np.real,
    "builtins.len": len, "builtins.set": lambda x=(): set(np.asarray(x).tolist()) if not isinstance(x, set) else x, "builtins.sorted": sorted,
    "builtins.abs": abs, "builtins.min": min, "builtins.max": max, "builtins.int": int, "builtins.float": float, "builtins.round": round,
    "builtins.all": all, "builtins.any": any, "builtins.list": list, "builtins.tuple": tuple, "builtins.bool": bool, "builtins.sum": sum,
    "builtins.range": range, "numpy.sin": np.sin, "numpy.cos": np.cos, "numpy.exp": np.exp, "numpy.arccos": np.arccos,
    "numpy.arctan2": np.arctan2, "numpy.ones": np.ones, "numpy.repeat": np.repeat, "numpy.power": np.power, "numpy.isclose": np.isclose,
    "math.sqrt": __import__("math").sqrt, "math.sin": __import__("math").sin, "math.cos": __import__("math").cos,
    "builtins.complex": complex, "numpy.copy": np.copy, "numpy.eye": np.eye, "numpy.diag": np.diag,
}
for _n in ("einsum", "tensordot", "take_along_axis", "take", "cumsum", "cross", "vdot", "inner", "outer", "multiply", "add", "subtract", "divide",
           "true_divide", "nan_to_num", "clip", "minimum", "maximum", "stack", "concatenate", "hstack", "vstack", "column_stack", "zeros_like",
           "ones_like", "full", "full_like", "empty_like", "expand_dims", "squeeze", "triu_indices", "tril_indices", "nonzero", "flatnonzero",
           "bincount", "delete", "isin", "logical_and", "logical_or", "logical_not", "prod", "trace", "log", "mod", "remainder", "floor_divide",
           "tile", "meshgrid", "indices", "swapaxes", "moveaxis", "atleast_1d", "atleast_2d", "broadcast_to", "negative", "absolute", "amax", "amin",
           "argmax", "argmin", "linspace", "ravel", "reshape", "average", "median", "identity", "triu", "tril", "kron", "imag", "angle", "arctan",
           "arcsin", "tan", "hypot", "cbrt", "log10", "log2", "exp2", "float_power", "searchsorted", "digitize", "histogram", "isfinite", "isnan",
           "less", "less_equal", "greater", "greater_equal", "equal", "not_equal", "ix_", "roll", "flip", "cumprod", "nansum", "nanmean", "dstack",
           "append", "insert", "partition", "diagonal", "allclose", "isclose", "count_nonzero", "all", "any", "max", "min", "sum", "triu_indices_from", "lexsort", "select", "choose", "compress", "extract", "fmod", "divmod", "floor_divide"):
    if hasattr(np, _n):
        FUNCS.setdefault("numpy." + _n, getattr(np, _n))
for _n in ("eigvalsh", "eigh", "eig", "eigvals", "det", "pinv", "matrix_power", "lstsq", "svd"):
    FUNCS.setdefault("numpy.linalg." + _n, getattr(np.linalg, _n))
try:        # optional: sparse adjacency forms
    import scipy.sparse as _sps
    FUNCS.update({"scipy.sparse.csr_matrix": _sps.csr_matrix, "scipy.sparse.coo_matrix": _sps.coo_matrix, "scipy.sparse.csc_matrix": _sps.csc_matrix})
except Exception:  # noqa
    pass
METHODS = {".get", ".keys", ".values", ".items", ".index", ".sum", ".all", ".any", ".max", ".min", ".mean", ".std", ".ptp", ".argsort", ".astype", ".copy", ".tolist", ".item",
           ".dot", ".transpose", ".round", ".nonzero", ".flatten", ".ravel", ".conj", ".reshape", ".argmax", ".argmin", ".prod", ".toarray", ".repeat", ".cumsum",
           ".squeeze", ".swapaxes", ".take", ".clip", ".trace", ".diagonal", ".conjugate", ".cumprod", ".searchsorted", ".argpartition", ".compress", ".todense", ".multiply"}


def symbolic_array(shape, name: str, complex_: bool = True):
    """object array of distinct exact symbols a + i b (real a, b): numpy's multilinear routines (dot, tensordot, einsum, matmul,
    sum, trace, conj) then compute exact polynomials, so an identity between two extracted forms can be decided exactly for
    this shape."""
    import sympy as _sp
    a = np.empty(shape, dtype=object)
    for idx in np.ndindex(*shape):
        tag = "".join(map(str, idx))
        a[idx] = _sp.Symbol(f"{name}r{tag}", real=True) + (_sp.I * _sp.Symbol(f"{name}i{tag}", real=True) if complex_ else 0)
    return a


def ev(t: Term, env: Dict[Term, Any]) -> Any:
    if t in env:
        return env[t]
    k = t[0]
    if k == "const":
        return t[1]
    if k == "mod":
        if t[1] == "numpy.newaxis":
            return None
        if t[1] in ("numpy.inf",):
            return np.inf
        if t[1] == "numpy.pi":
            return np.pi
        if t[1] in ("numpy.int32", "numpy.int64"):
            return int
        if t[1] in ("numpy.float64", "numpy.float32"):
            return float
        if t[1] in ("numpy.complex128", "numpy.complex64"):
            return complex
        raise Unsupported(t[1])
    if k == "builtin":
        return {"int": int, "float": float, "bool": bool}.get(t[1])
    if k in ("tuple", "list"):
        vals = [ev(x, env) for x in t[1]]
        return tuple(vals) if k == "tuple" else vals
    if k == "dict":
        return {ev(a, env): ev(b, env) for a, b in t[1]}
    if k == "call":
        f = t[1]
        if not isinstance(f, str):
            raise Unsupported("dynamic call")
        args = [ev(a, env) for a in t[2]]
        kwargs = {n: ev(v, env) for n, v in t[3] if n != "@"}
        if f in ("numpy.real", "numpy.imag", "numpy.abs", "numpy.absolute", "numpy.angle") and len(args) == 1 and not kwargs and \
                ((isinstance(args[0], np.ndarray) and args[0].dtype == object) or hasattr(args[0], "free_symbols")):
            # numpy's real / imag on an object array return the array itself; entries are exact symbolic numbers: apply the
            # mathematical function element by element
            import sympy as _sp
            fn = {"numpy.real": _sp.re, "numpy.imag": _sp.im, "numpy.abs": _sp.Abs, "numpy.absolute": _sp.Abs, "numpy.angle": _sp.arg}[f]
            if isinstance(args[0], np.ndarray):
                return np.vectorize(fn, otypes=[object])(args[0])
            return fn(args[0])
        if args and isinstance(args[0], np.ndarray) and args[0].dtype == object and \
                ((f in ("numpy.asarray", "numpy.array", "numpy.ascontiguousarray") and (kwargs.get("dtype") in (float, complex, np.float64, np.complex128) or (len(args) == 2 and args[1] in (float, complex)))) or
                 (f == ".astype" and len(args) == 2 and args[1] in (float, complex, np.float64, np.complex128))):
            # a floating-point conversion of exact symbolic entries keeps their values
            return np.array(args[0], dtype=object)
        if f in FUNCS:
            return FUNCS[f](*args, **kwargs)
        if f in METHODS:
            return getattr(args[0], f[1:])(*args[1:], **kwargs)
        raise Unsupported(f)
    if k == "attr":
        base = ev(t[1], env)
        if t[2] in ("real", "imag") and isinstance(base, np.ndarray) and base.dtype == object:
            import sympy as _sp        # arrays of exact symbolic entries: element-wise real / imaginary part
            return np.vectorize(_sp.re if t[2] == "real" else _sp.im, otypes=[object])(base)
        if t[2] in ("real", "imag") and not isinstance(base, (np.ndarray, int, float, complex, np.generic)):
            import sympy as _sp
            return _sp.re(base) if t[2] == "real" else _sp.im(base)
        if t[2] in ("T", "shape", "size", "real", "imag", "ndim"):
            return getattr(base, t[2])
        if isinstance(base, dict) and t[2] in base:
            return base[t[2]]
        if hasattr(base, t[2]) and not callable(getattr(base, t[2])):
            return getattr(base, t[2])
        raise Unsupported(f"attribute {t[2]}")
    if k == "slice":
        return slice(*[None if x == NONE else ev(x, env) for x in t[1:]])
    if k == "sub":
        base = ev(t[1], env)
        idx = t[2]
        if idx[0] == "tuple":
            py = tuple(ev(x, env) for x in idx[1])
        else:
            py = ev(idx, env)
        return base[py]
    if k == "bin":
        a, b = ev(t[2], env), ev(t[3], env)
        op = t[1]
        try:
            return {"+": lambda: a + b, "-": lambda: a - b, "*": lambda: a * b, "/": lambda: a / b, "//": lambda: a // b, "%": lambda: a % b,
                    "**": lambda: a ** b, "@": lambda: a @ b, "&": lambda: a & b, "|": lambda: a | b, "^": lambda: a ^ b}[op]()
        except KeyError:
            raise Unsupported(op)
    if k == "un":
        a = ev(t[2], env)
        return {"-": lambda: -a, "+": lambda: +a, "not": lambda: not a, "~": lambda: ~a}[t[1]]()
    if k == "cmp":
        a, b = ev(t[2], env), ev(t[3], env)
        return {"==": lambda: a == b, "!=": lambda: a != b, "<": lambda: a < b, "<=": lambda: a <= b, ">": lambda: a > b, ">=": lambda: a >= b,
                "in": lambda: a in b, "not in": lambda: a not in b, "is": lambda: a is b, "is not": lambda: a is not b}[t[1]]()
    if k == "bool":
        if t[1] == "and":
            r = True
            for x in t[2]:
                r = ev(x, env)
                if not r:
                    return r
            return r
        r = False
        for x in t[2]:
            r = ev(x, env)
            if r:
                return r
        return r
    if k == "phi":
        return ev(t[2], env) if ev(t[1], env) else ev(t[3], env)
    if k == "comp" and t[1] in ("list", "set", "gen") and len(t[3]) >= 1:
        out = []

        def gen(level, e1):
            if level == len(t[3]):
                out.append(ev(t[2], e1))
                return
            cv, itr, conds = t[3][level]
            for v in ev(itr, e1):
                e2 = dict(e1)
                e2[cv] = v
                if cv[0] == "cvar" and isinstance(v, (tuple, list)):
                    for kk, vv in enumerate(v):          # tuple targets are read as elem(cvar, k)
                        e2[("elem", cv, kk)] = vv
                if all(ev(c, e2) for c in conds):
                    gen(level + 1, e2)
        gen(0, env)
        return set(out) if t[1] == "set" else out
    if k == "fstr":
        parts = []
        for p_ in t[1]:
            if p_[0] == "const":
                parts.append(str(p_[1]))
            elif p_[0] == "fmt":
                v = ev(p_[1], env)
                spec = p_[2]
                if spec in ("", None):
                    parts.append(format(v))
                elif isinstance(spec, str) and spec.startswith("f'") and spec.endswith("'"):
                    parts.append(format(v, spec[2:-1]))
                else:
                    raise Unsupported("format spec " + str(spec)[:30])
            else:
                parts.append(format(ev(p_, env)))
        return "".join(parts)
    raise Unsupported(show(t)[:50])
