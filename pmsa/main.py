"""Driver: one process per property. Exit 0 holds / 1 violation / 2 analysis error."""
from __future__ import annotations

import argparse
import importlib
import json
import os
import sys
import traceback

from .model import AnalysisError, Package
from .report import Run

LEVELS = {"C08": "proof", "C12": "proof"}


def main() -> int:
    ap = argparse.ArgumentParser()
    ap.add_argument("pid")
    ap.add_argument("--tier", default=os.environ.get("VERIF_TIER", "quick"))
    ap.add_argument("--replay", default=None)
    ap.add_argument("--repo", default=None)
    a = ap.parse_args()
    if a.repo:
        os.environ["VERIF_REPO"] = a.repo
    tier = a.tier if a.tier in ("quick", "thorough") else "quick"
    try:
        seed = int(os.environ.get("VERIF_SEED", "0"))
    except ValueError:
        seed = 0
    only_key = None
    if a.replay:
        try:
            with open(a.replay, "r", encoding="utf-8") as f:
                only_key = json.load(f).get("key")
        except Exception as e:  # noqa
            print(f"ANALYSIS-ERROR cannot read replay record {a.replay}: {e}")
            return 2
    pid = a.pid.upper()
    run = Run(pid, LEVELS.get(pid, "other"), tier, seed, only_key)
    try:
        mod = importlib.import_module(f"pmsa.checks.{pid.lower()}")
    except ModuleNotFoundError:
        print(f"ANALYSIS-ERROR no check implemented for {pid}")
        return 2
    try:
        pkg = Package()
        from .checks import grlib
        grlib.set_package(pkg)
        try:
            mod.run(run, pkg)
        except AnalysisError as e:
            # the property-specific rules could not follow the code (exit 2 at least); the shared syntax-tree rules below do not
            # depend on them and still look at every function of the property's anchor files
            run.error(str(e))
            _add_anchor_functions(run, pkg)
        except Exception as e:  # noqa
            tb = traceback.format_exc().strip().splitlines()
            run.error(f"checker crashed: {type(e).__name__}: {e} @ {tb[-3].strip() if len(tb) >= 3 else ''}")
            if os.environ.get("VERIF_DEBUG"):
                traceback.print_exc()
            _add_anchor_functions(run, pkg)
        from .vg import show as _show
        for t, v in list(grlib.INLINE_IMAGES.items()):
            if v[0] == "bad":
                run.ob("R-PBC", "inline minimum image", _show(t)[:70], False, "an inline re-implementation of the minimum image equals R - (mask (.) nearest(R H^-1)) H "
                       "(rows of H are the cell vectors)", _show(t)[:200], witness=v[1], sound=True)   # v[1] is a concrete cell / displacement on which the extracted term differs
            elif v[0] == "ok":
                run.ob("R-PBC", "inline minimum image", _show(t)[:70], True, "inline re-implementation of the minimum image verified against the reference form (frame typing + algebra)", "")
        from .checks.apilib import api_pass, alias_pass
        api_pass(run, pkg)
        alias_pass(run, pkg)
        from .checks.statelib import state_pass
        if pid == "C02":
            state_pass(run, pkg, mask_forward_only=True, full_for=("utils.pbc.remove_pbc",))
        elif pid == "C07":
            state_pass(run, pkg, mask_forward_only=True)
        else:
            state_pass(run, pkg, everything=(pid == "C18"))
        if tier == "thorough" and not a.replay and not os.environ.get("VERIF_NO_SELFTEST"):
            selftest_stage(run, pid)
    except AnalysisError as e:
        run.error(str(e))
    except Exception as e:  # noqa: any crash is an analysis error, never a violation
        tb = traceback.format_exc().strip().splitlines()
        run.error(f"checker crashed: {type(e).__name__}: {e} @ {tb[-3].strip() if len(tb) >= 3 else ''}")
        if os.environ.get("VERIF_DEBUG"):
            traceback.print_exc()
    return run.finish()


def _add_anchor_functions(run: Run, pkg: Package) -> None:
    try:
        here = os.path.dirname(os.path.dirname(os.path.abspath(__file__)))
        files = set()
        for ln in open(os.path.join(here, "properties.jsonl"), "r", encoding="utf-8"):
            d = json.loads(ln)
            if d.get("id") == run.pid:
                files = set(d.get("anchors", {}).get("files", []))
        for fi in pkg.all_functions():
            if fi.relpath in files:
                run.functions.add(fi.qual)
    except Exception:  # noqa
        pass


def selftest_stage(run: Run, pid: str) -> None:
    """Thorough tier: exercise the property's rules both ways on scratch copies of the package - every killer variant (one
    construct broken by an AST-level text edit) must be reported as a VIOLATION naming that construct, every twin (a behaviour-
    preserving rewrite) must leave the check silent.  A failure here means the checker has gone blind or brittle: it is
    reported as ANALYSIS-ERROR (exit 2), never as a violation of the property."""
    import concurrent.futures as cf
    import importlib.util
    here = os.path.dirname(os.path.dirname(os.path.abspath(__file__)))
    spec = importlib.util.spec_from_file_location("selftest_run", os.path.join(here, "selftest", "run.py"))
    st = importlib.util.module_from_spec(spec)
    spec.loader.exec_module(st)
    muts = [dict(m, props=[pid]) for m in st.load_mutants() if pid in m["props"]]
    if not muts:
        run.error(f"no self-test variants registered for {pid}")
        return
    killers = twins = 0
    skipped = []
    # the corpus was validated against one state of the package; on any other state (a change under review) a variant whose
    # edit no longer applies says nothing about the checker and is skipped, not failed
    try:
        with open(os.path.join(here, "selftest", "VALIDATED_DIGEST"), "r", encoding="utf-8") as f:
            validated = f.read().split()[0]
    except Exception:  # noqa
        validated = None
    same_tree = validated is not None and Package().digest() == validated
    with cf.ThreadPoolExecutor(max_workers=min(16, os.cpu_count() or 4)) as ex:
        for m, results, err in ex.map(lambda m: st.run_one(m, "quick"), muts):
            if err:
                if same_tree or "does not apply" not in err:
                    run.error(f"self-test variant {m['id']}: {err}")
                else:
                    skipped.append(m["id"])
                continue
            for prop, rc, out in results:
                want_rc = 1 if m["expect"] == "fire" else 0
                ok = rc == want_rc and (m["expect"] != "fire" or not m.get("mention") or m["mention"] in out)
                if m["expect"] == "not-fire":
                    ok = rc in (0, 2)       # an independently written refactoring this check could not decide: it must never be reported
                killers += m["expect"] == "fire"
                twins += m["expect"] != "fire"
                if not ok and not same_tree:
                    run.note(f"self-test {m['id']}: exit {rc}, expected {want_rc} - on a tree other than the one the corpus was validated on; not counted")
                    skipped.append(m["id"])
                    continue
                run.ob("R-SELFTEST", "checker", m["id"], True if ok else None,
                       ("variant with one construct broken is reported as a violation naming it" if m["expect"] == "fire"
                        else "behaviour-preserving rewrite leaves the check silent"),
                       f"exit {rc}" + ("" if ok else f", expected {want_rc}" + (f" mentioning {m.get('mention')}" if m.get("mention") else "")), nontrivial=False)
                if not ok:
                    run.error(f"self-test {m['id']}: exit {rc}, expected {want_rc}")
    run.extra["selftest"] = {"killers": killers, "twins": twins, "skipped_not_applicable_to_this_tree": skipped,
                             "corpus_validated_on_this_tree": same_tree}


if __name__ == "__main__":
    sys.exit(main())
