"""Driver: one process per property. Exit 0 holds / 1 violation / 2 analysis error."""
from __future__ import annotations

import argparse
import importlib
import json
import os
import sys
import traceback

from .model import AnalysisError, Package
from .report import Run

LEVELS = {"C08": "proof", "C12": "proof"}


def main() -> int:
    ap = argparse.ArgumentParser()
    ap.add_argument("pid")
    ap.add_argument("--tier", default=os.environ.get("VERIF_TIER", "quick"))
    ap.add_argument("--replay", default=None)
    ap.add_argument("--repo", default=None)
    a = ap.parse_args()
    if a.repo:
        os.environ["VERIF_REPO"] = a.repo
    tier = a.tier if a.tier in ("quick", "thorough") else "quick"
    try:
        seed = int(os.environ.get("VERIF_SEED", "0"))
    except ValueError:
        seed = 0
    only_key = None
    if a.replay:
        try:
            with open(a.replay, "r", encoding="utf-8") as f:
                only_key = json.load(f).get("key")
        except Exception as e:  # noqa
            print(f"ANALYSIS-ERROR cannot read replay record {a.replay}: {e}")
            return 2
    pid = a.pid.upper()
    run = Run(pid, LEVELS.get(pid, "other"), tier, seed, only_key)
    try:
        mod = importlib.import_module(f"pmsa.checks.{pid.lower()}")
    except ModuleNotFoundError:
        print(f"ANALYSIS-ERROR no check implemented for {pid}")
        return 2
    try:
        pkg = Package()
        mod.run(run, pkg)
    except AnalysisError as e:
        run.error(str(e))
    except Exception as e:  # noqa: any crash is an analysis error, never a violation
        tb = traceback.format_exc().strip().splitlines()
        run.error(f"checker crashed: {type(e).__name__}: {e} @ {tb[-3].strip() if len(tb) >= 3 else ''}")
        if os.environ.get("VERIF_DEBUG"):
            traceback.print_exc()
    return run.finish()


if __name__ == "__main__":
    sys.exit(main())
