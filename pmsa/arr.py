"""Small-array evaluator on value-graph terms: entries of arrays with concrete (small) shapes.

Used where a function builds small matrices element by element (cell matrices in the dump reader).  An
array allocated by np.zeros and filled by subscript stores with constant indices is resolved entry by entry;
np.array / vstack / reshape / diag / basic slicing / element-wise arithmetic with broadcasting are followed.
A symbolic leading axis (the particle axis) is represented by the index token ROW: the entry is then the
value stored by the generic loop iteration.  Needs an Interp run with track_alloc=True (allocation identity).
"""
from __future__ import annotations

from typing import Any, Dict, List, Optional, Tuple

from .vg import Interp, Term, C, NONE, is_const, show, strip_alloc

ROW = ("sym", "<ROW>")


class NoEntry(Exception):
    pass


def _ci(t: Term) -> Optional[int]:
    if is_const(t) and isinstance(t[1], int) and not isinstance(t[1], bool):
        return t[1]
    return None


class ArrEval:
    def __init__(self, it: Interp):
        self.it = it
        self.stores: Dict[Term, List] = {}
        # path conditions under which the function's result is produced (e.g. "the first line was not empty"): a store guarded
        # by nothing else is unconditional as far as the returned value is concerned
        rets = [r for r in it.returns if r.data["value"] != NONE]
        self.base_guards = set(rets[-1].guards) if rets else set()
        for ev in it.events:
            if ev.kind == "store" and ev.data["target"][0] == "sub":
                self.stores.setdefault(ev.data["target"][1], []).append(ev)

    # ------------------------------------------------------------------ shapes
    def shape(self, t: Term) -> Optional[Tuple[Any, ...]]:
        k = t[0]
        if k == "call":
            f = t[1]
            if f in ("numpy.zeros", "numpy.ones", "numpy.empty") and t[2]:
                s = t[2][0]
                if s[0] == "tuple":
                    return tuple(_ci(x) if _ci(x) is not None else x for x in s[1])
                return (_ci(s) if _ci(s) is not None else s,)
            if f == "numpy.array" and t[2]:
                return self.shape(t[2][0])
            if f == "numpy.vstack" and t[2] and t[2][0][0] in ("tuple", "list"):
                parts = [self.shape(x) for x in t[2][0][1]]
                if any(p is None for p in parts):
                    return None
                rows = sum(p[0] if len(p) == 2 else 1 for p in parts)
                return (rows, parts[0][-1])
            if f == ".reshape" and len(t[2]) >= 2:
                s = t[2][1]
                dims = s[1] if s[0] == "tuple" else t[2][1:]
                return tuple(_ci(x) for x in dims)
            if f == "numpy.diag" and t[2]:
                s = self.shape(t[2][0])
                if s and len(s) == 1:
                    return (s[0], s[0])
            if f == "numpy.where" and len(t[2]) == 3:
                return self.shape(t[2][1]) or self.shape(t[2][2])
            if f in ("builtins.min", "builtins.max", "builtins.float", "builtins.int"):
                return ()
            if f in ("numpy.dot", "numpy.matmul", ".dot") and len(t[2]) == 2:
                a, b = self.shape(t[2][0]), self.shape(t[2][1])
                if a is not None and b is not None and len(a) == 2 and len(b) == 2:
                    return (a[0], b[1])
                if a is not None and b is not None and len(a) == 1 and len(b) == 2:
                    return (b[1],)
                return None
            if f in ("numpy.transpose", ".transpose") and len(t[2]) == 1:
                a = self.shape(t[2][0])
                return tuple(reversed(a)) if a is not None else None
            return None
        if k in ("list", "tuple"):
            if t[1] and t[1][0][0] in ("list", "tuple"):
                return (len(t[1]), len(t[1][0][1]))
            return (len(t[1]),)
        if k == "sub":
            bs = self.shape(t[1])
            if bs is None:
                # token slice item[a:b]
                if t[2][0] == "slice":
                    lo, hi = _ci(t[2][1]) if t[2][1] != NONE else 0, _ci(t[2][2])
                    if lo is not None and hi is not None:
                        return (hi - lo,)
                    if lo is not None and lo < 0 and t[2][2] == NONE:
                        return (-lo,)
                return None
            idx = t[2][1] if t[2][0] == "tuple" else (t[2],)
            out = []
            for d, ix in enumerate(idx):
                if ix[0] == "slice":
                    n = bs[d]
                    if isinstance(n, int):
                        lo = _ci(ix[1]) if ix[1] != NONE else 0
                        hi = _ci(ix[2]) if ix[2] != NONE else n
                        if lo is None or hi is None:
                            return None
                        out.append(len(range(n)[lo:hi]))
                    else:
                        out.append(n)
                # integer index drops the axis
            out.extend(bs[len(idx):])
            return tuple(out)
        if k == "bin" and t[1] == "@":
            return self.shape(("call", "numpy.dot", (t[2], t[3]), ()))
        if k == "attr" and t[2] == "T":
            a = self.shape(t[1])
            return tuple(reversed(a)) if a is not None else None
        if k == "phi":
            a, b = self.shape(t[2]), self.shape(t[3])
            return a if a == b else None
        if k == "bin":
            a, b = self.shape(t[2]), self.shape(t[3])
            if a is None:
                return b
            if b is None:
                return a
            return a if len(a) >= len(b) else b
        if k == "comp" and t[1] == "list" and len(t[3]) == 1:
            return self.shape(t[3][0][1])
        return None

    # ------------------------------------------------------------------ entries
    def entry(self, t: Term, idx: Tuple[Any, ...]) -> Term:
        """idx: tuple of ints (or ROW for the symbolic leading axis)."""
        return self.deep(self._entry(t, idx))

    def _entry(self, t: Term, idx: Tuple[Any, ...]) -> Term:
        k = t[0]
        if k == "const":
            return t
        if k == "call":
            f = t[1]
            if f in ("numpy.zeros", "numpy.ones", "numpy.empty"):
                return self._alloc_entry(t, idx)
            if f == "numpy.array" and t[2]:
                return self.entry(t[2][0], idx)
            if f == "numpy.vstack" and t[2] and t[2][0][0] in ("tuple", "list"):
                r = idx[0]
                for part in t[2][0][1]:
                    s = self.shape(part)
                    if s is None:
                        raise NoEntry(f"vstack part {show(part)[:40]}")
                    n = s[0] if len(s) == 2 else 1
                    if r < n:
                        return self.entry(part, idx if len(s) == 2 else idx[1:])
                    r -= n
                    idx = (r,) + idx[1:]
                raise NoEntry("row beyond vstack")
            if f == ".reshape" and len(t[2]) >= 2:
                s = self.shape(t)
                if s is None or any(x is None for x in s):
                    raise NoEntry("reshape shape")
                flat = 0
                for d, i in enumerate(idx):
                    flat = flat * s[d] + i
                return self.entry(t[2][0], (flat,))
            if f == "numpy.diag" and t[2]:
                if idx[0] == idx[1]:
                    return self.entry(t[2][0], (idx[0],))
                return C(0)
            if f == "numpy.where" and len(t[2]) == 3:
                c, a, b = t[2]
                return ("call", "numpy.where", (self.entry(c, idx), self.entry(a, idx), self.entry(b, idx)), ())
            if f in ("builtins.float", "builtins.int", "builtins.min", "builtins.max"):
                return self.deep(t)
            if f in ("numpy.dot", "numpy.matmul", ".dot") and len(t[2]) == 2:
                return self._dot_entry(t[2][0], t[2][1], idx)
            if f in ("numpy.transpose", ".transpose") and len(t[2]) == 1:
                return self.entry(t[2][0], tuple(reversed(idx)))
            raise NoEntry(f"call {show(t)[:50]}")
        if k in ("list", "tuple"):
            e = t[1][idx[0]]
            if len(idx) > 1:
                return self.entry(e, idx[1:])
            return e
        if k == "comp" and t[1] == "list" and len(t[3]) == 1 and not t[3][0][2]:
            # [f(j) for j in seq]  -> f(seq[k])
            cv, seq, _ = t[3][0]
            inner = self.entry(seq, (idx[0],))
            from .vg import subst
            return subst(t[2], lambda x: inner if x == cv else None)
        if k == "sub":
            base = t[1]
            ix = t[2][1] if t[2][0] == "tuple" else (t[2],)
            bs = self.shape(base)
            full = []
            rest = list(idx)
            for d, x in enumerate(ix):
                if x[0] == "slice":
                    lo = _ci(x[1]) if x[1] != NONE else 0
                    if lo is None:
                        raise NoEntry("symbolic slice")
                    if lo < 0 and bs is not None:
                        raise NoEntry("negative slice")
                    i = rest.pop(0)
                    full.append(i if i is ROW else lo + i)
                elif _ci(x) is not None:
                    full.append(_ci(x))
                else:
                    full.append(x)
            full.extend(rest)
            if bs is None and base[0] not in ("call", "list", "tuple", "bin", "sub"):
                raise NoEntry(f"base {show(base)[:40]}")
            if bs is None:
                # e.g. tokens: item[:3][c] -> item[c]
                return ("sub", base, C(full[0])) if len(full) == 1 and isinstance(full[0], int) else ("sub", base, ("tuple", tuple(C(i) if isinstance(i, int) else i for i in full)))
            return self.entry(base, tuple(full))
        if k == "elem":
            # tuple-unpacking of a row: a, b, c = M[0, :]
            return self.entry(t[1], (t[2],))
        if k == "bin" and t[1] == "@":
            return self._dot_entry(t[2], t[3], idx)
        if k == "attr" and t[2] == "T":
            return self.entry(t[1], tuple(reversed(idx)))
        if k == "bin" and t[1] in ("+", "-", "*", "/", "**"):
            return ("bin", t[1], self._bentry(t[2], idx), self._bentry(t[3], idx))
        if k == "cmp":
            return ("cmp", t[1], self._bentry(t[2], idx), self._bentry(t[3], idx))
        if k == "un" and t[1] == "-":
            return ("un", "-", self._bentry(t[2], idx))
        if k == "phi":
            # conditional value: the entry under either outcome (the test stays a whole-array term)
            return ("phi", t[1], self.entry(t[2], idx), self.entry(t[3], idx))
        if k == "mu":
            raise NoEntry("loop-carried array")
        raise NoEntry(f"term {show(t)[:50]}")

    def _dot_entry(self, A: Term, B: Term, idx) -> Term:
        """(A B)[r, c] = sum_k A[r, k] B[k, c] for matrices of concrete inner extent (row vectors: (a B)[c] = sum_k a[k] B[k, c])"""
        sa, sb = self.shape(A), self.shape(B)
        if sa is None or sb is None or len(sb) != 2 or not isinstance(sb[0], int) or len(sa) not in (1, 2):
            raise NoEntry("matrix product of unresolved shapes")
        if isinstance(sa[-1], int) and sa[-1] != sb[0]:
            raise NoEntry("matrix product: inner extents differ")
        acc = None
        for k_ in range(sb[0]):
            a = self.entry(A, (idx[0], k_)) if len(sa) == 2 else self.entry(A, (k_,))
            b = self.entry(B, (k_, idx[-1]))
            term = ("bin", "*", a, b)
            acc = term if acc is None else ("bin", "+", acc, term)
        return acc

    def deep(self, t: Term) -> Term:
        """Resolve every scalar array read (tuple-unpacked rows, constant subscripts) inside a scalar term."""
        from .vg import subst

        def fn(x):
            if x[0] == "elem" or (x[0] == "sub" and x[2][0] != "slice" and self.shape(x) == ()):
                try:
                    r = self.entry(x, ())
                    if r != x:
                        return self.deep(r)
                except (NoEntry, IndexError, TypeError):
                    return None
            return None
        return subst(t, fn)

    def _bentry(self, t: Term, idx):
        s = self.shape(t)
        if s is None:
            if t[0] in ("const", "sym") or (t[0] == "call" and t[1] in ("builtins.float", "builtins.int")):
                return t
            if t[0] == "elem" or t[0] == "sub":
                try:
                    return self.entry(t, idx)
                except NoEntry:
                    return t
            return t
        if len(s) == 0:
            return t
        return self.entry(t, tuple(idx[len(idx) - len(s):]))

    def _alloc_entry(self, t: Term, idx) -> Term:
        val: Optional[Term] = None
        shp = self.shape(t)
        if shp is not None and len(shp) != len(idx):
            raise NoEntry(f"entry index of rank {len(idx)} into an array of rank {len(shp)}")
        for ev in self.stores.get(t, []):
            tg = ev.data["target"][2]
            ix = tg[1] if tg[0] == "tuple" else (tg,)
            rest = list(idx)
            ok = True
            sub_idx = []
            for d, x in enumerate(ix):
                if not rest:
                    ok = False
                    break
                i = rest.pop(0)
                if x[0] == "slice":
                    lo = _ci(x[1]) if x[1] != NONE else 0
                    hi = _ci(x[2]) if x[2] != NONE else None
                    if i is ROW:
                        sub_idx.append(ROW)
                    elif lo is None or (x[2] != NONE and hi is None) or x[3] != NONE:
                        # symbolic slice bounds / a step: whether this store covers the entry is not known
                        raise NoEntry(f"store with a symbolic slice may write the entry: {show(tg)[:50]}")
                    elif i < lo or (hi is not None and i >= hi):
                        ok = False
                        break
                    else:
                        sub_idx.append(i - lo)
                elif _ci(x) is not None:
                    if i is ROW or _ci(x) != i:
                        ok = False
                        break
                else:
                    # symbolic scalar index (generic loop iteration): matches the symbolic row; for a concrete entry it may or
                    # may not be the one written - the entry is then unknown, never "still zero"
                    if i is not ROW:
                        raise NoEntry(f"store with a symbolic index may write the entry: {show(tg)[:50]}")
                    xs_ = self.shape(x)
                    if xs_ is not None and len(xs_) == 1:
                        # an index ARRAY (scatter of whole rows): the generic row of the target is the generic row of the value
                        sub_idx.append(ROW)
            if not ok:
                continue
            if [g for g in ev.guards if g not in self.base_guards]:
                raise NoEntry(f"conditional store to the entry under {show(ev.guards[-1][0])[:50]}")
            sub_idx.extend(rest)
            v = ev.data["value"]
            vs = self.shape(v)
            if vs is None and not sub_idx:
                new = v
            else:
                try:
                    new = self.entry(v, tuple(sub_idx)) if sub_idx else v
                except NoEntry:
                    if not sub_idx:
                        new = v
                    else:
                        raise
            if ev.data["op"] is None:
                val = new
            else:
                old = val if val is not None else C(0)
                val = ("bin", ev.data["op"], old, new)
        if val is None:
            return C(0)
        return val
