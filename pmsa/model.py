"""E1 - package model: parse PyMatterSim from the working tree, resolve imports,
index functions / classes / methods, dataclass and enum metadata, call graph.

Nothing here imports or executes the repository; everything is read with `ast`.
"""
from __future__ import annotations

import ast
import hashlib
import os
from dataclasses import dataclass, field
from typing import Dict, List, Optional, Tuple

REPO = os.environ.get("VERIF_REPO", "/repo")
PKG = "PyMatterSim"


class AnalysisError(Exception):
    """Anchor missing / construct outside the grammar a rule understands (exit 2)."""


@dataclass
class FunctionInfo:
    qual: str                  # PyMatterSim.static.gr.gr.unary
    module: "ModuleInfo"
    node: ast.FunctionDef
    cls: Optional["ClassInfo"] = None

    @property
    def name(self) -> str:
        return self.node.name

    @property
    def params(self) -> List[str]:
        a = self.node.args
        return [x.arg for x in a.posonlyargs + a.args + a.kwonlyargs]

    def param_annotations(self) -> Dict[str, str]:
        a = self.node.args
        out = {}
        for x in a.posonlyargs + a.args + a.kwonlyargs:
            out[x.arg] = ast.unparse(x.annotation) if x.annotation is not None else ""
        return out

    def defaults(self) -> Dict[str, ast.expr]:
        a = self.node.args
        pos = a.posonlyargs + a.args
        out = {}
        for p, d in zip(pos[len(pos) - len(a.defaults):], a.defaults):
            out[p.arg] = d
        for p, d in zip(a.kwonlyargs, a.kw_defaults):
            if d is not None:
                out[p.arg] = d
        return out

    @property
    def relpath(self) -> str:
        return self.module.relpath

    def loc(self, node: Optional[ast.AST] = None) -> str:
        ln = getattr(node, "lineno", self.node.lineno) if node is not None else self.node.lineno
        return f"{self.relpath}:{ln}"


@dataclass
class ClassInfo:
    qual: str
    module: "ModuleInfo"
    node: ast.ClassDef
    methods: Dict[str, FunctionInfo] = field(default_factory=dict)
    frozen_dataclass: bool = False
    is_dataclass: bool = False
    is_enum: bool = False
    enum_members: List[str] = field(default_factory=list)
    fields: List[str] = field(default_factory=list)


@dataclass
class ModuleInfo:
    name: str                  # PyMatterSim.static.gr
    path: str
    relpath: str
    source: str
    tree: ast.Module
    imports: Dict[str, str] = field(default_factory=dict)   # local alias -> qualified name
    functions: Dict[str, FunctionInfo] = field(default_factory=dict)
    classes: Dict[str, ClassInfo] = field(default_factory=dict)
    globals: Dict[str, ast.expr] = field(default_factory=dict)

    @property
    def digest(self) -> str:
        return hashlib.sha256(self.source.encode()).hexdigest()[:16]


def _resolve_relative(modname: str, is_pkg: bool, level: int, target: Optional[str]) -> str:
    parts = modname.split(".")
    if not is_pkg:
        parts = parts[:-1]
    if level > 1:
        parts = parts[: len(parts) - (level - 1)]
    if target:
        parts = parts + target.split(".")
    return ".".join(parts)


class Package:
    def __init__(self, repo: Optional[str] = None):
        self.repo = repo or os.environ.get("VERIF_REPO", REPO)
        self.root = os.path.join(self.repo, PKG)
        if not os.path.isdir(self.root):
            raise AnalysisError(f"package directory missing: {self.root}")
        self.modules: Dict[str, ModuleInfo] = {}
        self.functions: Dict[str, FunctionInfo] = {}
        self.classes: Dict[str, ClassInfo] = {}
        self._load()

    # ------------------------------------------------------------------
    def _load(self) -> None:
        for dirpath, dirnames, filenames in os.walk(self.root):
            dirnames[:] = sorted(d for d in dirnames if d != "__pycache__")
            for fn in sorted(filenames):
                if not fn.endswith(".py"):
                    continue
                path = os.path.join(dirpath, fn)
                rel = os.path.relpath(path, self.repo)
                modparts = rel[:-3].split(os.sep)
                is_pkg = modparts[-1] == "__init__"
                if is_pkg:
                    modparts = modparts[:-1]
                modname = ".".join(modparts)
                with open(path, "r", encoding="utf-8") as f:
                    src = f.read()
                try:
                    tree = ast.parse(src, filename=path)
                except SyntaxError as e:
                    raise AnalysisError(f"cannot parse {rel}: {e}")
                mi = ModuleInfo(modname, path, rel, src, tree)
                self._index_module(mi, is_pkg)
                self.modules[modname] = mi

    def _index_module(self, mi: ModuleInfo, is_pkg: bool) -> None:
        for node in ast.walk(mi.tree):
            if isinstance(node, ast.Import):
                for a in node.names:
                    if a.asname:
                        mi.imports[a.asname] = a.name
                    else:
                        # `import a.b` binds `a`
                        mi.imports[a.name.split(".")[0]] = a.name.split(".")[0]
            elif isinstance(node, ast.ImportFrom):
                if node.level:
                    base = _resolve_relative(mi.name, is_pkg, node.level, node.module)
                else:
                    base = node.module or ""
                for a in node.names:
                    mi.imports[a.asname or a.name] = f"{base}.{a.name}"
        for node in mi.tree.body:
            if isinstance(node, (ast.FunctionDef, ast.AsyncFunctionDef)):
                fi = FunctionInfo(f"{mi.name}.{node.name}", mi, node)
                mi.functions[node.name] = fi
                self.functions[fi.qual] = fi
            elif isinstance(node, ast.ClassDef):
                ci = ClassInfo(f"{mi.name}.{node.name}", mi, node)
                for dec in node.decorator_list:
                    txt = ast.unparse(dec)
                    if txt.startswith("dataclass"):
                        ci.is_dataclass = True
                        if isinstance(dec, ast.Call):
                            for kw in dec.keywords:
                                if kw.arg == "frozen" and isinstance(kw.value, ast.Constant) and kw.value.value is True:
                                    ci.frozen_dataclass = True
                for b in node.bases:
                    if ast.unparse(b) in ("Enum", "enum.Enum", "IntEnum"):
                        ci.is_enum = True
                for item in node.body:
                    if isinstance(item, (ast.FunctionDef, ast.AsyncFunctionDef)):
                        fi = FunctionInfo(f"{ci.qual}.{item.name}", mi, item, ci)
                        ci.methods[item.name] = fi
                        self.functions[fi.qual] = fi
                    elif isinstance(item, ast.AnnAssign) and isinstance(item.target, ast.Name):
                        ci.fields.append(item.target.id)
                    elif isinstance(item, ast.Assign) and ci.is_enum:
                        for t in item.targets:
                            if isinstance(t, ast.Name):
                                ci.enum_members.append(t.id)
                mi.classes[node.name] = ci
                self.classes[ci.qual] = ci
            elif isinstance(node, ast.Assign):
                for t in node.targets:
                    if isinstance(t, ast.Name):
                        mi.globals[t.id] = node.value

    # ------------------------------------------------------------------
    def func(self, qual: str) -> FunctionInfo:
        if not qual.startswith(PKG + "."):
            qual = f"{PKG}.{qual}"
        fi = self.functions.get(qual)
        if fi is None:
            raise AnalysisError(f"anchor function missing: {qual}")
        return fi

    def cls(self, qual: str) -> ClassInfo:
        if not qual.startswith(PKG + "."):
            qual = f"{PKG}.{qual}"
        ci = self.classes.get(qual)
        if ci is None:
            raise AnalysisError(f"anchor class missing: {qual}")
        return ci

    def module(self, name: str) -> ModuleInfo:
        if not name.startswith(PKG):
            name = f"{PKG}.{name}"
        mi = self.modules.get(name)
        if mi is None:
            raise AnalysisError(f"anchor module missing: {name}")
        return mi

    def resolve_name(self, mi: ModuleInfo, name: str) -> Optional[str]:
        """Qualified name a bare identifier refers to at module scope."""
        if name in mi.imports:
            return mi.imports[name]
        if name in mi.functions:
            return mi.functions[name].qual
        if name in mi.classes:
            return mi.classes[name].qual
        if name in mi.globals:
            return f"{mi.name}.{name}"
        return None

    def readonly_global(self, mi: ModuleInfo, name: str) -> Optional[ast.expr]:
        """The literal a module-level name is bound to, when that binding is effectively constant: assigned exactly once at
        module level to a constant / tuple / list / dict literal and never stored to, deleted, augmented or handed to a
        mutating method anywhere in its module (other modules cannot rebind a name they merely import)."""
        key = (mi.name, name)
        cache = self.__dict__.setdefault("_ro_globals", {})
        if key in cache:
            return cache[key]
        val = mi.globals.get(name)
        res = None
        if isinstance(val, (ast.Constant, ast.Tuple, ast.List, ast.Dict)):
            n_assign = 0
            bad = False
            MUT = {"append", "extend", "insert", "pop", "remove", "clear", "sort", "reverse", "update", "setdefault", "popitem", "add", "discard", "__setitem__"}
            for node in ast.walk(mi.tree):
                if isinstance(node, ast.Name) and node.id == name and isinstance(node.ctx, (ast.Store, ast.Del)):
                    n_assign += 1
                elif isinstance(node, (ast.Subscript, ast.Attribute)) and isinstance(node.ctx, (ast.Store, ast.Del)) and \
                        isinstance(node.value, ast.Name) and node.value.id == name:
                    bad = True
                elif isinstance(node, ast.Call) and isinstance(node.func, ast.Attribute) and node.func.attr in MUT and \
                        isinstance(node.func.value, ast.Name) and node.func.value.id == name:
                    bad = True
                elif isinstance(node, ast.Global) and name in node.names:
                    bad = True
            if n_assign == 1 and not bad:
                res = val
        cache[key] = res
        return res

    def all_functions(self) -> List[FunctionInfo]:
        return [self.functions[k] for k in sorted(self.functions)]

    def digest(self) -> str:
        h = hashlib.sha256()
        for k in sorted(self.modules):
            h.update(self.modules[k].digest.encode())
        return h.hexdigest()[:16]


def norm_stmt(node: ast.AST) -> str:
    """Normalised statement text used to key findings (never line numbers)."""
    try:
        return " ".join(ast.unparse(node).split())
    except Exception:  # pragma: no cover
        return type(node).__name__
