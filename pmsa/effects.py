"""E4 - effect and alias analysis on value-graph terms.

roots(t): the set of abstract objects a term may alias: ('param', name) for everything reachable from
a parameter, ('ctor', name) for objects a class received through its constructor, ('global', q).
Fresh objects (arithmetic results, copies, library results) have no root.

Mutators: subscript stores, augmented assignment on an array-typed alias, in-place methods, `out=`,
numpy.random.shuffle & co, and calls to package functions whose summary says they mutate that
parameter (bottom-up fixed point over the call graph).
"""
from __future__ import annotations

from typing import Any, Dict, FrozenSet, List, Optional, Set, Tuple

from .model import Package, FunctionInfo
from .vg import Interp, Term, Event, C, NONE, is_const, show, walk, interp, init_attrs

Root = Tuple[str, str]

IMMUTABLE_ATTRS = {"shape", "ndim", "size", "dtype", "nparticle", "timestep", "nsnapshots", "name", "N", "step",
                   "dimensions", "index", "columns"}
VIEW_ATTRS = {"T", "real", "imag", "values", "flat", "array", "loc", "iloc", "at"}
VIEW_FUNCS = {"numpy.asarray", "numpy.asanyarray", "numpy.atleast_1d", "numpy.atleast_2d", "numpy.atleast_3d", "numpy.ravel",
              "numpy.reshape", "numpy.squeeze", "numpy.transpose", "numpy.swapaxes", "numpy.expand_dims",
              "numpy.ascontiguousarray", "numpy.real", "numpy.imag", "numpy.diagonal", "numpy.moveaxis",
              "numpy.broadcast_to", "numpy.flip", "numpy.flipud", "numpy.fliplr", "numpy.rollaxis", "numpy.split",
              "numpy.array_split", "numpy.nditer", "builtins.list", "builtins.tuple", "builtins.iter", "builtins.reversed",
              "builtins.enumerate", "builtins.zip"}
VIEW_METHODS = {".reshape", ".ravel", ".squeeze", ".transpose", ".view", ".swapaxes", ".diagonal", ".to_numpy", ".items",
                ".values", ".keys", ".get", ".__getitem__"}
MUTATING_METHODS = {".sort", ".fill", ".put", ".resize", ".partition", ".itemset", ".setflags", ".append", ".extend",
                    ".insert", ".pop", ".remove", ".clear", ".update", ".setdefault", ".reverse", ".byteswap", ".setfield",
                    ".popitem", ".__setitem__", ".drop_duplicates_inplace"}
MUTATING_FUNCS = {"numpy.random.shuffle": [0], "numpy.put": [0], "numpy.copyto": [0], "numpy.fill_diagonal": [0],
                  "numpy.place": [0], "numpy.putmask": [0], "random.shuffle": [0], "numpy.put_along_axis": [0]}
SCALAR_ANNOTATIONS = {"int", "float", "str", "bool", "complex"}


def index_is_basic(idx: Term, scalar_params: Set[str]) -> Optional[bool]:
    """True: basic indexing (view).  False: advanced (copy on read).  None: unknown."""
    k = idx[0]
    if k == "const":
        return True if (idx[1] is None or isinstance(idx[1], (int, type(Ellipsis))) and not isinstance(idx[1], bool)) else None
    if k == "slice":
        return True
    if k == "mod" and idx[1] == "numpy.newaxis":
        return True
    if k == "tuple":
        vals = [index_is_basic(x, scalar_params) for x in idx[1]]
        if any(v is False for v in vals):
            return False
        return True if all(v is True for v in vals) else None
    if k == "loopvar":
        return True            # elements of range(...) / of an index row: scalars
    if k in ("list", "cmp", "comp"):
        return False
    if k == "bin":
        if idx[1] in ("&", "|", "^"):
            return False
        a, b = index_is_basic(idx[2], scalar_params), index_is_basic(idx[3], scalar_params)
        if a is True and b is True:
            return True
        return None
    if k == "un":
        if idx[1] == "~":
            return False
        return index_is_basic(idx[2], scalar_params)
    if k == "sym":
        if ("array:" + idx[1]) in scalar_params:
            return False        # an array / list valued parameter used as index: advanced indexing
        return True if idx[1] in scalar_params else None
    if k == "elem":
        return index_is_basic(idx[1], scalar_params)
    if k == "mu":
        return index_is_basic(idx[3], scalar_params) if idx[3] is not None else None
    if k == "call":
        f = idx[1]
        if f in ("builtins.int", "builtins.len", "builtins.round", "builtins.min", "builtins.max"):
            return True
        return False if isinstance(f, str) and (f.startswith("numpy.") or f in (".astype", ".argsort", ".nonzero")) else None
    if k == "sub":
        # element of an index array, e.g. cnlist[i, 0]  (scalar) vs cnlist[i, 1:n] (array -> advanced)
        inner = index_is_basic(idx[2], scalar_params)
        if idx[2][0] == "tuple" and all(x[0] != "slice" for x in idx[2][1]) and inner is True:
            return True
        if idx[2][0] != "tuple" and idx[2][0] != "slice" and inner is True:
            return None
        return False if (idx[2][0] == "slice" or (idx[2][0] == "tuple" and any(x[0] == "slice" for x in idx[2][1]))) else None
    if k == "attr":
        return None
    return None


class Effects:
    def __init__(self, pkg: Package):
        self.pkg = pkg
        self.interps: Dict[str, Interp] = {}
        self.mutates: Dict[str, Dict[str, str]] = {}        # func -> {param: reason}
        self.returns_alias: Dict[str, Set[str]] = {}        # func -> {params}
        self.sites: Dict[str, List[Dict[str, Any]]] = {}    # func -> mutation sites (with roots)
        self.ctor_attrs: Dict[str, Dict[str, Term]] = {}
        self._must = False
        self._build()

    # ------------------------------------------------------------------
    def it(self, qual: str) -> Interp:
        if qual not in self.interps:
            self.interps[qual] = interp(self.pkg, qual)
        return self.interps[qual]

    def scalar_params(self, fi: FunctionInfo) -> Set[str]:
        out = set()
        for p, a in fi.param_annotations().items():
            if a.split("[")[0].strip() in SCALAR_ANNOTATIONS:
                out.add(p)
            elif any(x in a for x in ("NDArray", "ndarray", "np.array", "List[", "list[")):
                out.add("array:" + p)
        return out

    def class_attrs(self, fi: FunctionInfo) -> Dict[str, Term]:
        if fi.cls is None:
            return {}
        q = fi.cls.qual
        if q not in self.ctor_attrs:
            try:
                self.ctor_attrs[q] = init_attrs(self.pkg, q)
            except Exception:
                self.ctor_attrs[q] = {}
        return self.ctor_attrs[q]

    # ------------------------------------------------------------------ roots
    def roots_definite(self, it: Interp, t: Term, own: bool = False) -> Set[Root]:
        """Roots reached through constructs that ARE views / the object itself for array inputs (basic indexing with a known basic
        index, attribute views, reshapes, names, loop elements): the part of the may-alias answer that is a positive witness.
        Unknown index kinds and container copies (list(x), tuple(x), ...) are left out."""
        self._must = True
        try:
            return self.roots(it, t, own=own)
        finally:
            self._must = False

    def roots(self, it: Interp, t: Term, seen: Optional[Set[int]] = None, ctor: bool = False, own: bool = False) -> Set[Root]:
        """May-alias roots of term t inside function `it`.  ctor=True: t is a constructor-side term.
        own=True: roots of the object itself (a freshly built container is fresh even if it holds aliases);
        own=False: everything reachable from it."""
        fi = it.fi
        seen = seen if seen is not None else set()
        k = t[0]
        scal = self.scalar_params(fi)
        if k == "sym":
            nm = t[1]
            if nm in scal:
                return set()
            if ctor:
                init = fi.cls.methods.get("__init__") if fi.cls else None
                if init is not None:
                    ann = init.param_annotations().get(nm, "")
                    if ann.split("[")[0].strip() in SCALAR_ANNOTATIONS:
                        return set()
                return {("ctor", nm)}
            if nm == it.selfname:
                return {("self", nm)}
            return {("param", nm)}
        if k == "global":
            return {("global", t[1])}
        if k in ("const", "bin", "un", "cmp", "bool", "fstr", "mod", "builtin", "undef", "unknown", "slice"):
            return set()
        if k == "attr":
            if t[2] in IMMUTABLE_ATTRS:
                return set()
            base = t[1]
            if not ctor and it.selfname is not None and base == ("sym", it.selfname):
                if t[2] in it.self_attrs and fi.name == "__init__":
                    return self.roots(it, it.self_attrs[t[2]], seen, own=own)
                attrs = self.class_attrs(fi)
                if t[2] in attrs and fi.name != "__init__":
                    init_it = self.it(fi.cls.methods["__init__"].qual)
                    return self.roots(init_it, attrs[t[2]], seen, ctor=True, own=own) | {("state", t[2])}
                # state created by the object itself in another method (a cache): shared between calls and,
                # when that method returned it, with the caller
                return {("state", t[2])} if fi.name != "__init__" else set()
            return self.roots(it, base, seen, ctor)
        if k == "sub":
            b = index_is_basic(t[2], scal)
            if b is False or (b is None and self._must):
                return set()
            return self.roots(it, t[1], seen, ctor)
        if k == "elem":
            return self.roots(it, t[1], seen, ctor)
        if k == "phi":
            return self.roots(it, t[2], seen, ctor, own) | self.roots(it, t[3], seen, ctor, own)
        if k == "appended":
            if own:
                return self.roots(it, t[1], seen, ctor, True)
            return self.roots(it, t[1], seen, ctor) | self.roots(it, t[2], seen, ctor)
        if own and k in ("tuple", "list", "set", "dict", "comp"):
            return set()
        if k in ("tuple", "list", "set"):
            out: Set[Root] = set()
            for x in t[1]:
                out |= self.roots(it, x, seen, ctor)
            return out
        if k == "dict":
            out = set()
            for _, v in t[1]:
                out |= self.roots(it, v, seen, ctor)
            return out
        if k == "star":
            return self.roots(it, t[1], seen, ctor)
        if k == "mu":
            key = hash(("mu", t[1], t[2]))
            if key in seen:
                return set()
            seen.add(key)
            out = self.roots(it, t[3], seen, ctor, own) if t[3] is not None else set()
            for ev in it.events:
                if ev.kind == "assign" and ev.data["name"] == t[2] and t[1] in ev.loops:
                    out |= self.roots(it, ev.data["value"], seen, ctor, own)
            return out
        if k == "loopvar":
            li = it.loops.get(t[1])
            if li is None or li.iter is None or li.kind != "for":
                return set()
            itr = li.iter
            if itr[0] == "call" and itr[1] == "builtins.range":
                return set()
            if itr[0] == "call" and itr[1] == "builtins.enumerate" and itr[2]:
                return self.roots(it, itr[2][0], seen, ctor)
            return self.roots(it, itr, seen, ctor)
        if k == "cvar":
            return {("unknown-comp", t[2])} if False else set()
        if k == "comp":
            out = self.roots(it, t[2], seen, ctor) if isinstance(t[2], tuple) and t[2] and isinstance(t[2][0], str) else set()
            # comprehension variables: alias elements of their iterables
            for g in t[3]:
                pass
            return out
        if k == "call":
            f = t[1]
            args, kwargs = t[2], t[3]
            if isinstance(f, str):
                if f in VIEW_FUNCS or f in VIEW_METHODS:
                    if self._must and f in ("builtins.list", "builtins.tuple", "builtins.iter", "builtins.reversed", "builtins.enumerate", "builtins.zip",
                                            "numpy.split", "numpy.array_split", "numpy.nditer", ".items", ".values", ".keys", ".get"):
                        return set()
                    return self.roots(it, args[0], seen, ctor) if args else set()
                if f == "numpy.array":
                    cp = dict(kwargs).get("copy")
                    if cp is not None and cp != C(True):
                        return self.roots(it, args[0], seen, ctor) if args else set()
                    return set()
                if f == ".astype":
                    cp = dict(kwargs).get("copy")
                    if cp == C(False):
                        return self.roots(it, args[0], seen, ctor)
                    return set()
                if f.startswith("PyMatterSim."):
                    if f in self.pkg.classes:
                        if own:
                            return set()
                        out = set()
                        for a in args:
                            out |= self.roots(it, a, seen, ctor)
                        for _, v in kwargs:
                            out |= self.roots(it, v, seen, ctor)
                        return out
                    if f in self.pkg.functions:
                        callee = self.pkg.functions[f]
                        ra = self.returns_alias.get(f, set())
                        out = set()
                        for pname, a in self.bind_args(callee, t, it):
                            if pname in ra:
                                out |= self.roots(it, a, seen, ctor)
                        return out
                    return set()
                if f == "dataclasses.replace":
                    if own:
                        return set()
                    out = set()
                    for a in args:
                        out |= self.roots(it, a, seen, ctor)
                    for _, v in kwargs:
                        out |= self.roots(it, v, seen, ctor)
                    return out
            return set()
        return set()

    def bind_args(self, callee: FunctionInfo, call: Term, it: Interp) -> List[Tuple[str, Term]]:
        params = list(callee.params)
        out = []
        if callee.cls is not None and params:
            # method called as self.m(...) -> receiver is the caller's self
            selfp = params[0]
            params = params[1:]
            if it.selfname is not None:
                out.append((selfp, ("sym", it.selfname)))
        for i, a in enumerate(call[2]):
            if i < len(params):
                out.append((params[i], a))
        for k, v in call[3]:
            if k in params:
                out.append((k, v))
        return out

    # ------------------------------------------------------------------ mutation sites of one function
    def mutation_sites(self, qual: str) -> List[Dict[str, Any]]:
        it = self.it(qual)
        fi = it.fi
        scal = self.scalar_params(fi)
        sites: List[Dict[str, Any]] = []
        for ev in it.events:
            if ev.kind == "store":
                tg = ev.data["target"]
                if tg[0] == "sub":
                    r = self.roots(it, tg[1], own=True)
                    sites.append({"ev": ev, "how": "subscript store", "target": tg[1], "roots": r})
                elif tg[0] == "attr":
                    if tg[1] == ("sym", it.selfname):
                        continue
                    r = self.roots(it, tg[1], own=True)
                    sites.append({"ev": ev, "how": "attribute store", "target": tg[1], "roots": r, "attr": tg[2]})
            elif ev.kind == "aug" and not ev.data.get("rebind"):
                old = ev.data["old"]
                r = self.roots(it, old, own=True)
                if r:
                    sites.append({"ev": ev, "how": f"in-place operator {ev.data['op']}=", "target": old, "roots": r})
            elif ev.kind == "del":
                tg = ev.data["target"]
                if ev.data["name"] is None and tg[0] == "sub":
                    sites.append({"ev": ev, "how": "del of element", "target": tg[1], "roots": self.roots(it, tg[1], own=True)})
            elif ev.kind == "call":
                call = ev.data["call"]
                f = call[1]
                if isinstance(f, str):
                    if f in MUTATING_METHODS and call[2]:
                        r = self.roots(it, call[2][0], own=True)
                        if r:
                            sites.append({"ev": ev, "how": f"mutating method {f}", "target": call[2][0], "roots": r})
                    if f in MUTATING_FUNCS:
                        for k in MUTATING_FUNCS[f]:
                            if k < len(call[2]):
                                r = self.roots(it, call[2][k], own=True)
                                if r:
                                    sites.append({"ev": ev, "how": f"{f} mutates argument {k}", "target": call[2][k], "roots": r})
                    outkw = dict(call[3]).get("out")
                    if outkw is not None and outkw != NONE:
                        r = self.roots(it, outkw, own=True)
                        if r:
                            sites.append({"ev": ev, "how": "out= keyword", "target": outkw, "roots": r})
                    if f in self.pkg.functions and f in self.mutates:
                        callee = self.pkg.functions[f]
                        for pname, a in self.bind_args(callee, call, it):
                            if pname in self.mutates[f]:
                                r = self.roots(it, a, own=True)
                                if r:
                                    sites.append({"ev": ev, "how": f"passes it to {f.replace('PyMatterSim.', '')} which mutates its parameter "
                                                  f"'{pname}' ({self.mutates[f][pname]})", "target": a, "roots": r})
        return sites

    def _build(self) -> None:
        quals = sorted(self.pkg.functions)
        for q in quals:
            self.mutates[q] = {}
            self.returns_alias[q] = set()
        for _round in range(6):
            changed = False
            for q in quals:
                try:
                    it = self.it(q)
                except Exception:
                    continue
                # returns-alias summary
                ra = set()
                for r in it.returns:
                    for root in self.roots(it, r.data["value"]):
                        if root[0] in ("param",):
                            ra.add(root[1])
                        if root[0] == "self":
                            ra.add(root[1])
                if ra != self.returns_alias[q]:
                    self.returns_alias[q] = ra
                    changed = True
                sites = self.mutation_sites(q)
                self.sites[q] = sites
                mu = dict(self.mutates[q])
                for s in sites:
                    for root in s["roots"]:
                        if root[0] == "param" and root[1] not in mu:
                            mu[root[1]] = f"{s['how']} at {it.fi.relpath}:{s['ev'].lineno}"
                if mu != self.mutates[q]:
                    self.mutates[q] = mu
                    changed = True
            if not changed:
                break
