"""E2 (first half) - gated value graph of one function, read off the syntax tree.

A syntax-directed abstract interpreter over the statement kinds the package uses.
Every use of a name is mapped to a *term* built from roots (parameters, `self`,
file tokens, literals, library calls).  `if` joins produce phi (gamma) terms, loop
carried names produce opaque mu terms, subscript / attribute stores, calls,
returns and raises are recorded as ordered *events* carrying their loop nest and
guard stack.  No repository code is imported or executed; no path enumeration;
no solver.  Terms are nested tuples (hashable, pattern-matchable).

Term grammar
    ('const', v) ('sym', name) ('mod', qualname) ('builtin', name) ('global', qual)
    ('attr', t, name) ('sub', t, idx) ('slice', lo, hi, step)
    ('call', f, args, kwargs)     f: qualified name | '.method' | ('dyn', term)
    ('bin', op, a, b) ('un', op, a) ('cmp', op, a, b) ('bool', op, (t..))
    ('tuple', (t..)) ('list', (t..)) ('dict', ((k, v)..)) ('set', (t..))
    ('phi', cond, a, b) ('mu', loopid, name, init) ('loopvar', loopid, name)
    ('elem', t, k) ('fstr', (parts..)) ('comp', kind, elt, gens) ('cvar', uid, name)
    ('undef', name) ('unknown', text)
"""
from __future__ import annotations

import ast
import itertools
from dataclasses import dataclass, field
from typing import Any, Callable, Dict, List, Optional, Tuple

from .model import AnalysisError, FunctionInfo, ModuleInfo, Package

Term = tuple

BUILTINS = {
    "int", "float", "len", "range", "round", "abs", "min", "max", "str", "enumerate", "zip", "map",
    "set", "tuple", "list", "sorted", "isinstance", "open", "print", "sum", "bool", "dict", "any", "all",
    "complex", "type", "ValueError", "IOError", "ImportError", "BaseException", "Exception",
    "KeyError", "TypeError", "reversed", "divmod", "pow", "iter", "next", "getattr", "hasattr", "slice", "IndexError",
}

BINOPS = {
    ast.Add: "+", ast.Sub: "-", ast.Mult: "*", ast.Div: "/", ast.FloorDiv: "//", ast.Mod: "%",
    ast.Pow: "**", ast.BitAnd: "&", ast.BitOr: "|", ast.BitXor: "^", ast.MatMult: "@",
    ast.LShift: "<<", ast.RShift: ">>",
}
UNOPS = {ast.USub: "-", ast.UAdd: "+", ast.Not: "not", ast.Invert: "~"}
CMPOPS = {
    ast.Eq: "==", ast.NotEq: "!=", ast.Lt: "<", ast.LtE: "<=", ast.Gt: ">", ast.GtE: ">=",
    ast.In: "in", ast.NotIn: "not in", ast.Is: "is", ast.IsNot: "is not",
}


def C(v) -> Term:
    return ("const", v)


NONE = C(None)


def is_const(t: Term) -> bool:
    return isinstance(t, tuple) and len(t) == 2 and t[0] == "const"


@dataclass
class Event:
    kind: str
    node: ast.AST
    loops: Tuple[int, ...]
    guards: Tuple[Tuple[Term, bool], ...]
    data: Dict[str, Any]
    seq: int = 0

    @property
    def lineno(self) -> int:
        return getattr(self.node, "lineno", 0)


@dataclass
class LoopInfo:
    id: int
    node: ast.AST
    kind: str
    iter: Optional[Term]
    target: Optional[Term]
    parents: Tuple[int, ...]
    guards: Tuple[Tuple[Term, bool], ...]


_KNOWN = None


def known_functions():
    """Functions of the package as it was when the rule tables were written.  Rules refer to these by name (call sites of
    remove_pbc, read_neighbors, ...), so calls to them stay calls.  A function that is NOT in this list is a helper introduced
    later (helper extraction is the commonest refactoring): its body is interpreted in place at the call site."""
    global _KNOWN
    if _KNOWN is None:
        import os
        try:
            with open(os.path.join(os.path.dirname(os.path.abspath(__file__)), "known_functions.txt"), "r", encoding="utf-8") as f:
                _KNOWN = {ln.strip() for ln in f if ln.strip()}
        except OSError:
            _KNOWN = set()
    return _KNOWN


LOOP_ITERS: Dict[str, Any] = {}
_LOOP_KEYS = itertools.count(1)


class Interp:
    """Interpret one function body into terms + events."""
    _depth_glob = 0
    _comp_stack: list = []


    MAX_UNROLL = 16
    MAX_INLINE_DEPTH = 3

    def __init__(
        self,
        pkg: Package,
        fi: FunctionInfo,
        bind: Optional[Dict[str, Term]] = None,
        assume: Optional[Callable[[Term], Optional[bool]]] = None,
        self_attrs: Optional[Dict[str, Term]] = None,
        unroll: bool = True,
        track_alloc: bool = False,
    ):
        self.track_alloc = track_alloc
        self.pkg = pkg
        self.fi = fi
        self.mi: ModuleInfo = fi.module
        self.bind = dict(bind or {})
        self.assume = assume
        self.unroll = unroll
        self.env: Dict[str, Term] = {}
        self.selfname: Optional[str] = None
        self.self_attrs: Dict[str, Term] = dict(self_attrs or {})
        self.events: List[Event] = []
        self.loops: Dict[int, LoopInfo] = {}
        self._loopstack: List[int] = []
        self._guards: List[Tuple[Term, bool]] = []
        self._uid = itertools.count(1)
        self._seq = itertools.count(0)
        self.returns: List[Event] = []
        self.notes: List[str] = []
        self._pending_guard = None
        self.falls_through = True
        self._dirty: set = set()
        self._inlined = False
        self._depth = 0
        self._stack: Tuple[str, ...] = (fi.qual,)
        self._run()

    # ------------------------------------------------------------------ setup
    def _run(self) -> None:
        node = self.fi.node
        params = self.fi.params
        if self.fi.cls is not None and params and not any(
            ast.unparse(d) == "staticmethod" for d in node.decorator_list
        ):
            self.selfname = params[0]
        for p in params:
            if p in self.bind:
                self.env[p] = self.bind[p]
            else:
                self.env[p] = ("sym", p)
        if node.args.vararg:
            self.env[node.args.vararg.arg] = ("sym", "*" + node.args.vararg.arg)
        if node.args.kwarg:
            self.env[node.args.kwarg.arg] = ("sym", "**" + node.args.kwarg.arg)
        self.falls_through = not self.exec_block(node.body)

    # ------------------------------------------------------------------ events
    def emit(self, kind: str, node: ast.AST, **data) -> Event:
        if kind == "return" and self._inlined:
            kind = "inl_return"          # a return of a helper interpreted in place: not a return of the analysed function
        if self._comp_stack:
            # evaluated once per element of a comprehension: the generators (variable, iterable) it sits under
            data = dict(data, in_comp=tuple(self._comp_stack))
        ev = Event(kind, node, tuple(self._loopstack), tuple(self._guards), data, next(self._seq))
        self.events.append(ev)
        if kind in ("return", "inl_return"):
            self.returns.append(ev)
        return ev

    # ------------------------------------------------------------------ statements
    def exec_block(self, stmts: List[ast.stmt]) -> bool:
        """Returns True if the block definitely terminates (return/raise/break/continue)."""
        pushed = 0
        try:
            for s in stmts:
                self._pending_guard = None
                if self.exec_stmt(s):
                    return True
                if self._pending_guard is not None:
                    # `if c: return ...` : the rest of this block runs only when c was false
                    self._guards.append(self._pending_guard)
                    pushed += 1
                    self._pending_guard = None
            return False
        finally:
            for _ in range(pushed):
                self._guards.pop()
            self._pending_guard = None

    def exec_stmt(self, s: ast.stmt) -> bool:
        if isinstance(s, ast.Expr):
            if isinstance(s.value, ast.Constant):
                return False  # docstring
            t = self.expr(s.value)
            self.emit("expr", s, value=t)
            return False
        if isinstance(s, ast.Assign):
            v = self.expr(s.value)
            if len(s.targets) == 1 and isinstance(s.targets[0], ast.Name) and s.targets[0].id in self.env and v[0] == "bin":
                # x = x op y (or y op x for a commutative op) is the augmented assignment x op= y
                nm = s.targets[0].id
                old = self.env[nm]
                other = v[3] if v[2] == old else (v[2] if (v[3] == old and v[1] in ("+", "*", "&", "|", "^") and self._commutes(v[1], v[2], v[3])) else None)
                if other is not None and old[0] not in ("const",) and not any(x == old for x in walk(other)):
                    self.emit("aug", s, name=nm, op=v[1], old=old, value=other, new=v, rebind=True)      # out of place: the name is rebound
                    self.env[nm] = v
                    return False
            for tgt in s.targets:
                self.assign(tgt, v, s)
            return False
        if isinstance(s, ast.AnnAssign):
            if s.value is not None:
                self.assign(s.target, self.expr(s.value), s)
            return False
        if isinstance(s, ast.AugAssign):
            op = BINOPS[type(s.op)]
            v = self.expr(s.value)
            if isinstance(s.target, ast.Name):
                old = self.lookup(s.target.id, s.target)
                new = self.mk_bin(op, old, v)
                self.emit("aug", s, name=s.target.id, op=op, old=old, value=v, new=new)
                self.env[s.target.id] = new
            else:
                tt = self.target_term(s.target)
                self.emit("store", s, target=tt, op=op, value=v)
                self._after_store(s.target, tt, v, op)
            return False
        if isinstance(s, ast.Return):
            v = self.expr(s.value) if s.value is not None else NONE
            self.emit("return", s, value=v)
            return True
        if isinstance(s, ast.Raise):
            v = self.expr(s.exc) if s.exc is not None else NONE
            self.emit("raise", s, value=v)
            return True
        if isinstance(s, ast.If):
            return self.exec_if(s)
        if isinstance(s, ast.For):
            return self.exec_for(s)
        if isinstance(s, ast.While):
            return self.exec_while(s)
        if isinstance(s, ast.With):
            for item in s.items:
                t = self.expr(item.context_expr)
                self.emit("with", s, value=t)
                if item.optional_vars is not None:
                    self.assign(item.optional_vars, t, s)
            r = self.exec_block(s.body)
            self.emit("with_exit", s)
            return r
        if isinstance(s, ast.Assert):
            self.emit("assert", s, test=self.expr(s.test))
            return False
        if isinstance(s, ast.Delete):
            for tgt in s.targets:
                if isinstance(tgt, ast.Name):
                    self.emit("del", s, name=tgt.id, target=self.env.get(tgt.id, ("undef", tgt.id)))
                    self.env.pop(tgt.id, None)
                else:
                    self.emit("del", s, name=None, target=self.target_term(tgt))
            return False
        if isinstance(s, ast.Pass):
            return False
        if isinstance(s, ast.Break):
            self.emit("break", s)
            return True
        if isinstance(s, ast.Continue):
            self.emit("continue", s)
            return True
        if isinstance(s, (ast.Import, ast.ImportFrom)):
            self.emit("import", s, text=ast.unparse(s))
            if isinstance(s, ast.Import):
                for a in s.names:
                    nm = a.asname or a.name.split(".")[0]
                    self.env[nm] = ("mod", a.name if a.asname else a.name.split(".")[0])
            else:
                for a in s.names:
                    self.env[a.asname or a.name] = ("mod", f"{s.module}.{a.name}")
            return False
        if isinstance(s, ast.Try):
            return self.exec_try(s)
        if isinstance(s, (ast.FunctionDef, ast.ClassDef)):
            self.env[s.name] = ("unknown", f"nested def {s.name}")
            return False
        if isinstance(s, (ast.Global, ast.Nonlocal)):
            self.emit("global", s, names=list(s.names))
            return False
        raise AnalysisError(f"{self.fi.loc(s)}: statement kind {type(s).__name__} not understood")

    def exec_try(self, s: ast.Try) -> bool:
        term = self.exec_block(s.body)
        base_env = dict(self.env)
        for h in s.handlers:
            tname = ast.unparse(h.type) if h.type is not None else "BaseException"
            self._guards.append((("unknown", f"except {tname}"), True))
            self.env = dict(base_env)
            if h.name:
                self.env[h.name] = ("sym", "exc:" + tname)
            self.exec_block(h.body)
            self._guards.pop()
        self.env = base_env
        if s.orelse:
            term = self.exec_block(s.orelse) or term
        if s.finalbody:
            term = self.exec_block(s.finalbody) or term
        return False

    def fold_truth(self, cond: Term) -> Optional[bool]:
        if is_const(cond):
            return bool(cond[1])
        if cond[0] in ("tuple", "list", "dict", "set"):
            return len(cond[1]) > 0
        if self.assume is not None:
            r = self.assume(cond)
            if r is not None:
                return r
            # the configuration may be stated on the complementary test (x is not None / x != c / x == c ...)
            if cond[0] == "cmp" and cond[1] in ("is", "is not", "==", "!=", "<", ">=", ">", "<="):
                comp = {"is": "is not", "is not": "is", "==": "!=", "!=": "==", "<": ">=", ">=": "<", ">": "<=", "<=": ">"}[cond[1]]
                r = self.assume(("cmp", comp, cond[2], cond[3]))
                if r is not None:
                    return not r
        if cond[0] == "un" and cond[1] == "not":
            r = self.fold_truth(cond[2])
            return None if r is None else (not r)
        if cond[0] == "bool":
            vals = [self.fold_truth(x) for x in cond[2]]
            if cond[1] == "and":
                if any(v is False for v in vals):
                    return False
                if all(v is True for v in vals):
                    return True
            else:
                if any(v is True for v in vals):
                    return True
                if all(v is False for v in vals):
                    return False
        return None

    def residual_cond(self, cond: Term) -> Term:
        """conjuncts that fold to True (disjuncts that fold to False) under the configuration are dropped from a test"""
        if cond[0] == "bool":
            keep = []
            for x in cond[2]:
                x = self.residual_cond(x)
                v = self.fold_truth(x)
                if (cond[1] == "and" and v is True) or (cond[1] == "or" and v is False):
                    continue
                keep.append(x)
            if len(keep) == 1:
                return keep[0]
            if keep and len(keep) < len(cond[2]):
                return ("bool", cond[1], tuple(keep))
        return cond

    def exec_if(self, s: ast.If) -> bool:
        cond = self.expr(s.test)
        f = self.fold_truth(cond)
        if f is None:
            cond = self.residual_cond(cond)
        if f is True:
            return self.exec_block(s.body)
        if f is False:
            return self.exec_block(s.orelse) if s.orelse else False
        env0 = dict(self.env)
        attrs0 = dict(self.self_attrs)
        self._guards.append((cond, True))
        t1 = self.exec_block(s.body)
        self._guards.pop()
        env1, attrs1 = self.env, self.self_attrs
        self.env, self.self_attrs = dict(env0), dict(attrs0)
        self._guards.append((cond, False))
        t2 = self.exec_block(s.orelse) if s.orelse else False
        self._guards.pop()
        env2, attrs2 = self.env, self.self_attrs
        if t1 and t2:
            self.env, self.self_attrs = env1, attrs1
            return True
        if t1:
            self.env, self.self_attrs = env2, attrs2
            self._pending_guard = (cond, False)
            return False
        if t2:
            self.env, self.self_attrs = env1, attrs1
            self._pending_guard = (cond, True)
            return False
        self.env = self._merge(cond, env1, env2)
        self.self_attrs = self._merge(cond, attrs1, attrs2)
        return False

    @staticmethod
    def _merge(cond: Term, a: Dict[str, Term], b: Dict[str, Term]) -> Dict[str, Term]:
        out = {}
        for k in list(a.keys()) + [k for k in b.keys() if k not in a]:
            va = a.get(k, ("undef", k))
            vb = b.get(k, ("undef", k))
            out[k] = va if va == vb else mk_phi(cond, va, vb)
        return out

    @staticmethod
    def _assigned_names(stmts: List[ast.stmt]) -> List[str]:
        names: List[str] = []
        for s in stmts:
            for n in ast.walk(s):
                if isinstance(n, ast.Name) and isinstance(n.ctx, (ast.Store, ast.Del)):
                    if n.id not in names:
                        names.append(n.id)
                elif isinstance(n, ast.AugAssign) and isinstance(n.target, ast.Name):
                    if n.target.id not in names:
                        names.append(n.target.id)
                elif isinstance(n, ast.Call) and isinstance(n.func, ast.Attribute) and isinstance(n.func.value, ast.Name) and \
                        n.func.attr in ("append", "extend", "insert", "pop", "remove", "clear", "update", "add", "setdefault", "popitem", "discard"):
                    # a container grown / shrunk in the body is loop-carried too: its content at the top of an iteration is
                    # not the literal it was initialised with
                    if n.func.value.id not in names:
                        names.append(n.func.value.id)
        return names

    def _const_iter(self, it: Term) -> Optional[List[Term]]:
        if not self.unroll:
            return None
        if it[0] == "call" and it[1] == "builtins.range" and all(is_const(a) and isinstance(a[1], int) for a in it[2]) and not it[3]:
            vals = list(range(*[a[1] for a in it[2]]))
            if len(vals) <= self.MAX_UNROLL:
                return [C(v) for v in vals]
            return None
        if it[0] in ("list", "tuple") and len(it[1]) <= self.MAX_UNROLL:
            return list(it[1])
        if it[0] == "call" and isinstance(it[1], str) and it[1] in ("itertools.combinations", "itertools.combinations_with_replacement", "itertools.product", "itertools.permutations") and not it[3]:
            # index tuples over constant ranges (the K-ary families loop over species pairs this way)
            import itertools as _it
            pools = []
            r = None
            for a in it[2]:
                if is_const(a) and isinstance(a[1], int) and it[1] != "itertools.product":
                    r = a[1]
                    continue
                vals = self._const_iter(a) if a[0] == "call" else (list(a[1]) if a[0] in ("list", "tuple") else None)
                if vals is None or not all(is_const(v) for v in vals):
                    return None
                pools.append([v[1] for v in vals])
            try:
                if it[1] == "itertools.product":
                    combos = list(_it.product(*pools))
                elif len(pools) == 1 and r is not None:
                    combos = list(getattr(_it, it[1].split(".")[1])(pools[0], r))
                else:
                    return None
            except Exception:  # noqa
                return None
            if len(combos) <= self.MAX_UNROLL:
                return [("tuple", tuple(C(v) for v in c)) for c in combos]
        if it[0] == "call" and it[1] in ("builtins.list", "builtins.tuple") and len(it[2]) == 1 and not it[3]:
            return self._const_iter(it[2][0])
        if it[0] == "call" and it[1] == "builtins.zip" and it[2] and not it[3]:
            cols = [self._const_iter(a) if a[0] == "call" else (list(a[1]) if a[0] in ("list", "tuple") else None) for a in it[2]]
            if all(c is not None for c in cols) and len({len(c) for c in cols}) == 1 and 0 < len(cols[0]) <= self.MAX_UNROLL:
                return [("tuple", tuple(c[k] for c in cols)) for k in range(len(cols[0]))]
        if it[0] == "call" and it[1] == "builtins.enumerate" and it[2] and not it[3]:
            inner = self._const_iter(it[2][0]) if it[2][0][0] == "call" else (list(it[2][0][1]) if it[2][0][0] in ("list", "tuple") else None)
            start = 0
            if len(it[2]) == 2 and is_const(it[2][1]) and isinstance(it[2][1][1], int):
                start = it[2][1][1]
            elif len(it[2]) == 2:
                inner = None
            if inner is not None and len(inner) <= self.MAX_UNROLL:
                return [("tuple", (C(start + k), v)) for k, v in enumerate(inner)]
        return None

    def exec_for(self, s: ast.For) -> bool:
        it = self.expr(s.iter)
        items = self._const_iter(it)
        if items is not None and not any(isinstance(n, (ast.Break, ast.Continue)) for b in s.body for n in ast.walk(b)):
            for v in items:
                self.assign(s.target, v, s)
                if self.exec_block(s.body):
                    return True
            if s.orelse:
                self.exec_block(s.orelse)
            return False
        lid = next(self._uid)
        self.loops[lid] = LoopInfo(lid, s, "for", it, None, tuple(self._loopstack), tuple(self._guards))
        for nm in self._assigned_names(s.body):
            if nm in self.env:
                self.env[nm] = ("mu", lid, nm, self.env[nm])
        lv = ("loopvar", lid, ast.unparse(s.target))
        if not (it[0] == "call" and it[1] == "builtins.range"):
            # the variable takes the ELEMENTS of a container (neighbour ids, frames, (index, item) pairs ...): a data read, not a
            # counter - marked so that comparisons never treat it as a pure index
            key_ = f"data#{next(_LOOP_KEYS)}"
            LOOP_ITERS[key_] = it        # looked up by the comparison rules; kept out of the term so that rewrites never touch it
            lv = lv + (key_,)
        self.loops[lid].target = lv
        self._loopstack.append(lid)
        ev0 = len(self.events)
        self.assign(s.target, lv, s, from_loop=True)
        self.exec_block(s.body)
        self._loopstack.pop()
        self._resolve_unassigned_mu(lid, ev0)
        self.emit("loop_exit", s, loop=lid)
        if s.orelse:
            self.exec_block(s.orelse)
        return False

    def exec_while(self, s: ast.While) -> bool:
        lid = next(self._uid)
        self.loops[lid] = LoopInfo(lid, s, "while", None, None, tuple(self._loopstack), tuple(self._guards))
        for nm in self._assigned_names(s.body):
            if nm in self.env:
                self.env[nm] = ("mu", lid, nm, self.env[nm])
        cond = self.expr(s.test)
        self.loops[lid].iter = cond
        self._loopstack.append(lid)
        ev0 = len(self.events)
        self.exec_block(s.body)
        self._loopstack.pop()
        self._resolve_unassigned_mu(lid, ev0)
        self.emit("loop_exit", s, loop=lid)
        return False

    def _resolve_unassigned_mu(self, lid: int, ev0: int) -> None:
        """A name that is syntactically assigned in a loop body but whose assignment was folded away (guard decided
        statically) is not loop-carried: replace its mu term by the value it had at loop entry."""
        assigned = set()
        for ev in self.events[ev0:]:
            if ev.kind in ("assign", "aug") and lid in ev.loops and ev.data.get("name"):
                assigned.add(ev.data["name"])
        dead = {}

        def collect(t):
            for x in walk(t):
                if x[0] == "mu" and x[1] == lid and x[2] not in assigned and x[3] is not None:
                    dead[x] = x[3]
        for ev in self.events[ev0:]:
            for v in ev.data.values():
                if isinstance(v, tuple):
                    collect(v)
        for v in list(self.env.values()) + list(self.self_attrs.values()):
            collect(v)
        if not dead:
            return

        def fn(x):
            return dead.get(x)
        for _ in range(3):
            for ev in self.events[ev0:]:
                for k, v in list(ev.data.items()):
                    if isinstance(v, tuple):
                        ev.data[k] = subst(v, fn)
            for k in list(self.env):
                self.env[k] = subst(self.env[k], fn)
            for k in list(self.self_attrs):
                self.self_attrs[k] = subst(self.self_attrs[k], fn)
        for li in self.loops.values():
            if li.iter is not None:
                li.iter = subst(li.iter, fn)

    # ------------------------------------------------------------------ assignment
    def assign(self, tgt: ast.expr, v: Term, stmt: ast.stmt, from_loop: bool = False) -> None:
        if isinstance(tgt, ast.Name):
            self.env[tgt.id] = v
            self.emit("assign", stmt, name=tgt.id, value=v)
            return
        if isinstance(tgt, (ast.Tuple, ast.List)):
            n = len(tgt.elts)
            # unpacking `None if eof else (a, b, ..)`: None cannot be unpacked, so the values come from the tuple arm
            while v[0] == "phi" and NONE in (v[2], v[3]) and (v[3] if v[2] == NONE else v[2])[0] in ("tuple", "list", "phi"):
                v = v[3] if v[2] == NONE else v[2]
            for k, e in enumerate(tgt.elts):
                if isinstance(e, ast.Starred):
                    self.assign(e.value, ("elem", v, ("star", k)), stmt)
                    continue
                if v[0] in ("tuple", "list") and len(v[1]) == n:
                    self.assign(e, v[1][k], stmt)
                elif v[0] == "loopvar" and v[2].startswith(("(", "[")) is False and "," in v[2]:
                    self.assign(e, self._elem(v, k), stmt)
                else:
                    self.assign(e, self._elem(v, k), stmt)
            return
        tt = self.target_term(tgt)
        # X[s] = X[s] + v  is the same update as  X[s] += v : recorded in the augmented form
        op = None
        if tt[0] == "sub" and v[0] == "bin" and v[1] in ("+", "-", "*", "/"):
            if v[2] == tt:
                op, v = v[1], v[3]
            elif v[3] == tt and v[1] in ("+", "*"):
                op, v = v[1], v[2]
        self.emit("store", stmt, target=tt, op=op, value=v)
        self._after_store(tgt, tt, v, op)

    def target_term(self, tgt: ast.expr) -> Term:
        if isinstance(tgt, ast.Subscript):
            return ("sub", self.expr(tgt.value), self.index(tgt.slice))
        if isinstance(tgt, ast.Attribute):
            return ("attr", self.expr(tgt.value), tgt.attr)
        if isinstance(tgt, ast.Starred):
            return self.target_term(tgt.value)
        raise AnalysisError(f"{self.fi.loc(tgt)}: assignment target {type(tgt).__name__} not understood")

    def _after_store(self, tgt: ast.expr, tt: Term, v: Term, op: Optional[str]) -> None:
        # self.attr = v : visible to later reads in this function
        if isinstance(tgt, ast.Attribute) and isinstance(tgt.value, ast.Name) and tgt.value.id == self.selfname:
            if op is None:
                self.self_attrs[tgt.attr] = v
            else:
                old = self.self_attrs.get(tgt.attr, ("attr", ("sym", self.selfname), tgt.attr))
                self.self_attrs[tgt.attr] = self.mk_bin(op, old, v)
            return
        # literal containers bound to a plain name, constant key, outside symbolic loops: update precisely
        if isinstance(tgt, ast.Subscript) and isinstance(tgt.value, ast.Name):
            nm = tgt.value.id
            cur = self.env.get(nm)
            idx = tt[2]
            if cur is not None and cur[0] in ("dict", "list") and (self._loopstack or self._guards or not is_const(idx)):
                # stored to in a symbolic context: later reads must not be folded to the literal's initial content
                self._dirty.add(cur)
            if cur is not None and cur[0] == "dict" and is_const(idx) and not self._loopstack and not self._guards:
                items = list(cur[1])
                for k, (kk, vv) in enumerate(items):
                    if kk == idx:
                        items[k] = (kk, v if op is None else self.mk_bin(op, vv, v))
                        break
                else:
                    items.append((idx, v))
                self.env[nm] = ("dict", tuple(items))

    # ------------------------------------------------------------------ names
    def lookup(self, name: str, node: Optional[ast.AST] = None) -> Term:
        if name in self.env:
            return self.env[name]
        q = self.pkg.resolve_name(self.mi, name)
        if q is not None:
            if name in self.mi.globals and name not in self.mi.imports:
                lit = self.pkg.readonly_global(self.mi, name)
                if lit is not None and self._depth_glob < 3:
                    # an effectively constant module-level table (e.g. a dispatch tuple of functions): read through it
                    saved = self.env
                    self.env = {}
                    self._depth_glob += 1
                    try:
                        return self.expr(lit)
                    except AnalysisError:
                        pass
                    finally:
                        self.env = saved
                        self._depth_glob -= 1
                return ("global", q)
            return ("mod", q)
        if name in BUILTINS or name in ("True", "False", "None"):
            return ("builtin", name)
        return ("undef", name)

    # ------------------------------------------------------------------ expressions
    def index(self, n: ast.expr) -> Term:
        if isinstance(n, ast.Slice):
            return ("slice", self.expr(n.lower) if n.lower else NONE, self.expr(n.upper) if n.upper else NONE,
                    self.expr(n.step) if n.step else NONE)
        if isinstance(n, ast.Tuple):
            return ("tuple", tuple(self.index(e) for e in n.elts))
        if isinstance(n, ast.Constant) and n.value is None:
            return ("mod", "numpy.newaxis")         # x[:, None] is x[:, np.newaxis]
        return self._as_slice(self.expr(n))

    @staticmethod
    def _as_slice(t: Term) -> Term:
        """slice(a, b[, c]) objects used as subscripts are the same as a:b[:c]"""
        if t[0] == "call" and t[1] == "builtins.slice" and 1 <= len(t[2]) <= 3 and not t[3]:
            a = list(t[2])
            if len(a) == 1:
                a = [NONE, a[0]]
            while len(a) < 3:
                a.append(NONE)
            return ("slice", a[0], a[1], a[2])
        if t[0] == "tuple":
            return ("tuple", tuple(Interp._as_slice(x) for x in t[1]))
        return t

    def expr(self, n: Optional[ast.expr]) -> Term:
        if n is None:
            return NONE
        m = getattr(self, "e_" + type(n).__name__, None)
        if m is None:
            raise AnalysisError(f"{self.fi.loc(n)}: expression kind {type(n).__name__} not understood")
        return m(n)

    def e_Constant(self, n: ast.Constant) -> Term:
        return C(n.value)

    def e_Name(self, n: ast.Name) -> Term:
        if n.id == "True":
            return C(True)
        if n.id == "False":
            return C(False)
        if n.id == "None":
            return NONE
        return self.lookup(n.id, n)

    def e_Attribute(self, n: ast.Attribute) -> Term:
        v = self.expr(n.value)
        if v[0] == "mod":
            return ("mod", v[1] + "." + n.attr)
        if self.selfname is not None and v == ("sym", self.selfname) and n.attr in self.self_attrs:
            return self.self_attrs[n.attr]
        return ("attr", v, n.attr)

    def e_Subscript(self, n: ast.Subscript) -> Term:
        return self.mk_sub(self.expr(n.value), self.index(n.slice))

    def _elem(self, v: Term, k: int) -> Term:
        """component k of an unpacked value; a prefix of a shape tuple unpacks to the extents themselves"""
        if v[0] == "sub" and v[1][0] == "attr" and v[1][2] == "shape" and v[2][0] == "slice":
            r = self.mk_sub(v, C(k))
            if r != ("sub", v, C(k)):
                return r
        return ("elem", v, k)

    def mk_sub(self, base: Term, idx: Term) -> Term:
        if base in self._dirty:
            return ("sub", base, idx)
        if is_const(idx) and isinstance(idx[1], int) and not isinstance(idx[1], bool) and idx[1] >= 0 and base[0] == "sub" and base[2][0] == "slice" \
                and base[2][1] in (NONE, C(0)) and base[2][3] == NONE and is_const(base[2][2]) and isinstance(base[2][2][1], int) and 0 <= idx[1] < base[2][2][1] \
                and base[1][0] == "attr" and base[1][2] == "shape":
            return ("sub", base[1], idx)        # x.shape[:k][i] is x.shape[i] (i < k)
        if is_const(idx):
            k = idx[1]
            if base[0] in ("tuple", "list") and isinstance(k, int) and not isinstance(k, bool) and -len(base[1]) <= k < len(base[1]):
                return base[1][k]
            if base[0] == "dict":
                for kk, vv in base[1]:
                    if kk == idx:
                        return vv
        if is_const(idx) and base[0] == "comp" and base[1] == "list" and len(base[3]) == 1 and not base[3][0][2] and isinstance(idx[1], int) and not isinstance(idx[1], bool):
            # element k of [f(v) for v in range(...)] with constant bounds: f at the k-th value of the range
            cv, itr, _ = base[3][0]
            if itr[0] == "call" and itr[1] == "builtins.range" and not itr[3] and all(is_const(a) and isinstance(a[1], int) for a in itr[2]) and 1 <= len(itr[2]) <= 3:
                try:
                    rg = range(*[a[1] for a in itr[2]])
                    val = rg[idx[1]]
                    return subst(base[2], lambda y: C(val) if y == cv else None)
                except (IndexError, ValueError):
                    pass
        if idx[0] == "slice" and base[0] in ("tuple", "list") and all(is_const(x) for x in idx[1:]):
            lo, hi, st = (x[1] for x in idx[1:])
            try:
                return (base[0], tuple(base[1][slice(lo, hi, st)]))
            except Exception:
                pass
        return ("sub", base, idx)

    def e_Slice(self, n: ast.Slice) -> Term:
        return self.index(n)

    def e_Tuple(self, n: ast.Tuple) -> Term:
        return ("tuple", tuple(self.expr(e) for e in n.elts))

    def e_List(self, n: ast.List) -> Term:
        return ("list", tuple(self.expr(e) for e in n.elts))

    def e_Set(self, n: ast.Set) -> Term:
        return ("set", tuple(self.expr(e) for e in n.elts))

    def e_Dict(self, n: ast.Dict) -> Term:
        return ("dict", tuple((self.expr(k) if k is not None else C("**"), self.expr(v)) for k, v in zip(n.keys, n.values)))

    def e_Yield(self, n: ast.Yield) -> Term:
        # a generator body is interpreted like any other: the yielded value is recorded as an event; what `send` hands back is unknown
        v = self.expr(n.value) if n.value is not None else NONE
        self.emit("yield", n, value=v)
        return ("call", "builtins.<sent>", (), (("@", C(next(self._uid))),))

    def e_YieldFrom(self, n: ast.YieldFrom) -> Term:
        v = self.expr(n.value)
        self.emit("yield", n, value=("star", v))
        return NONE

    def e_Starred(self, n: ast.Starred) -> Term:
        return ("star", self.expr(n.value))

    def e_JoinedStr(self, n: ast.JoinedStr) -> Term:
        parts = []
        for v in n.values:
            if isinstance(v, ast.Constant):
                parts.append(C(v.value))
            elif isinstance(v, ast.FormattedValue):
                spec = ast.unparse(v.format_spec) if v.format_spec is not None else ""
                parts.append(("fmt", self.expr(v.value), spec))
            else:
                parts.append(self.expr(v))
        # every part a literal (text, or an int / str constant formatted without a spec): the string itself
        if all((is_const(p_) and isinstance(p_[1], str)) or (p_[0] == "fmt" and p_[2] == "" and is_const(p_[1]) and isinstance(p_[1][1], (int, str)) and not isinstance(p_[1][1], bool))
               for p_ in parts) and any(p_[0] == "fmt" for p_ in parts):
            return C("".join(str(p_[1]) if is_const(p_) else str(p_[1][1]) for p_ in parts))
        return ("fstr", tuple(parts))

    def e_FormattedValue(self, n: ast.FormattedValue) -> Term:
        return ("fmt", self.expr(n.value), "")

    def e_BinOp(self, n: ast.BinOp) -> Term:
        return self.mk_bin(BINOPS[type(n.op)], self.expr(n.left), self.expr(n.right))

    def mk_bin(self, op: str, a: Term, b: Term) -> Term:
        if is_const(a) and is_const(b):
            x, y = a[1], b[1]
            try:
                if isinstance(x, (int, float, complex)) and isinstance(y, (int, float, complex)) \
                        and not isinstance(x, bool) and not isinstance(y, bool):
                    if op == "+":
                        return C(x + y)
                    if op == "-":
                        return C(x - y)
                    if op == "*":
                        return C(x * y)
                    if op == "//" and y != 0:
                        return C(x // y)
                    if op == "%" and y != 0:
                        return C(x % y)
                    if op == "**" and isinstance(x, int) and isinstance(y, int) and 0 <= y <= 16:
                        return C(x ** y)
                if isinstance(x, str) and isinstance(y, str) and op == "+":
                    return C(x + y)
                if isinstance(x, str) and isinstance(y, int) and op == "*" and y < 64:
                    return C(x * y)
            except Exception:
                pass
        # arithmetic identities with the literal integers 0 and 1 (x + 0, x - 0, x * 1, x / 1): the same values
        def _lit(t, v):
            return is_const(t) and isinstance(t[1], int) and not isinstance(t[1], bool) and t[1] == v
        if op in ("+", "-") and _lit(b, 0) and not is_const(a):
            return a
        if op == "+" and _lit(a, 0) and not is_const(b):
            return b
        if op in ("*", "/") and _lit(b, 1) and not is_const(a):
            return a
        if op == "*" and _lit(a, 1) and not is_const(b):
            return b
        if op in ("+", "*", "&", "|", "^") and self._commutes(op, a, b):
            # canonical operand order for commutative operators: constants last, otherwise by rendering
            ka, kb = (is_const(a), repr(a)), (is_const(b), repr(b))
            if kb < ka:
                a, b = b, a
        return ("bin", op, a, b)

    @staticmethod
    def _commutes(op: str, a: Term, b: Term) -> bool:
        # string / list concatenation and sequence repetition do not commute
        def seqlike(t):
            return (is_const(t) and isinstance(t[1], (str, bytes))) or t[0] in ("list", "tuple", "fstr", "comp", "appended") or \
                (t[0] == "call" and t[1] in ("builtins.str", ".join", "numpy.array2string", "re.sub", ".format"))
        if op in ("+", "*") and (seqlike(a) or seqlike(b)):
            return False
        if op == "+":
            # text built up by concatenation of names whose values are strings: keep order whenever a string literal occurs inside
            def stringy(t):
                # a string literal reachable through concatenation / formatting / selection only (not inside call arguments or subscripts)
                if is_const(t):
                    return isinstance(t[1], (str, bytes))
                if t[0] == "bin" and t[1] in ("+", "%", "*"):
                    return stringy(t[2]) or stringy(t[3])
                if t[0] == "phi":
                    return any(stringy(x) for x in t[2:] if isinstance(x, tuple))
                return False
            if stringy(a) or stringy(b):
                return False
        return True

    def e_UnaryOp(self, n: ast.UnaryOp) -> Term:
        op = UNOPS[type(n.op)]
        a = self.expr(n.operand)
        if is_const(a) and isinstance(a[1], (int, float, complex)) and not isinstance(a[1], bool):
            if op == "-":
                return C(-a[1])
            if op == "+":
                return a
        if op == "not" and is_const(a):
            return C(not a[1])
        return ("un", op, a)

    def e_BoolOp(self, n: ast.BoolOp) -> Term:
        op = "and" if isinstance(n.op, ast.And) else "or"
        return ("bool", op, tuple(self.expr(v) for v in n.values))

    def e_Compare(self, n: ast.Compare) -> Term:
        left = self.expr(n.left)
        parts = []
        for o, c in zip(n.ops, n.comparators):
            right = self.expr(c)
            parts.append(self.mk_cmp(CMPOPS[type(o)], left, right))
            left = right
        return parts[0] if len(parts) == 1 else ("bool", "and", tuple(parts))

    def mk_cmp(self, op: str, a: Term, b: Term) -> Term:
        if is_const(a) and is_const(b):
            x, y = a[1], b[1]
            try:
                r = {"==": lambda: x == y, "!=": lambda: x != y, "<": lambda: x < y, "<=": lambda: x <= y,
                     ">": lambda: x > y, ">=": lambda: x >= y, "is": lambda: x is y, "is not": lambda: x is not y,
                     "in": lambda: x in y, "not in": lambda: x not in y}[op]()
                return C(bool(r))
            except Exception:
                pass
        if op in ("in", "not in") and is_const(a) and b[0] in ("tuple", "list", "set") and all(is_const(e) for e in b[1]):
            r = a[1] in [e[1] for e in b[1]]
            return C(r if op == "in" else not r)
        if op in ("is", "is not") and b == NONE and a[0] in ("const", "tuple", "list", "dict", "bin", "call") and a != NONE:
            if a[0] != "call":
                return C(op == "is not")
        if a == b and op in ("==", "!=", "<=", ">=", "<", ">") and not any(x[0] in ("call", "mu", "unknown", "undef") for x in walk(a)):
            # the same pure value on both sides (no call that could differ between two evaluations)
            return C(op in ("==", "<=", ">="))
        if is_const(a) and not is_const(b) and op in ("==", "!=", "<", "<=", ">", ">=") and a != NONE:
            # canonical orientation: the literal on the right (1 == n  ->  n == 1, 5 < n  ->  n > 5)
            return ("cmp", {"==": "==", "!=": "!=", "<": ">", "<=": ">=", ">": "<", ">=": "<="}[op], b, a)
        return ("cmp", op, a, b)

    def e_IfExp(self, n: ast.IfExp) -> Term:
        c = self.expr(n.test)
        f = self.fold_truth(c)
        if f is True:
            return self.expr(n.body)
        if f is False:
            return self.expr(n.orelse)
        return mk_phi(c, self.expr(n.body), self.expr(n.orelse))

    def e_Lambda(self, n: ast.Lambda) -> Term:
        return ("unknown", "lambda " + ast.unparse(n))

    def _comp(self, kind: str, elts: List[ast.expr], gens: List[ast.comprehension]) -> Term:
        saved = dict(self.env)
        gterms = []
        uid = next(self._uid)
        pushed_ = 0
        for g in gens:
            it = self.expr(g.iter)
            if kind == "list" and len(gens) == 1 and not g.ifs and self.unroll and len(elts) == 1:
                # a comprehension over a literal sequence (or a zip of literal sequences): a list with one entry per item
                items = None
                if it[0] in ("list", "tuple") and 0 < len(it[1]) <= self.MAX_UNROLL:
                    items = list(it[1])
                elif it[0] == "call" and it[1] == "builtins.zip" and it[2] and not it[3] and all(a[0] in ("list", "tuple") for a in it[2]) \
                        and len({len(a[1]) for a in it[2]}) == 1 and 0 < len(it[2][0][1]) <= self.MAX_UNROLL:
                    items = [("tuple", tuple(a[1][k] for a in it[2])) for k in range(len(it[2][0][1]))]
                if items is not None:
                    out = []
                    for item in items:
                        if isinstance(g.target, ast.Name):
                            self.env[g.target.id] = item
                        elif isinstance(g.target, (ast.Tuple, ast.List)) and item[0] in ("tuple", "list") and len(item[1]) == len(g.target.elts) \
                                and all(isinstance(e, ast.Name) for e in g.target.elts):
                            for e, v in zip(g.target.elts, item[1]):
                                self.env[e.id] = v
                        else:
                            out = None
                            break
                        out.append(self.expr(elts[0]))
                    self.env = dict(saved)
                    if out is not None:
                        return ("list", tuple(out))
            tgt_names = [x.id for x in ast.walk(g.target) if isinstance(x, ast.Name)]
            cv = ("cvar", uid, ast.unparse(g.target))
            if isinstance(g.target, ast.Name):
                self.env[g.target.id] = cv
            else:
                for k, e in enumerate(g.target.elts if isinstance(g.target, (ast.Tuple, ast.List)) else []):
                    if isinstance(e, ast.Name):
                        self.env[e.id] = ("elem", cv, k)
                    else:
                        for x in ast.walk(e):
                            if isinstance(x, ast.Name):
                                self.env[x.id] = ("cvar", uid, x.id)
            self._comp_stack = self._comp_stack + [(cv, it)]
            pushed_ += 1
            conds = tuple(self.expr(c) for c in g.ifs)
            gterms.append((cv, it, conds))
        try:
            elt = tuple(self.expr(e) for e in elts)
        finally:
            self._comp_stack = self._comp_stack[:len(self._comp_stack) - pushed_]
        self.env = saved
        return ("comp", kind, elt if len(elt) > 1 else elt[0], tuple(gterms))

    def e_ListComp(self, n: ast.ListComp) -> Term:
        return self._comp("list", [n.elt], n.generators)

    def e_SetComp(self, n: ast.SetComp) -> Term:
        return self._comp("set", [n.elt], n.generators)

    def e_GeneratorExp(self, n: ast.GeneratorExp) -> Term:
        return self._comp("gen", [n.elt], n.generators)

    def e_DictComp(self, n: ast.DictComp) -> Term:
        return self._comp("dict", [n.key, n.value], n.generators)

    def e_Call(self, n: ast.Call) -> Term:
        args = tuple(self.expr(a) for a in n.args)
        kwargs = tuple((k.arg if k.arg is not None else "**", self.expr(k.value)) for k in n.keywords)
        f = n.func
        fname: Any
        if isinstance(f, ast.Attribute):
            recv = self.expr(f.value)
            if recv[0] == "mod":
                fname = recv[1] + "." + f.attr
            elif self.selfname is not None and recv == ("sym", self.selfname) and self.fi.cls is not None \
                    and f.attr in self.fi.cls.methods:
                fname = self.fi.cls.methods[f.attr].qual
            else:
                fname = "." + f.attr
                args = (recv,) + args
        elif isinstance(f, ast.Name):
            t = self.lookup(f.id, f)
            if t[0] == "mod":
                fname = t[1]
            elif t[0] == "builtin":
                fname = "builtins." + f.id
            elif t[0] == "undef":
                fname = "undefined." + f.id
            else:
                fname = ("dyn", t)
        else:
            fname = ("dyn", self.expr(f))
        if isinstance(fname, tuple) and fname[1][0] == "mod" and (fname[1][1] in self.pkg.functions or not fname[1][1].startswith("PyMatterSim.")):
            fname = fname[1][1]         # a callee read out of a constant table resolves to the function it names
        if isinstance(fname, str) and fname in self.pkg.functions and fname not in known_functions() \
                and self._depth < self.MAX_INLINE_DEPTH and fname not in self._stack:
            inl = self._inline_call(self.pkg.functions[fname], args, kwargs, n)
            if inl is not None:
                return inl
        term = self.fold_call(fname, args, kwargs)
        if self.track_alloc and term[0] == "call" and term[1:] == (fname, args, kwargs) and fname != "builtins.range":
            # every evaluated call expression denotes a distinct run-time object
            kwargs = kwargs + (("@", C(next(self._uid))),)
            term = ("call", fname, args, kwargs)
        self.emit("call", n, call=("call", fname, args, kwargs), result=term)
        # container mutators on a plain local list, straight-line code
        if isinstance(f, ast.Attribute) and isinstance(f.value, ast.Name) and f.attr == "append" and len(args) == 2:
            cur = self.env.get(f.value.id)
            if cur is not None and cur[0] == "list" and not self._loopstack and not self._guards:
                self.env[f.value.id] = ("list", cur[1] + (args[1],))
            elif cur is not None:
                # symbolic context: the list may now hold the appended value (any number of times)
                new = ("appended", cur, args[1])
                self.env[f.value.id] = new
                self.emit("assign", n, name=f.value.id, value=new)
        elif isinstance(f, ast.Attribute) and isinstance(f.value, ast.Name) and f.attr == "extend" and len(args) == 2:
            # list.extend(<literal list / tuple>) in straight-line code splices the items; anything else makes the list unknown
            cur = self.env.get(f.value.id)
            if cur is not None and cur[0] == "list":
                if args[1][0] in ("list", "tuple") and not self._loopstack and not self._guards:
                    self.env[f.value.id] = ("list", cur[1] + tuple(args[1][1]))
                else:
                    new = ("call", "list.extended", (cur, args[1]), ())
                    self.env[f.value.id] = new
                    self.emit("assign", n, name=f.value.id, value=new)
        return term

    def _inline_call(self, fi: FunctionInfo, args, kwargs, node) -> Optional[Term]:
        """Interpret the body of a helper at its call site: parameters bound to the argument terms, events appended to the
        caller's stream (inside the caller's loops and guards), its returns folded into one value."""
        import ast as _ast
        if any(isinstance(x, (_ast.Yield, _ast.YieldFrom)) for x in _ast.walk(fi.node)):
            return None
        params = list(fi.params)
        env: Dict[str, Term] = {}
        selfname = None
        is_static = any(_ast.unparse(d) == "staticmethod" for d in fi.node.decorator_list)
        if fi.cls is not None and params and not is_static:
            if self.selfname is None:
                return None
            selfname = params[0]
            env[selfname] = ("sym", self.selfname)
            params = params[1:]
        if any(a[0] == "star" for a in args) or any(k == "**" for k, _ in kwargs):
            return None
        for k, a in enumerate(args):
            if k >= len(params):
                return None
            env[params[k]] = a
        for k, v in kwargs:
            if k not in params:
                return None
            env[k] = v
        defaults = fi.defaults()
        sub = Interp.__new__(Interp)
        sub.track_alloc, sub.pkg, sub.fi, sub.mi = self.track_alloc, self.pkg, fi, fi.module
        sub.bind, sub.assume, sub.unroll = {}, self.assume, self.unroll
        sub.env = env
        sub.selfname = selfname
        sub.self_attrs = self.self_attrs
        sub.events, sub.loops = self.events, self.loops
        sub._loopstack, sub._guards = self._loopstack, self._guards
        sub._comp_stack = list(self._comp_stack)         # a helper called per element of a comprehension stays tagged as such
        sub._uid, sub._seq = self._uid, self._seq
        sub.returns, sub.notes = [], self.notes
        sub._pending_guard, sub.falls_through, sub._dirty = None, True, self._dirty
        sub._inlined, sub._depth, sub._stack = True, self._depth + 1, self._stack + (fi.qual,)
        for p in params:
            if p not in env:
                if p in defaults:
                    env[p] = sub.expr(defaults[p])
                else:
                    return None
        depth0 = len(self._guards)
        self.emit("inline_enter", node, callee=fi.qual)
        n_g, n_l = len(self._guards), len(self._loopstack)
        sub.exec_block(fi.node.body)
        del self._guards[n_g:]
        del self._loopstack[n_l:]
        self.emit("inline_exit", node, callee=fi.qual)
        rets = sub.returns
        if not rets:
            return NONE
        result = rets[-1].data["value"]
        for r in reversed(rets[:-1]):
            extra = r.guards[depth0:]
            conds = [c if pol else ("un", "not", c) for c, pol in extra]
            if not conds:
                result = r.data["value"]
                continue
            cond = conds[0] if len(conds) == 1 else ("bool", "and", tuple(conds))
            result = ("phi", cond, r.data["value"], result)
        return result

    def fold_call(self, fname: Any, args: Tuple[Term, ...], kwargs: Tuple[Tuple[str, Term], ...]) -> Term:
        if fname == "builtins.len" and len(args) == 1 and args[0][0] in ("tuple", "list", "dict", "set"):
            return C(len(args[0][1]))
        if fname == ".split" and len(args) == 1 and is_const(args[0]) and isinstance(args[0][1], str):
            return ("list", tuple(C(x) for x in args[0][1].split()))
        if fname == "builtins.int" and len(args) == 1 and is_const(args[0]) and isinstance(args[0][1], (int, float)) \
                and not isinstance(args[0][1], bool):
            return C(int(args[0][1]))
        if fname == ".keys" and len(args) == 1 and args[0][0] == "dict":
            return ("list", tuple(k for k, _ in args[0][1]))
        if fname in ("builtins.max", "builtins.min", "builtins.abs") and args and not kwargs and \
                all(is_const(a) and isinstance(a[1], (int, float)) and not isinstance(a[1], bool) for a in args):
            vals = [a[1] for a in args]
            if fname == "builtins.abs" and len(vals) == 1:
                return C(abs(vals[0]))
            if fname != "builtins.abs" and len(vals) >= 2:
                return C(max(vals) if fname == "builtins.max" else min(vals))
        if fname == "builtins.int" and len(args) == 1 and not kwargs and args[0][0] == "call" and args[0][1] == "builtins.round" and len(args[0][2]) == 1 and not args[0][3]:
            return args[0]          # round(x) with one argument already is an int
        if fname in ("numpy.asarray", "numpy.asanyarray") and len(args) == 1 and not kwargs and args[0][0] in ("list", "tuple", "comp"):
            return ("call", "numpy.array", args, kwargs)        # a fresh list / comprehension: asarray and array build the same new array
        if fname == "numpy.expand_dims" and args and (dict(kwargs).get("axis") == C(0) or (len(args) == 2 and args[1] == C(0))) and len(kwargs) <= 1:
            # np.expand_dims(a, axis=0) is a[np.newaxis, :] for a vector (the one spelling the rules know)
            return ("sub", args[0], ("tuple", (("mod", "numpy.newaxis"), ("slice", NONE, NONE, NONE))))
        return ("call", fname, args, kwargs)


# ---------------------------------------------------------------------- helpers
def mk_phi(cond: Term, a: Term, b: Term) -> Term:
    """conditional value in canonical orientation: a test `x is None` / `not c` is turned into its positive counterpart with the
    arms swapped, so `a if x is None else b` and `b if x is not None else a` are one term"""
    if cond[0] == "cmp" and cond[1] == "is" and cond[3] == NONE:
        return ("phi", ("cmp", "is not", cond[2], cond[3]), b, a)
    if cond[0] == "un" and cond[1] == "not":
        return mk_phi(cond[2], b, a)
    return ("phi", cond, a, b)


def mkbin(op: str, a: Term, b: Term) -> Term:
    """('bin', op, a, b) in the interpreter's canonical operand order (for building expected terms)."""
    if op in ("+", "*", "&", "|", "^") and Interp._commutes(op, a, b):
        ka, kb = (is_const(a), repr(a)), (is_const(b), repr(b))
        if kb < ka:
            a, b = b, a
    return ("bin", op, a, b)


def canon(t: Any) -> Any:
    """Re-normalise every commutative node of a hand-built term."""
    def fn(x):
        if x[0] == "bin":
            y = mkbin(x[1], x[2], x[3])
            return y if y != x else None
        if x[0] == "sub" and x[1][0] == "attr" and x[1][2] == "shape" and is_const(x[2]) and isinstance(x[2][1], int) and not isinstance(x[2][1], bool):
            a = x[1][1]
            if a[0] == "call" and a[1] in ("numpy.zeros", "numpy.ones", "numpy.empty") and a[2]:
                shp = a[2][0]
                if shp[0] == "tuple" and -len(shp[1]) <= x[2][1] < len(shp[1]) and not any(e[0] == "star" for e in shp[1]):
                    return shp[1][x[2][1]]      # extent k of an array allocated with an explicit shape tuple
                if shp[0] != "tuple" and x[2][1] == 0 and shp[0] in ("sym", "attr", "bin", "const", "call"):
                    return shp
        return None
    return subst(t, fn)


def split_acc(t: Term):
    """accumulator update  mu + X  (either operand order) -> (mu, X) or None"""
    if t[0] == "bin" and t[1] == "+":
        if t[2][0] == "mu":
            return t[2], t[3]
        if t[3][0] == "mu":
            return t[3], t[2]
    return None


def walk(t: Any):
    """Yield every sub-term (pre-order)."""
    if isinstance(t, tuple):
        if t and isinstance(t[0], str):
            yield t
        for x in t[1:] if (t and isinstance(t[0], str)) else t:
            yield from walk(x)


def subst(t: Any, fn: Callable[[Term], Optional[Term]]) -> Any:
    """Bottom-up rewrite; fn returns a replacement or None."""
    if not isinstance(t, tuple):
        return t
    if t and isinstance(t[0], str):
        if t[0] == "const":
            r = fn(t)
            return t if r is None else r
        new = (t[0],) + tuple(subst(x, fn) for x in t[1:])
        r = fn(new)
        return new if r is None else r
    return tuple(subst(x, fn) for x in t)


def contains(t: Term, pred: Callable[[Term], bool]) -> bool:
    return any(pred(x) for x in walk(t))


def calls_in(t: Term, fname: Optional[str] = None) -> List[Term]:
    return [x for x in walk(t) if x[0] == "call" and (fname is None or x[1] == fname)]


def strip_alloc(t: Term) -> Term:
    """Remove allocation tags added by Interp(track_alloc=True)."""
    def fn(x):
        if x[0] == "call" and any(k == "@" for k, _ in x[3]):
            return ("call", x[1], x[2], tuple((k, v) for k, v in x[3] if k != "@"))
        return None
    return subst(t, fn)


def kw(call: Term, name: str, pos: Optional[int] = None) -> Optional[Term]:
    """Keyword (or positional fallback) argument of a call term."""
    for k, v in call[3]:
        if k == name:
            return v
    if pos is not None and pos < len(call[2]):
        return call[2][pos]
    return None


def show(t: Any, depth: int = 0) -> str:
    """Python-like rendering of a term for reports."""
    if not isinstance(t, tuple) or not t:
        return repr(t)
    k = t[0]
    if depth > 40:
        return "..."
    d = depth + 1
    if k == "const":
        return repr(t[1])
    if k in ("sym", "undef"):
        return str(t[1])
    if k in ("mod", "global", "builtin"):
        return str(t[1]).replace("numpy.", "np.")
    if k == "attr":
        return f"{show(t[1], d)}.{t[2]}"
    if k == "sub":
        return f"{show(t[1], d)}[{show(t[2], d)}]"
    if k == "slice":
        parts = ["" if x == NONE else show(x, d) for x in t[1:]]
        s = f"{parts[0]}:{parts[1]}"
        return s if parts[2] == "" else s + ":" + parts[2]
    if k == "call":
        f = t[1]
        args = [show(a, d) for a in t[2]]
        kws = [f"{n}={show(v, d)}" for n, v in t[3] if n != "@"]
        if isinstance(f, str) and f.startswith("."):
            return f"{args[0]}{f}({', '.join(args[1:] + kws)})"
        fn = f.replace("numpy.", "np.").replace("builtins.", "") if isinstance(f, str) else f"({show(f[1], d)})"
        return f"{fn}({', '.join(args + kws)})"
    if k == "bin":
        return f"({show(t[2], d)} {t[1]} {show(t[3], d)})"
    if k == "un":
        return f"({t[1]} {show(t[2], d)})" if t[1] == "not" else f"({t[1]}{show(t[2], d)})"
    if k == "cmp":
        return f"({show(t[2], d)} {t[1]} {show(t[3], d)})"
    if k == "bool":
        return "(" + f" {t[1]} ".join(show(x, d) for x in t[2]) + ")"
    if k in ("tuple", "list", "set"):
        o, c = {"tuple": "()", "list": "[]", "set": "{}"}[k]
        return o + ", ".join(show(x, d) for x in t[1]) + c
    if k == "dict":
        return "{" + ", ".join(f"{show(a, d)}: {show(b, d)}" for a, b in t[1]) + "}"
    if k == "phi":
        return f"phi({show(t[1], d)} ? {show(t[2], d)} : {show(t[3], d)})"
    if k == "mu":
        return f"mu#{t[1]}({t[2]})"
    if k == "loopvar":
        return f"{t[2]}#{t[1]}"
    if k == "cvar":
        return f"{t[2]}~{t[1]}"
    if k == "elem":
        return f"{show(t[1], d)}<{t[2]}>"
    if k == "fstr":
        return "f'" + "".join(x[1] if x[0] == "const" else "{" + show(x[1] if x[0] == "fmt" else x, d) + "}" for x in t[1]) + "'"
    if k == "comp":
        gens = "; ".join(f"for {show(g[0], d)} in {show(g[1], d)}" + "".join(f" if {show(c, d)}" for c in g[2]) for g in t[3])
        return f"<{t[1]}comp {show(t[2], d)} {gens}>"
    if k == "star":
        return "*" + show(t[1], d)
    if k == "fmt":
        return show(t[1], d)
    if k == "unknown":
        return f"<{t[1]}>"
    if k == "appended":
        return f"{show(t[1], d)}++[{show(t[2], d)}]"
    return "(" + " ".join(show(x, d) if isinstance(x, tuple) else str(x) for x in t) + ")"


def inline_calls(pkg: Package, t: Term, depth: int = 2) -> Term:
    """Replace calls of loop-free, single-return package functions by their return term with the arguments substituted
    (used to look through small vectorised helpers).  Calls that do not qualify are left in place."""
    if depth <= 0:
        return t

    def fn(x):
        if x[0] == "call" and isinstance(x[1], str) and x[1] in pkg.functions:
            fi = pkg.functions[x[1]]
            try:
                ci = interp(pkg, fi.qual)
            except Exception:  # noqa
                return None
            if ci.loops or len(ci.returns) != 1 or any(e.kind == "store" for e in ci.events):
                return None
            params = fi.params
            bind = {}
            if fi.cls is not None and params and ci.selfname == params[0]:
                bind[("sym", params[0])] = ("sym", "self")      # method called on the caller's own instance
                params = params[1:]
            for k, a in enumerate(x[2]):
                if k < len(params):
                    bind[("sym", params[k])] = a
            for k, v in x[3]:
                if k in params:
                    bind[("sym", k)] = v
            if any(("sym", p) not in bind for p in params if p not in fi.defaults()):
                return None
            body = subst(ci.returns[0].data["value"], lambda y: bind.get(y))
            return inline_calls(pkg, body, depth - 1)
        return None
    return subst(t, fn)


_INTERP_CACHE: Dict[Tuple, Interp] = {}


def interp(pkg: Package, qual: str, bind: Optional[Dict[str, Term]] = None,
           assume: Optional[Callable[[Term], Optional[bool]]] = None, unroll: bool = True,
           self_attrs: Optional[Dict[str, Term]] = None) -> Interp:
    fi = pkg.func(qual)
    if assume is None and self_attrs is None:
        key = (id(pkg), fi.qual, tuple(sorted((bind or {}).items())), unroll)
        if key not in _INTERP_CACHE:
            _INTERP_CACHE[key] = Interp(pkg, fi, bind=bind, unroll=unroll)
        return _INTERP_CACHE[key]
    return Interp(pkg, fi, bind=bind, assume=assume, unroll=unroll, self_attrs=self_attrs)


def init_attrs(pkg: Package, clsqual: str, bind: Optional[Dict[str, Term]] = None) -> Dict[str, Term]:
    """Terms stored into self.<attr> by the class's __init__ (params as symbols)."""
    ci = pkg.cls(clsqual)
    if "__init__" not in ci.methods:
        return {}
    it = interp(pkg, ci.methods["__init__"].qual, bind=bind)
    return dict(it.self_attrs)


def expand_self(t: Term, attrs: Dict[str, Term], selfname: str = "self") -> Term:
    """Replace self.<attr> reads by the term __init__ stored (one level, then fixed point)."""
    def fn(x: Term) -> Optional[Term]:
        if x[0] == "attr" and x[1] == ("sym", selfname) and x[2] in attrs:
            return attrs[x[2]]
        return None
    prev = None
    cur = t
    for _ in range(6):
        if cur == prev:
            break
        prev = cur
        cur = subst(cur, fn)
    return cur
