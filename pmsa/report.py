"""Run context: obligations, verdicts, evidence, known findings, replay records."""
from __future__ import annotations

import json
import os
import sys
import time
from typing import Any, Dict, List, Optional
import builtins as _builtins


def print(*a, **k):       # noqa: A001 - a closed pipe on stdout must not change the exit status
    try:
        _builtins.print(*a, **k)
    except BrokenPipeError:
        try:
            sys.stdout = open(os.devnull, "w")
        except Exception:  # noqa
            pass

VERIF = os.path.dirname(os.path.dirname(os.path.abspath(__file__)))
EVIDENCE_DIR = os.environ.get("VERIF_EVIDENCE_DIR") or os.path.join(VERIF, "evidence")
REPLAY_DIR = os.path.join(EVIDENCE_DIR, "replay")
KNOWN = os.path.join(VERIF, "known_findings.json")

GENERAL_ASSUMPTIONS = [
    "static analysis of /repo/PyMatterSim sources with Python's ast; no repository code is imported or executed",
    "floating-point rounding is ignored: formulas are compared in exact arithmetic",
    "numpy / scipy / pandas / freud functions behave as documented (their bodies are not analysed)",
]


def load_known() -> Dict[str, Any]:
    if not os.path.exists(KNOWN):
        return {"findings": [], "fixed": []}
    with open(KNOWN, "r", encoding="utf-8") as f:
        return json.load(f)


class Run:
    def __init__(self, pid: str, level: str, tier: str = "quick", seed: int = 0, only_key: Optional[str] = None):
        self.pid = pid
        self.level = level
        self.tier = tier
        self.seed = seed
        self.only_key = only_key
        self.t0 = time.time()
        self.obligations: List[Dict[str, Any]] = []
        self.errors: List[str] = []
        self.rule_counts: Dict[str, int] = {}
        self.rule_minimums: Dict[str, int] = {}
        self.functions: set = set()
        self.assumptions: List[str] = list(GENERAL_ASSUMPTIONS)
        self.explanation = ""
        self.trusted_base: List[str] = []
        self.extra: Dict[str, Any] = {}
        self.notes: List[str] = []

    # ------------------------------------------------------------------
    def ob(self, rule: str, func: str, key: str, ok: Optional[bool], what: str = "", detail: str = "",
           witness: Any = None, loc: str = "", nontrivial: bool = True, sound: bool = False) -> Optional[bool]:
        """Record one obligation. ok: True (holds) / False (violated) / None (undecided).
        A False verdict counts as a VIOLATION only when the caller vouches for it (sound=True): the mismatch was established
        by a decision procedure that yields a positive witness (exact algebra over common constructs, a definite index / axis /
        constant / comparator difference, a finite enumeration, the effect analysis).  A False that merely says "the construct
        does not match the expected shape" is recorded as undecided - a shape the rule does not know is not a violation."""
        if ok is False and not sound:
            ok = None
            detail = ("unconfirmed mismatch with the expected form (not a positive witness): " + (detail or "")).strip()
        self.rule_counts[rule] = self.rule_counts.get(rule, 0) + 1
        if func:
            self.functions.add(func)
        self.obligations.append({
            "rule": rule, "function": func, "key": key, "what": what, "verdict": "holds" if ok else ("VIOLATED" if ok is False else "undecided"),
            "detail": detail, "witness": witness, "loc": loc, "nontrivial": nontrivial,
        })
        return ok

    def error(self, msg: str) -> None:
        self.errors.append(msg)

    def note(self, msg: str) -> None:
        self.notes.append(msg)

    def minimum(self, rule: str, n: int) -> None:
        self.rule_minimums[rule] = n

    # ------------------------------------------------------------------
    def finish(self) -> int:
        known = load_known()
        kf = [k for k in known.get("findings", []) if k.get("property") == self.pid]
        violations = [o for o in self.obligations if o["verdict"] == "VIOLATED"]
        undecided = [o for o in self.obligations if o["verdict"] == "undecided"]
        for rule, mn in self.rule_minimums.items():
            got = self.rule_counts.get(rule, 0)
            # vacuity guard: a rule that matches (almost) nothing passes vacuously.  A change under review may legitimately
            # remove a few instances (one call site inlined, one branch merged), so the guard trips below 3/4 of the
            # hand-confirmed count, not at the first missing instance.
            floor = max(1, (3 * mn) // 4)
            if got < floor:
                self.errors.append(f"rule {rule}: {got} instances analysed, fewer than 3/4 of the confirmed count {mn} (vacuity guard)")
        if self.only_key is not None:
            violations = [o for o in violations if o["key"] == self.only_key]
        new_v, known_v = [], []
        for o in violations:
            hit = None
            for k in kf:
                if k.get("rule") == o["rule"] and k.get("function") == o["function"] and k.get("key") == o["key"]:
                    hit = k
                    break
            (known_v if hit else new_v).append((o, hit))

        os.makedirs(REPLAY_DIR, exist_ok=True)
        lines: List[str] = []
        for o, hit in known_v:
            lines.append(f"KNOWN-FINDING: property={self.pid} {o['rule']} {o['function']} [{o['key']}] {hit.get('what', '')}")
        replay_paths = []
        for n, (o, _) in enumerate(new_v):
            path = os.path.join(REPLAY_DIR, f"{self.pid}-{n}.json")
            with open(path, "w", encoding="utf-8") as f:
                json.dump({"property": self.pid, **o}, f, indent=1, default=str)
            replay_paths.append(path)
            lines.append(f"  {o['loc']} rule={o['rule']} function={o['function']} key=[{o['key']}]")
            lines.append(f"    {o['what']}")
            if o["detail"]:
                lines.append(f"    {o['detail']}")
            if o["witness"] is not None:
                lines.append(f"    witness: {o['witness']}")
            lines.append(f"VIOLATION property={self.pid} replay={path}")

        status = 0
        if new_v:
            status = 1
        elif self.errors or undecided:
            status = 2

        decided = [o for o in self.obligations if o["verdict"] != "undecided"]
        distinct_nontrivial = len({(o["rule"], o["function"], o["key"]) for o in decided if o["nontrivial"]})
        held = [o for o in self.obligations if o["verdict"] == "holds"]
        samples = []
        seen_rules = set()
        for o in self.obligations:
            if o["rule"] not in seen_rules or len(samples) < 6:
                seen_rules.add(o["rule"])
                samples.append({k: o[k] for k in ("rule", "function", "key", "what", "verdict", "detail", "loc") if o[k]})
            if len(samples) >= 40:
                break
        cov: Dict[str, Any] = {
            "explanation": self.explanation,
            "evaluations": len(self.obligations),
            "distinct_nontrivial": distinct_nontrivial,
            "rule": "one case = one obligation (rule, function, construct) read from /repo's syntax tree and decided; "
                    "distinct = distinct (rule, function, key); non-trivial = the obligation's term involves at least one "
                    "non-literal construct of the analysed function",
            "samples": samples or [{"note": "no obligations"}],
            "obligations": len(self.obligations),
            "discharged": len(held) + len(known_v),
            "checker_cmd": f"/verif/check {self.pid} --tier {self.tier}",
            "trusted_base": self.trusted_base or ["Python ast module", "sympy polynomial arithmetic", "rule tables in /verif/pmsa/checks"],
            "functions_analysed": sorted(self.functions),
            "rule_instances": {r: {"analysed": c, "confirmed_minimum": self.rule_minimums.get(r)} for r, c in sorted(self.rule_counts.items())},
            "undecided": [f"{o['rule']} {o['function']} [{o['key']}] {o['detail']}" for o in undecided][:50],
            "analysis_errors": self.errors[:50],
            "known_findings": [f"{o['rule']} {o['function']} [{o['key']}]" for o, _ in known_v],
            "notes": self.notes[:60],
            "exhaustive": False,
        }
        cov.update(self.extra)
        ev = {
            "property_id": self.pid,
            "tier": self.tier if self.tier in ("quick", "thorough") else "quick",
            "seed": int(self.seed),
            "level": self.level,
            "coverage": cov,
            "assumptions": self.assumptions,
            "wall_s": round(time.time() - self.t0, 3),
            "violations": len(new_v),
        }
        os.makedirs(EVIDENCE_DIR, exist_ok=True)
        with open(os.path.join(EVIDENCE_DIR, f"{self.pid}.json"), "w", encoding="utf-8") as f:
            json.dump(ev, f, indent=1, default=str)

        print(f"[{self.pid}] tier={self.tier} obligations={len(self.obligations)} held={len(held)} "
              f"violated={len(violations)} (known {len(known_v)}) undecided={len(undecided)} "
              f"functions={len(self.functions)} wall={ev['wall_s']}s")
        for r, c in sorted(self.rule_counts.items()):
            mn = self.rule_minimums.get(r)
            print(f"    {r}: {c} instances" + (f" (minimum {mn})" if mn is not None else ""))
        for ln in lines:
            print(ln)
        for o in undecided[:20]:
            print(f"ANALYSIS-ERROR undecided: {o['loc']} {o['rule']} {o['function']} [{o['key']}] {o['detail']}")
        for e in self.errors[:20]:
            print(f"ANALYSIS-ERROR {e}")
        sys.stdout.flush()
        return status
