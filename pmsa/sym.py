"""E2 (second half) - algebraic normaliser: value-graph terms -> exact sympy arithmetic.

Arithmetic is interpreted (+ - * / ** sqrt square power exp sin cos log abs min max pi, complex
literals); everything else becomes an *atom* (a sympy Symbol named by the canonical rendering of
the term) or an uninterpreted Function of normalised arguments.  Arrays are treated point-wise.
Deciding a == b:
  1. cancel(together(a-b)) == 0 (rational functions: canonical);
  2. simplify / powsimp / expand_power_base with positive symbols (symbolic exponents);
  3. otherwise evaluate both at exact rational points: a differing point is a *witness*; agreement
     everywhere without a symbolic proof is *undecided* (None).
Trusted base: the translation table below and sympy's polynomial arithmetic.  Floating-point
rounding is ignored (stated in every evidence file).
"""
from __future__ import annotations

import fractions
from typing import Any, Callable, Dict, List, Optional, Tuple

import sympy as sp

from .vg import Term, show, is_const

_ATOMS: Dict[Tuple[str, bool], sp.Symbol] = {}
OPAQUE_MARK = "\u27e6"        # symbols created for constructs without a declared role start with this mark


def atom(name: str, positive: bool = False) -> sp.Symbol:
    key = (name, positive)
    if key not in _ATOMS:
        _ATOMS[key] = sp.Symbol(name, positive=True) if positive else sp.Symbol(name)
    return _ATOMS[key]


class PyInt(sp.Function):
    """Python's int(): truncation toward zero; evaluates on numbers, stays symbolic otherwise."""
    @classmethod
    def eval(cls, x):
        if x.is_Integer:
            return x
        if x.is_Rational or x.is_Float:
            return sp.Integer(int(x))
        return None


class PyRound(sp.Function):
    """Python's round() to nearest, ties to even."""
    @classmethod
    def eval(cls, x):
        if x.is_Integer:
            return x
        if x.is_Rational:
            import fractions
            return sp.Integer(round(fractions.Fraction(int(x.p), int(x.q))))
        if x.is_Float:
            return sp.Integer(round(float(x)))
        return None


_TERM_OF: Dict[str, Any] = {}      # opaque symbol name -> value-graph term


def num(v: Any) -> sp.Expr:
    if isinstance(v, bool):
        return sp.Integer(int(v))
    if isinstance(v, int):
        return sp.Integer(v)
    if isinstance(v, float):
        fr = fractions.Fraction(repr(v))
        return sp.Rational(fr.numerator, fr.denominator)
    if isinstance(v, complex):
        return num(v.real) + sp.I * num(v.imag)
    raise ValueError(v)


UNARY_FUNCS = {
    "numpy.sqrt": sp.sqrt, "math.sqrt": sp.sqrt, "cmath.sqrt": sp.sqrt,
    "numpy.exp": sp.exp, "math.exp": sp.exp, "cmath.exp": sp.exp,
    "numpy.sin": sp.sin, "math.sin": sp.sin, "numpy.cos": sp.cos, "math.cos": sp.cos,
    "numpy.log": sp.log, "math.log": sp.log,
    "numpy.abs": sp.Abs, "numpy.absolute": sp.Abs, "builtins.abs": sp.Abs, "numpy.fabs": sp.Abs,
    "numpy.square": lambda x: x ** 2,
    "numpy.conj": sp.conjugate, "numpy.conjugate": sp.conjugate,
    "numpy.real": sp.re, "numpy.imag": sp.im,
    "builtins.float": lambda x: x, "numpy.float64": lambda x: x,
    "numpy.log10": lambda x: sp.log(x, 10),
}
CONSTS = {"numpy.pi": sp.pi, "math.pi": sp.pi, "numpy.e": sp.E, "math.e": sp.E, "cmath.pi": sp.pi}


class Translator:
    """Term -> sympy.  `atom_of(term)` may map a term to a sympy expression first (roles)."""

    def __init__(self, atom_of: Optional[Callable[[Term], Optional[sp.Expr]]] = None, positive: bool = False,
                 pointwise_methods: bool = True):
        self.atom_of = atom_of
        self.positive = positive
        self.atoms: Dict[str, Term] = {}
        self.pointwise_methods = pointwise_methods
        self.ufuncs = True

    def mk_atom(self, t: Term) -> sp.Expr:
        name = OPAQUE_MARK + show(t)
        self.atoms[name] = t
        _TERM_OF[name] = t
        return atom(name, self.positive)

    def ufunc(self, name: str, *args: sp.Expr) -> sp.Expr:
        return sp.Function(name)(*args)

    def tr(self, t: Term) -> sp.Expr:
        if self.atom_of is not None:
            r = self.atom_of(t)
            if r is not None:
                return r
        k = t[0]
        if k == "const":
            v = t[1]
            if isinstance(v, (int, float, complex)):
                return num(v)
            return self.mk_atom(t)
        if k == "mod" and t[1] in CONSTS:
            return CONSTS[t[1]]
        if k == "bin":
            op = t[1]
            if op in ("+", "-", "*", "/", "**"):
                a, b = self.tr(t[2]), self.tr(t[3])
                if op == "+":
                    return a + b
                if op == "-":
                    return a - b
                if op == "*":
                    return a * b
                if op == "/":
                    return a / b
                return a ** b
            return self.mk_atom(t)
        if k == "un":
            if t[1] == "-":
                return -self.tr(t[2])
            if t[1] == "+":
                return self.tr(t[2])
            return self.mk_atom(t)
        if k == "call":
            if t[3] and any(kk == "@" for kk, _ in t[3]):
                t = ("call", t[1], t[2], tuple((kk, v) for kk, v in t[3] if kk != "@"))
            f = t[1]
            if isinstance(f, str):
                if f in UNARY_FUNCS and len(t[2]) == 1 and not t[3]:
                    return UNARY_FUNCS[f](self.tr(t[2][0]))
                if f in ("numpy.power", "math.pow", "builtins.pow") and len(t[2]) == 2 and not t[3]:
                    return self.tr(t[2][0]) ** self.tr(t[2][1])
                if f in ("builtins.min", "builtins.max", "numpy.minimum", "numpy.maximum"):
                    args = t[2]
                    if len(args) == 1 and args[0][0] in ("tuple", "list"):
                        args = args[0][1]
                    fn = sp.Min if f.endswith(("min", "minimum")) else sp.Max
                    return fn(*[self.tr(a) for a in args])
                if f == ".conj" or f == ".conjugate":
                    return sp.conjugate(self.tr(t[2][0]))
                if f == ".copy" and len(t[2]) == 1:
                    return self.tr(t[2][0])
                if f in ("builtins.int",) and len(t[2]) == 1 and not t[3]:
                    return PyInt(self.tr(t[2][0]))
                if f == "builtins.len" and len(t[2]) == 1 and t[2][0][0] == "call" and t[2][0][1] == "numpy.arange" and 1 <= len(t[2][0][2]) <= 3 and not t[2][0][3]:
                    # number of points of arange(a, b, s): ceil((b - a) / s)
                    ar = [self.tr(x) for x in t[2][0][2]]
                    a0, b0, s0 = (sp.Integer(0), ar[0], sp.Integer(1)) if len(ar) == 1 else ((ar[0], ar[1], sp.Integer(1)) if len(ar) == 2 else ar)
                    return sp.ceiling((b0 - a0) / s0)
                if f in ("builtins.round",) and len(t[2]) == 1 and not t[3]:
                    return PyRound(self.tr(t[2][0]))
                if f in ("math.floor", "numpy.floor") and len(t[2]) == 1 and not t[3]:
                    return sp.floor(self.tr(t[2][0]))
                if f in ("math.ceil", "numpy.ceil") and len(t[2]) == 1 and not t[3]:
                    return sp.ceiling(self.tr(t[2][0]))
                if f in ("numpy.less", "numpy.greater", "numpy.less_equal", "numpy.greater_equal") and len(t[2]) == 2 and not t[3]:
                    a, b = self.tr(t[2][0]), self.tr(t[2][1])
                    if "greater" in f:
                        a, b = b, a
                    return sp.Function("cmp_le" if f.endswith("equal") else "cmp_lt")(a, b)
                if f == "numpy.einsum" and len(t[2]) == 3 and is_const(t[2][0]) and not t[3]:
                    spec = str(t[2][0][1]).replace(" ", "")
                    if spec in ("ij,ij->i", "ik,ik->i"):
                        return sp.Function(".sum|axis")(self.tr(t[2][1]) * self.tr(t[2][2]), sp.Integer(1))
                    if spec in ("ij,ij->", "i,i->", "ijk,ijk->"):
                        return sp.Function(".sum")(self.tr(t[2][1]) * self.tr(t[2][2]))
                if f in ("numpy.sum", "numpy.mean", "numpy.prod", "numpy.max", "numpy.min") and t[2]:
                    # function form of the reduction methods
                    return self.tr(("call", "." + f.split(".")[1], t[2], t[3]))
                if f == "numpy.where" and len(t[2]) == 3 and not t[3]:
                    c = self.rel(t[2][0])
                    if c is not None:
                        return sp.Piecewise((self.tr(t[2][1]), c), (self.tr(t[2][2]), True))
                if f == "numpy.multiply" and len(t[2]) == 2:
                    return self.tr(t[2][0]) * self.tr(t[2][1])
                if f == "numpy.divide" and len(t[2]) == 2:
                    return self.tr(t[2][0]) / self.tr(t[2][1])
            if isinstance(f, str) and self.ufuncs:
                try:
                    args = [self.tr(a) for a in t[2]] + [self.tr(v) for _, v in t[3]]
                    name = f + ("|" + ",".join(n for n, _ in t[3]) if t[3] else "")
                    return sp.Function(name)(*args)
                except Exception:
                    pass
            return self.mk_atom(t)
        if k == "cmp" and t[1] in ("<", "<=", ">", ">=", "==", "!="):
            a, b = self.tr(t[2]), self.tr(t[3])
            if t[1] in (">", ">="):
                a, b = b, a
            if t[1] in ("==", "!="):
                a, b = sorted((a, b), key=sp.default_sort_key)
            name = {"<": "cmp_lt", ">": "cmp_lt", "<=": "cmp_le", ">=": "cmp_le", "==": "cmp_eq", "!=": "cmp_ne"}[t[1]]
            return sp.Function(name)(a, b)
        if k == "sub" and t[2][0] == "tuple" and t[2][1] and all(x == ("mod", "numpy.newaxis") or x == ("slice", ("const", None), ("const", None), ("const", None)) for x in t[2][1]) \
                and any(x == ("mod", "numpy.newaxis") for x in t[2][1]):
            return self.tr(t[1])        # pure broadcast reshaping: point-wise the same values
        if k == "attr" and t[2] == "real":
            return sp.re(self.tr(t[1]))
        if k == "attr" and t[2] == "imag":
            return sp.im(self.tr(t[1]))
        return self.mk_atom(t)


def _rel(self, c: Term):
    """boolean term -> sympy relational (None when not expressible)."""
    if c[0] == "cmp" and c[1] in ("<", "<=", ">", ">="):
        a, b = self.tr(c[2]), self.tr(c[3])
        return {"<": sp.Lt, "<=": sp.Le, ">": sp.Gt, ">=": sp.Ge}[c[1]](a, b)
    if c[0] == "bin" and c[1] in ("&", "|"):
        a, b = self.rel(c[2]), self.rel(c[3])
        if a is None or b is None:
            return None
        return sp.And(a, b) if c[1] == "&" else sp.Or(a, b)
    if c[0] == "un" and c[1] in ("~", "not"):
        a = self.rel(c[2])
        return None if a is None else sp.Not(a)
    return None


Translator.rel = _rel


def to_sympy(t: Term, atom_of: Optional[Callable[[Term], Optional[sp.Expr]]] = None, positive: bool = False) -> sp.Expr:
    return Translator(atom_of, positive).tr(t)


# ---------------------------------------------------------------------- deciding equality
_POINTS = [
    [sp.Rational(3, 7), sp.Rational(5, 11), sp.Rational(13, 9), sp.Rational(2, 3), sp.Rational(7, 5), sp.Rational(11, 13),
     sp.Rational(17, 19), sp.Rational(23, 29), sp.Rational(31, 37), sp.Rational(41, 43), sp.Rational(47, 53), sp.Rational(59, 61)],
    [sp.Rational(9, 4), sp.Rational(1, 5), sp.Rational(8, 3), sp.Rational(5, 2), sp.Rational(3, 8), sp.Rational(6, 7),
     sp.Rational(10, 9), sp.Rational(13, 6), sp.Rational(4, 9), sp.Rational(15, 8), sp.Rational(7, 12), sp.Rational(19, 10)],
    [sp.Rational(1, 3), sp.Rational(7, 2), sp.Rational(2, 9), sp.Rational(11, 4), sp.Rational(9, 5), sp.Rational(1, 7),
     sp.Rational(14, 3), sp.Rational(5, 6), sp.Rational(8, 7), sp.Rational(3, 11), sp.Rational(16, 5), sp.Rational(2, 13)],
]


def decide_equal(a: sp.Expr, b: sp.Expr, trig: bool = False) -> Tuple[Optional[bool], str]:
    """(True, how) | (False, witness) | (None, reason)."""
    d = a - b
    if d == 0:
        return True, "syntactic"
    try:
        c = sp.cancel(sp.together(d))
        if c == 0:
            return True, "cancel(together)"
    except Exception:
        c = d
    try:
        e = sp.expand(c)
        if e == 0:
            return True, "expand"
    except Exception:
        e = c
    try:
        s = sp.simplify(sp.powsimp(sp.expand_power_base(e, force=True), force=True))
        if s == 0:
            return True, "simplify"
        if trig:
            s2 = sp.simplify(sp.expand_trig(s))
            if s2 == 0:
                return True, "trigsimp"
    except Exception:
        s = e
    # A witness treats every uninterpreted construct as a free quantity.  That is only meaningful when both sides are built
    # from the SAME uninterpreted constructs: two different opaque spellings may denote the same value.
    oa, ob = opaque_parts(a), opaque_parts(b)
    swapped_note = ""
    if oa != ob:
        only_a, only_b = sorted(oa - ob, key=str), sorted(ob - oa, key=str)
        pairs = align_opaque(only_a, only_b)
        if pairs is None:
            # rounding to a fixed number of decimals wrapped around a real quantity: if the sides agree without the rounding,
            # they differ with it for every value that has more decimals than kept
            rounders = [x for x in only_a if isinstance(x, sp.core.function.AppliedUndef) and x.func.__name__ in ("numpy.round", "numpy.around", "builtins.round", "numpy.round_")
                        and len(x.args) == 2 and x.args[1].is_Integer and x.args[1] >= 0 and not x.args[0].is_integer]
            if rounders and not only_b and len(rounders) == len(only_a):
                a2 = a
                for x in rounders:
                    a2 = a2.subs(x, x.args[0])
                ok2, _how = decide_equal(a2, b, trig)
                if ok2 is True:
                    k = int(rounders[0].args[1])
                    return False, (f"{str(rounders[0])[:80]} keeps {k} decimals of a real quantity: equal to the definition only for values with at most {k} decimals "
                                   f"(e.g. the value {sp.Rational(25, 10 ** (k + 1))} becomes {round(float(sp.Rational(25, 10 ** (k + 1))), k)})")
            return None, (f"sides involve different uninterpreted constructs (code only: {[str(x)[:70] for x in only_a[:2]]}; "
                          f"reference only: {[str(x)[:70] for x in only_b[:2]]})")
        # every construct that occurs on one side only is the same accessor / reduction as one on the other side applied at a
        # definitely different index, axis or constant: they denote different quantities, so the sides differ as functions
        swapped_note = "; ".join(f"code uses {str(x).replace(OPAQUE_MARK, '')[:90]} where the definition has {str(y).replace(OPAQUE_MARK, '')[:90]} ({why})" for x, y, why in pairs[:2])
        if sp.simplify(d) != 0:
            return False, swapped_note
    # witness search at exact rational points
    syms = sorted(d.free_symbols, key=lambda x: x.name)
    funcs = sorted(d.atoms(sp.Function) - d.atoms(sp.sin, sp.cos, sp.exp, sp.log, sp.Abs, sp.conjugate, sp.re, sp.im, sp.Min, sp.Max),
                   key=lambda f_: (-len(str(f_)), str(f_)))     # outermost applications first: replacing one removes its inner applications
    trials = [(pts, 1) for pts in _POINTS] + [(_POINTS[0], -1), (_POINTS[1], -1)]
    for pts, sgn in trials:
        sub = {s_: (pts[i % len(pts)] + (i // len(pts))) * (1 if (sgn == 1 or s_.is_positive) else (-1 if i % 2 == 0 else 1))
               for i, s_ in enumerate(syms)}
        try:
            val = d.subs(sub)
            for i, fn in enumerate(funcs):
                tgt = fn.subs(sub)
                if tgt.is_number:
                    continue          # an interpreted function that evaluated by itself: replacing its VALUE would rewrite unrelated numbers
                val = val.subs(tgt, pts[(i + 5) % len(pts)])
            val = sp.simplify(val)
            if val.free_symbols or val.atoms(sp.Function) - val.atoms(sp.sin, sp.cos, sp.exp, sp.log, sp.Abs, sp.conjugate, sp.re, sp.im):
                continue
            if val != 0:
                nv = sp.N(val, 30)
                if abs(nv) > sp.Float("1e-20"):
                    return False, "differs at " + ", ".join(f"{k}={v}" for k, v in list(sub.items())[:8]) + f": lhs-rhs={sp.nsimplify(val) if val.is_number else val}"
        except Exception:
            continue
    # expressions with integer parts (int / floor / ceil / round) agree at generic points and can differ exactly where the
    # argument of an integer part is a whole number: solve for such a point
    ints = [x for x in d.atoms(sp.Function) if isinstance(x, (PyInt, PyRound, sp.floor, sp.ceiling)) and x.args and x.args[0].free_symbols]
    for x in sorted(ints, key=str)[:4]:
        g = x.args[0]
        for s_ in sorted(g.free_symbols, key=lambda y: y.name):
            others = [y for y in syms if y != s_]
            for pts in _POINTS[:2]:
                sub = {y: pts[i % len(pts)] for i, y in enumerate(others)}
                for k in (2, 3):
                    try:
                        sol = sp.solve(sp.Eq(g.subs(sub), k), s_)
                    except Exception:
                        sol = []
                    for v in sol[:1]:
                        if not (v.is_number and v.is_real and (v > 0 or not s_.is_positive)):
                            continue
                        try:
                            val = sp.simplify(d.subs(sub).subs(s_, v))
                        except Exception:
                            continue
                        if val.is_number and not val.free_symbols and not val.atoms(sp.core.function.AppliedUndef) and val != 0:
                            full = dict(sub); full[s_] = v
                            return False, "differs at " + ", ".join(f"{a_}={b_}" for a_, b_ in list(full.items())[:8]) + f" (where {str(g)[:50]} is the whole number {k}): lhs-rhs={val}"
    return None, f"no normal form reached and no separating rational point; residue {str(s)[:160]}"


def align_opaque(xs, ys):
    """Pair every construct of xs with one of ys that is definitely a different quantity of the same kind."""
    if len(xs) != len(ys) or not xs:
        return None
    ys = list(ys)
    out = []
    for x in xs:
        hit = None
        for y in ys:
            why = definitely_different(x, y)
            if why:
                hit = (y, why)
                break
        if hit is None:
            return None
        ys.remove(hit[0])
        out.append((x, hit[0], hit[1]))
    return out


def definitely_different(x, y):
    """x, y opaque sympy constructs.  Returns a reason when they are the same accessor / reduction applied at a different
    numeric constant, axis or index expression (not identically equal), else None."""
    if isinstance(x, sp.Symbol) and isinstance(y, sp.Symbol):
        tx, ty = _TERM_OF.get(x.name), _TERM_OF.get(y.name)
        if tx is None or ty is None:
            return None
        return term_definite_difference(tx, ty)
    if isinstance(x, sp.core.function.AppliedUndef) and isinstance(y, sp.core.function.AppliedUndef):
        if x.func != y.func or len(x.args) != len(y.args):
            return None
        if x.func.__name__ in ("cmp_lt", "cmp_le") and x.args == y.args[::-1]:
            return "comparison direction reversed"
        reason = None
        for p, q in zip(x.args, y.args):
            if p == q:
                continue
            if p.is_number and q.is_number:
                reason = f"constant {p} vs {q}"
                continue
            sub = None
            if opaque_parts(p) == opaque_parts(q):
                try:
                    if sp.simplify(p - q) != 0:
                        sub = f"argument {sp.sstr(p)[:60]} vs {sp.sstr(q)[:60]}".replace(OPAQUE_MARK, "")
                except Exception:  # noqa
                    sub = None
            elif opaque_parts(p) or opaque_parts(q):
                pp, qq = sorted(opaque_parts(p) - opaque_parts(q), key=str), sorted(opaque_parts(q) - opaque_parts(p), key=str)
                al = align_opaque(pp, qq) if (pp or qq) else None
                if al:
                    sub = al[0][2]
            if sub is None:
                return None
            reason = sub
        return reason
    return None


_REDUCTION_FAMILY = {"numpy.sum": "sum", ".sum": "sum", "numpy.mean": "mean", ".mean": "mean", "numpy.average": "mean", "numpy.max": "max", ".max": "max",
                     "numpy.min": "min", ".min": "min", "numpy.prod": "product", ".prod": "product", "numpy.median": "median", "numpy.std": "std", ".std": "std",
                     "numpy.var": "var", ".var": "var",
                     # element-wise functions: different functions of the same operand are different quantities
                     "numpy.abs": "abs", "numpy.absolute": "abs", "builtins.abs": "abs", "numpy.angle": "angle", "numpy.real": "real", "numpy.imag": "imag",
                     "numpy.conj": "conj", "numpy.conjugate": "conj", ".conj": "conj", "numpy.sin": "sin", "numpy.cos": "cos", "numpy.tan": "tan", "numpy.exp": "exp",
                     "numpy.log": "log", "numpy.sqrt": "sqrt", "numpy.square": "square", "numpy.arccos": "arccos", "numpy.arcsin": "arcsin", "numpy.floor": "floor",
                     "numpy.ceil": "ceil", "numpy.rint": "rint", "numpy.argmax": "argmax", "numpy.argmin": "argmin", ".argmax": "argmax", ".argmin": "argmin"}


def _walk_terms(t):
    if isinstance(t, tuple):
        if t and isinstance(t[0], str):
            yield t
        for x in (t[1:] if (t and isinstance(t[0], str)) else t):
            yield from _walk_terms(x)


class _NotIndex(Exception):
    pass


def term_definite_difference(a, b, depth=0):
    """Two value-graph terms of identical shape that differ only in index expressions (not identically equal), numeric
    constants, comparison operators or attribute names.  Returns a reason or None."""
    if a == b:
        return None if depth else None
    if not (isinstance(a, tuple) and isinstance(b, tuple)):
        return None
    ka, kb = a[0] if a else None, b[0] if b else None
    if ka == "const" and kb == "const":
        va, vb = a[1], b[1]
        if isinstance(va, (int, float)) and isinstance(vb, (int, float)) and not isinstance(va, bool) and not isinstance(vb, bool) and va != vb:
            return f"constant {va} vs {vb}"
        if (va is None or isinstance(va, (str, bool))) and (vb is None or isinstance(vb, (str, bool))) and va != vb:
            return f"constant {va!r} vs {vb!r}"
        return None
    # the element a loop is currently visiting against a FIXED element of the same container (frame n vs frame 0)
    def _loop_element(x_):
        """(container, True) when x_ is the element variable of `for x in C` / `for k, x in enumerate(C)`"""
        from .vg import LOOP_ITERS
        if x_[0] == "loopvar" and len(x_) > 3:
            it_ = LOOP_ITERS.get(x_[3])
            if it_ is not None and not (it_[0] == "call" and it_[1] in ("builtins.enumerate", "builtins.zip")):
                return it_
        if x_[0] == "elem" and x_[2] == 1 and x_[1][0] == "loopvar" and len(x_[1]) > 3:
            it_ = LOOP_ITERS.get(x_[1][3])
            if it_ is not None and it_[0] == "call" and it_[1] == "builtins.enumerate" and it_[2]:
                return it_[2][0]
        return None
    def _noself(t_):
        """instance attributes named after the constructor argument they hold: self.snapshots ~ snapshots"""
        if isinstance(t_, tuple) and t_ and t_[0] == "attr" and t_[1] == ("sym", "self"):
            return ("sym", t_[2])
        if isinstance(t_, tuple) and t_ and t_[0] == "attr":
            return ("attr", _noself(t_[1]), t_[2])
        return t_
    for p_, q_ in ((a, b), (b, a)):
        c_ = _loop_element(p_)
        if c_ is not None and q_[0] == "sub" and _noself(q_[1]) == _noself(c_) and q_[2][0] == "const" and isinstance(q_[2][1], int):
            return f"the element visited by the loop vs the fixed element [{q_[2][1]}] of the same container"
    idx_like = ("const", "loopvar", "bin", "un", "elem", "sub", "sym")
    if ka in idx_like and kb in idx_like and (ka != kb or ka in ("bin", "loopvar", "elem", "sym")) and \
            not (ka == "const" and not isinstance(a[1], (int, float))) and not (kb == "const" and not isinstance(b[1], (int, float))):
        # index arithmetic over loop variables / constants
        # the element of an enumerate() loop may be the same object as a loop-dependent subscript of the iterated container
        # (X[n] inside `for n, x in enumerate(X)`): such a pair of ATOMS is never a definite difference
        def _base_of(t_):
            while isinstance(t_, tuple) and t_ and t_[0] == "attr":
                t_ = t_[1]
            return t_

        def _is_enum_elem(t_):
            t_ = _base_of(t_)
            return isinstance(t_, tuple) and len(t_) == 3 and t_[0] == "elem" and t_[2] == 1

        def _is_moving_sub(t_):
            t_ = _base_of(t_)
            return isinstance(t_, tuple) and t_ and t_[0] == "sub" and any(isinstance(y_, tuple) and y_ and y_[0] in ("loopvar", "elem", "mu") for y_ in _walk_terms(t_[2]))
        try:
            lv = {}
            used = [set(), set()]
            side = [0]

            def at(t):
                if t[0] in ("loopvar", "elem", "sym", "sub", "attr"):
                    used[side[0]].add(t)
                    return lv.setdefault(t, sp.Symbol(f"i{len(lv)}", integer=True))
                return None
            tr = Translator(at)
            tr.ufuncs = False
            side[0] = 0
            ea = tr.tr(a)
            side[0] = 1
            eb = tr.tr(b)
            if tr.atoms:
                # something other than loop variables, parameters, data reads and numbers: not an index expression; two
                # arithmetic nodes with the same operator may still differ in exactly one operand (handled structurally below)
                raise _NotIndex()
            only_a, only_b = used[0] - used[1], used[1] - used[0]
            # a component of a structured loop target (for n, (a, b) in enumerate(zip(..))) against the target itself: the two
            # are not comparable quantities, so nothing definite follows
            def _projection_of(x_, y_):
                return isinstance(x_, tuple) and x_ and x_[0] in ("elem", "sub") and (x_[1] == y_ or _projection_of(x_[1], y_))
            if any(_projection_of(x_, y_) or _projection_of(y_, x_) for x_ in only_a for y_ in only_b):
                return None
            if (any(_is_enum_elem(x_) for x_ in only_a) and any(_is_moving_sub(x_) for x_ in only_b)) or \
                    (any(_is_enum_elem(x_) for x_ in only_b) and any(_is_moving_sub(x_) for x_ in only_a)):
                return None
            if sp.expand(ea - eb) == 0:
                return None         # the same index written differently: not a difference at all
            # data reads (subscripts / attributes) are free quantities only as long as both sides read the SAME ones, or one
            # side reads none at all (a pure expression in loop variables, parameters and numbers cannot track the data);
            # two different reads may well hold the same value
            def _is_data(x_):
                if x_[0] in ("sub", "attr"):
                    return True
                b_ = x_
                while b_[0] == "elem":
                    b_ = b_[1]
                return b_[0] == "loopvar" and len(b_) > 3      # iterates over the elements of a container
            da = {x_ for x_ in used[0] if _is_data(x_)}
            db = {x_ for x_ in used[1] if _is_data(x_)}
            if da != db and da and db:
                oa, ob = sorted(da - db, key=repr), sorted(db - da, key=repr)
                if len(oa) != len(ob) or depth > 6:
                    return None
                rest = list(ob)
                for x_ in oa:
                    hit = next((y_ for y_ in rest if term_definite_difference(x_, y_, depth + 1)), None)
                    if hit is None:
                        return None
                    rest.remove(hit)
            return f"index {sp.sstr(ea)} vs {sp.sstr(eb)}"
        except _NotIndex:
            if not (ka == kb == "bin" and a[1] == b[1] and a[1] in ("+", "-", "*", "/")):
                return None
            # x (op) c vs y (op) c with the SAME other operand: differs exactly when x and y do (c generic, non-zero)
            if a[2] == b[2]:
                return term_definite_difference(a[3], b[3], depth + 1)
            if a[3] == b[3]:
                return term_definite_difference(a[2], b[2], depth + 1)
            return None
        except Exception:  # noqa
            pass
        if ka != kb:
            return None
    if ka != kb or len(a) != len(b):
        return None
    if ka == "cmp":
        if a[1] != b[1]:
            r1 = term_definite_difference(a[2], b[2], depth + 1) if a[2] != b[2] else "same"
            r2 = term_definite_difference(a[3], b[3], depth + 1) if a[3] != b[3] else "same"
            if a[2] == b[2] and a[3] == b[3]:
                return f"comparison {a[1]} vs {b[1]}"
            return None
    if ka == "attr":
        if a[2] != b[2]:
            return f"attribute .{a[2]} vs .{b[2]}" if a[1] == b[1] else None
        return term_definite_difference(a[1], b[1], depth + 1)
    if ka == "call":
        fa_, fb_ = _REDUCTION_FAMILY.get(a[1]), _REDUCTION_FAMILY.get(b[1])
        if fa_ and fb_ and fa_ != fb_ and a[2] == b[2] and a[3] == b[3]:
            return f"{fa_} where {fb_} is required"       # different reductions of the same operand
        if {a[1], b[1]} <= {".keys", ".values", ".items"} and a[1] != b[1] and a[2] == b[2]:
            return f"dictionary {a[1][1:]} where {b[1][1:]} are required"
        if a[1] != b[1] or len(a[2]) != len(b[2]) or [k for k, _ in a[3]] != [k for k, _ in b[3]]:
            return None
        reason = None
        for p, q in list(zip(a[2], b[2])) + [(v, w) for (_, v), (_, w) in zip(a[3], b[3])]:
            if p == q:
                continue
            r = term_definite_difference(p, q, depth + 1)
            if r is None:
                return None
            reason = r
        return reason
    if ka == "slice" and len(a) == 4:
        # a missing lower bound is 0, a missing step is 1
        nz = ("const", None)
        a = ("slice", ("const", 0) if a[1] == nz else a[1], a[2], ("const", 1) if a[3] == nz else a[3])
        b = ("slice", ("const", 0) if b[1] == nz else b[1], b[2], ("const", 1) if b[3] == nz else b[3])
        if a == b:
            return None
    if ka in ("sub", "bin", "un", "tuple", "list", "slice", "elem", "phi", "cmp"):
        reason = None
        for p, q in zip(a[1:], b[1:]):
            if p == q:
                continue
            if isinstance(p, str) or isinstance(q, str):
                return None
            if isinstance(p, tuple) and p and not isinstance(p[0], str):
                # tuple of terms
                if len(p) != len(q):
                    return None
                for pp, qq in zip(p, q):
                    if pp == qq:
                        continue
                    r = term_definite_difference(pp, qq, depth + 1)
                    if r is None:
                        return None
                    reason = r
                continue
            r = term_definite_difference(p, q, depth + 1)
            if r is None:
                return None
            reason = r
        return reason
    return None


def opaque_parts(e: sp.Expr) -> set:
    """maximal uninterpreted sub-expressions: applications of undefined functions and symbols without a declared role"""
    out = set()

    def visit(x):
        if isinstance(x, sp.Symbol):
            if x.name.startswith(OPAQUE_MARK):
                out.add(x)
            return
        if isinstance(x, sp.core.function.AppliedUndef):
            out.add(x)
            return
        for a_ in getattr(x, "args", ()):
            visit(a_)
    visit(sp.sympify(e))
    return out


def equal_terms(a: Term, b: Term, atom_of=None, positive=False) -> Tuple[Optional[bool], str]:
    tr = Translator(atom_of, positive)
    return decide_equal(tr.tr(a), tr.tr(b))
