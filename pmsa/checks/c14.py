"""C14 - time correlation equals the origin-averaged normalised autocorrelation.

For each of the six arms {scalar, vector, tensor} x {evenly spaced (all origins), unevenly spaced (first frame only)}:
R-LOOPDOM  evenly spaced: every pair 0 <= origin <= later <= T-1 is visited once (later over range(T), lag over range(later+1)),
           stored in slot = later - origin, with a count per visit and a division by the counts; unevenly spaced: origin 0 only.
R-SIB      the product is (value at the later frame) x conj(value at the earlier frame) in all six arms; the real part of the
           sum over particles (and components); trace of the matrix product per particle for tensors.
R-ALG      normalisation by lag zero, time axis (t - t0) dt, spacing detection = exactly one distinct timestep difference.
R-SAVE     the CSV is written from the returned frame.
"""
from __future__ import annotations

from .common import *  # noqa

FN = "dynamic.time_corr.time_correlation"
SN = ("sym", "snapshots")
COND = ("sym", "condition")
T_ = ("attr", SN, "nsnapshots")


_SPACING = {}


def spacing_condition(pkg):
    """The condition that classifies the trajectory as evenly spaced: cal_type = 'linear' if <cond> else 'log'."""
    if "cond" not in _SPACING:
        it0 = interp(pkg, FN)
        cond = None
        for e in it0.events:
            if e.kind == "assign" and e.data["value"] == C("linear") and len(e.guards) == 1 and not e.loops:
                g, pol = e.guards[0]
                cond = g if pol else ("un", "not", g)
        _SPACING["cond"] = cond
        _SPACING["it0"] = it0
    return _SPACING["cond"]


def mk(pkg, rank, linear):
    sc = spacing_condition(pkg)

    def assume(c):
        if sc is not None and c == sc:
            return linear
        if sc is not None and sc[0] == "un" and c == sc[2]:
            return not linear
        if c[0] == "cmp" and c[2] in (("call", "builtins.len", (("attr", COND, "shape"),), ()), ("attr", COND, "ndim")):
            rhs = c[3]
            if is_const(rhs) and isinstance(rhs[1], int):
                return {"==": rank == rhs[1], "!=": rank != rhs[1], "<": rank < rhs[1], "<=": rank <= rhs[1], ">": rank > rhs[1], ">=": rank >= rhs[1]}.get(c[1])
            if c[1] in ("in", "not in") and rhs[0] in ("tuple", "list", "set") and all(is_const(x) for x in rhs[1]):
                r = rank in [x[1] for x in rhs[1]]
                return r if c[1] == "in" else not r
        return None
    return interp(pkg, FN, assume=assume)


def strip_conj(t):
    if t[0] == "call" and t[1] in ("numpy.conj", "numpy.conjugate", ".conj", ".conjugate") and len(t[2]) == 1:
        return t[2][0], True
    return t, False


def frame_of(t):
    """condition[frame] / condition[frame, i] / condition[frame][np.newaxis, :]  -> (frame term, particle term or None)"""
    if t[0] == "sub" and t[2][0] == "tuple" and any(x == ("mod", "numpy.newaxis") for x in t[2][1]):
        t = t[1]
    if t == COND:
        return "ALL", None
    if t[0] == "sub" and t[1] == COND:
        if t[2][0] == "tuple" and len(t[2][1]) == 2:
            return t[2][1][0], t[2][1][1]
        return t[2], None
    return None, None


def product_of(val):
    """(A, B, reduction) from  (A*B).sum().real  /  np.trace(np.matmul(A, B))  /  (A*B).sum(axis=1).real"""
    v = val
    real = False
    if v[0] == "attr" and v[2] == "real":
        real, v = True, v[1]
    elif v[0] == "call" and v[1] == "numpy.real" and len(v[2]) == 1:
        real, v = True, v[2][0]
    elif v[0] == "call" and v[1] in ("numpy.abs", "numpy.absolute", "builtins.abs") and len(v[2]) == 1:
        real, v = "abs", v[2][0]       # modulus is not the real part: reported through the reduction obligation
    if v[0] == "call" and v[1] in (".sum", "numpy.sum") and v[2]:
        ax = kw(v, "axis", 1)
        p = v[2][0]
        if p[0] == "bin" and p[1] == "*":
            return p[2], p[3], ("sum", ax, real)
    if v[0] == "call" and v[1] == "numpy.trace" and v[2] and v[2][0][0] == "call" and v[2][0][1] in ("numpy.matmul", "numpy.dot") and len(v[2][0][2]) == 2:
        return v[2][0][2][0], v[2][0][2][1], ("trace", None, real)
    if v[0] == "call" and v[1] == "numpy.trace" and v[2] and v[2][0][0] == "bin" and v[2][0][1] == "@":
        return v[2][0][2], v[2][0][3], ("trace", None, real)
    if v[0] == "call" and v[1] in ("numpy.dot", "numpy.matmul", "numpy.inner", ".dot") and len(v[2]) == 2 and not v[3]:
        return v[2][0], v[2][1], ("dot", None, real)
    if v[0] == "bin" and v[1] == "@":
        return v[2], v[3], ("dot", None, real)
    if v[0] == "call" and v[1] == "numpy.vdot" and len(v[2]) == 2:
        # vdot conjugates its FIRST argument
        return ("call", "numpy.conj", (v[2][0],), ()), v[2][1], ("dot", None, real)
    if v[0] == "call" and v[1] == "numpy.einsum" and len(v[2]) == 3 and is_const(v[2][0]) and isinstance(v[2][0][1], str):
        kind = einsum_kind(v[2][0][1])
        return v[2][1], v[2][2], ("einsum:" + kind, None, real)
    return None


def einsum_kind(spec: str) -> str:
    """classify a two-operand contraction: 'trace' (sum_p tr(A_p B_p): last two letters of B swapped, particle letter shared),
    'elementwise' (sum_p sum_ij A_ij B_ij), optionally with a leading frame letter kept in the output ('+frames')."""
    spec = spec.replace(" ", "")
    if "->" not in spec or "," not in spec:
        return "other"
    ins, out = spec.split("->")
    a, b = ins.split(",")
    frames = ""
    if len(a) == len(b) + 1 and out == a[0]:
        frames, a = "+frames", a[1:]
    elif out != "":
        return "other"
    if len(a) != 3 or len(b) != 3 or a[0] != b[0] or len(set(a)) != 3:
        return "other"
    if b[1:] == a[2] + a[1]:
        return "trace" + frames
    if b[1:] == a[1:]:
        return "elementwise" + frames
    return "other"


def run(run: Run, pkg: Package) -> None:
    run.explanation = (
        "Each of the six (rank, spacing) arms of time_correlation is selected by folding the rank and spacing tests; the "
        "accumulation statement of the arm is parsed into (factor A, factor B, reduction) and the frame indices, conjugation, "
        "slot, loop domains, count and normalisation are compared with the definition C(k) = <Re sum A(t0+k) conj(A(t0))>.")
    run.extra["exhaustive"] = True
    names = {2: "scalar", 3: "vector", 4: "tensor"}
    for rank in (2, 3, 4):
        for linear in (True, False):
            check_arm(run, pkg, rank, linear, f"{names[rank]}/{'linear' if linear else 'log'}")
    check_common(run, pkg)
    run.minimum("R-SIB", 12)
    run.minimum("R-LOOPDOM", 9)


def check_arm(run, pkg, rank, linear, arm):
    it = mk(pkg, rank, linear)
    fi = it.fi
    fq = short(fi.qual)
    if len(it.returns) != 1:
        raise AnalysisError(f"{fq}[{arm}]: expected one return")
    # accumulation statements: stores into an array or whole-array assignment whose value contains `condition`
    acc = [e for e in stores(it) if any(x == COND for x in walk(e.data["value"]))]
    whole = [e for e in it.events if e.kind == "assign" and e.data["name"] and any(x == COND for x in walk(e.data["value"])) and product_of(e.data["value"])]
    loc = fi.loc()
    if not acc:
        # no accumulation loop: the arm is a whole-array expression, decided exactly on symbolic arrays
        if symbolic_arm(run, it, rank, linear, arm):
            return
    if len(acc) + len(whole) != 1:
        run.ob("R-SIB", fq, f"{arm}:statement", None, "one accumulation statement per arm", f"{len(acc)} stores, {len(whole)} whole-array forms", loc=loc)
        return
    ev = (acc or whole)[0]
    loc = loc_of(it, ev)
    val = ev.data["value"]
    pr = product_of(val)
    if pr is None:
        if not linear and perframe_symbolic(run, it, ev, rank, arm):
            return
        run.ob("R-SIB", fq, f"{arm}:product", None, "product form recognised", show(val)[:120], loc=loc)
        return
    A, B, (red, axis, real) = pr
    # the real part: taken -> True; modulus instead -> definitely different; absent -> definite only when the whole complex array
    # becomes the result (a store into the real result array keeps the real part)
    real_v = True if real is True else (False if (real == "abs" or ev.kind == "assign") else None)
    real = real is True
    A0, ca = strip_conj(A)
    B0, cb = strip_conj(B)
    fa, pa = frame_of(A0)
    fb, pb = frame_of(B0)
    if fa is None or fb is None:
        run.ob("R-SIB", fq, f"{arm}:product", None, "factors are values of the series at two frames", f"{show(A)[:60]} , {show(B)[:60]}", loc=loc)
        return
    loops = [it.loops[l] for l in ev.loops]
    linear_enumerated = False
    # ----- which factor is later
    if linear:
        if len(loops) < 2:
            run.ob("R-LOOPDOM", fq, f"{arm}:loops", None, "evenly spaced frames are averaged over all origins (double loop)", f"{len(loops)} loops", loc=loc)
            return
        Ln, Lnn = loops[0], loops[1]
        n, nn = Ln.target, Lnn.target
        dom = enumerate_domain(loops[:2], fa, fb, ev.data["target"][2] if ev.kind == "store" else None)
        positional = eqv(Ln.iter, ("call", "builtins.range", (T_,), ())) is True and \
            eqv(Lnn.iter, ("call", "builtins.range", (("bin", "+", n, C(1)),), ()), ("call", "builtins.range", (C(0), ("bin", "+", n, C(1))), ()), same=True) is True
        if dom is not None and not positional:
            # the loop nest is not written as (later frame, lag): decide the visited (later, origin, slot) triples by enumerating
            # the extracted affine bounds and index expressions for T = 1..6 (every pair 0 <= o <= e <= T-1 once, slot e - o)
            okdom, detail, conj_side = dom
            run.ob("R-LOOPDOM", fq, f"{arm}:domain", okdom, "the loop nest visits every pair 0 <= origin <= later <= T-1 exactly once and stores it at slot later - origin "
                   "(enumerated on the extracted loop bounds and index expressions, T = 1..6)", detail, witness=None if okdom else detail, loc=loc, sound=True)
            if okdom:
                # conjugate on the factor that is the earlier frame in every visit where the two differ
                c_e = {"A": ca, "B": cb}[conj_side] if conj_side else None
                c_l = {"A": cb, "B": ca}[conj_side] if conj_side else None
                okc = None if conj_side is None else bool((not c_l) and c_e)
                run.ob("R-SIB", fq, f"{arm}:conjugate", okc, "the value at the earlier frame (the origin) is conjugated, the later one is not",
                       f"earlier factor is {conj_side}: later conj={c_l}, earlier conj={c_e}", witness=None if okc else
                       "conjugate on the later frame / both / none: imaginary part sign flips for complex series", loc=loc, sound=True)
                linear_enumerated = True
            else:
                return
        ok_n = eqv(Ln.iter, ("call", "builtins.range", (T_,), ()))
        ok_nn = eqv(Lnn.iter, ("call", "builtins.range", (("bin", "+", n, C(1)),), ()), ("call", "builtins.range", (C(0), ("bin", "+", n, C(1))), ()), same=True)
        if linear_enumerated:
            enumerated_tail(run, it, ev, fq, arm, loc, red, axis, real_v, real, rank, pa, pb, loops, linear)
            return
        run.ob("R-LOOPDOM", fq, f"{arm}:later", ok_n, "the later frame runs over all frames", show(Ln.iter)[:60],
               witness=None if ok_n else "frames skipped", loc=loc, sound=True)
        run.ob("R-LOOPDOM", fq, f"{arm}:lag", ok_nn, "the lag runs over 0..later (all origins, lag zero included)", show(Lnn.iter)[:60],
               witness=None if ok_nn else "T=3: the pair set is not {(o, e): 0 <= o <= e <= 2}", loc=loc, sound=True)
        later, earlier = n, ("bin", "-", n, nn)
        slot_want = nn
    else:
        if not loops:
            later, earlier, slot_want = "ALL", C(0), None
        else:
            if not loops:
                run.ob("R-LOOPDOM", fq, f"{arm}:loops", None, "frame loop present", "no loop", loc=loc)
                return
            Ln = loops[0]
            n = Ln.target
            ok_n = eqv(Ln.iter, ("call", "builtins.range", (T_,), ()))
            run.ob("R-LOOPDOM", fq, f"{arm}:later", ok_n, "the later frame runs over all frames", show(Ln.iter)[:60],
                   witness=None if ok_n else "frames skipped", loc=loc, sound=True)
            later, earlier, slot_want = n, C(0), n
    frames = {fa: (ca, "A"), fb: (cb, "B")}
    def feq(x, y):
        if isinstance(x, str) or isinstance(y, str):
            return True if x == y else (None if (isinstance(x, str) and isinstance(y, str)) else False)
        return eqv(x, y)
    o1, o2 = tri(feq(fa, later), feq(fb, earlier)), tri(feq(fa, earlier), feq(fb, later))
    ok_frames = True if (o1 is True or o2 is True) else (False if (o1 is False and o2 is False) else None)
    if ok_frames and o1 is not True:
        pass
    run.ob("R-SIB", fq, f"{arm}:frames", ok_frames, f"the two factors are the series at frame {show(later) if later != 'ALL' else 'each frame'} and at "
           f"{'the origin ' + show(earlier)}", f"frames {show(fa) if fa != 'ALL' else 'ALL'} and {show(fb) if fb != 'ALL' else 'ALL'}",
           witness=None if ok_frames else "correlates the wrong pair of frames", loc=loc, sound=True)
    if ok_frames:
        c_later = ca if o1 is True else cb
        c_earlier = cb if o1 is True else ca
        if later == earlier:
            c_later, c_earlier = (ca, cb) if not ca else (cb, ca)
        okc = (not c_later) and c_earlier
        run.ob("R-SIB", fq, f"{arm}:conjugate", okc, "the value at the earlier frame (the origin) is conjugated, the later one is not",
               f"later conj={c_later}, earlier conj={c_earlier}", witness=None if okc else
               ("complex series: Re sum A(t) A(0) instead of Re sum A(t) conj(A(0))" if not (ca or cb) else
                "conjugate on the later frame / both: imaginary part sign flips for complex series"), loc=loc, sound=True)
    # ----- reduction
    if red == "sum":
        want_axis = None
        if later == "ALL":
            want_axis = C(1) if rank == 2 else ("tuple", (C(1), C(2)))
        okax = True if axis == want_axis else (eqv(axis, want_axis) if (axis is not None and want_axis is not None) else None)
        okr = tri(okax, real_v)
        run.ob("R-SIB", fq, f"{arm}:reduction", okr, "real part of the sum over particles" + (" and components" if rank == 3 else ""),
               f"sum(axis={show(axis) if axis else None}), real={real}", witness=None if okr else "reduction differs from Re sum_i (modulus / complex value / other axes)", loc=loc, sound=True)
        if rank == 4:
            # both factors are bare entries of the series (frame_of accepted them): sum_ab A_ab B_ab
            run.ob("R-SIB", fq, f"{arm}:reduction-kind", False, "tensor series use the trace of the matrix product", "element-wise product used",
                   witness="tensor A: sum A_ab A_ab differs from tr(A A^dagger-less product) used by the definition", loc=loc, sound=True)
    elif red == "dot":
        okr = tri(True if rank == 2 else None, real_v)
        run.ob("R-SIB", fq, f"{arm}:reduction", okr, "real part of the sum over particles (inner product over the particle axis, scalar series only)", f"dot product, real={real}, rank {rank}",
               witness=None if okr else "inner product is not Re sum_i for this rank", loc=loc, sound=True)
    elif red.startswith("einsum:"):
        kind = red.split(":")[1]
        want_kind = "trace+frames" if later == "ALL" else "trace"
        okt = tri(True if (rank == 4 and kind == want_kind) else (False if kind.startswith("elementwise") and rank == 4 else None), real_v)
        run.ob("R-SIB", fq, f"{arm}:reduction", okt, "real part of sum over particles of the trace of the product of the two particle tensors (same particle in both factors)",
               f"einsum contraction classified as {kind}, real={real}", witness=None if okt else
               ("sum_ab A_ab B_ab differs from tr(A B) for non-symmetric tensors" if kind.startswith("elementwise") else "contraction is not sum_p tr(A_p B_p)"), loc=loc, sound=True)
    else:
        okt = None
        if rank == 4 and pa is not None and pb is not None and len(loops) >= (3 if linear else 2):
            okt = tri(eqv(pa, pb), eqv(pa, loops[-1].target))
        run.ob("R-SIB", fq, f"{arm}:reduction", okt, "trace of the product of the two particle tensors, same particle in both factors",
               f"particle indices {show(pa) if pa else None}, {show(pb) if pb else None}",
               witness=None if okt else "tensors of different particles multiplied", loc=loc, sound=True)
        if rank == 4 and loops:
            Lp = loops[-1]
            okp = eqv(Lp.iter, ("call", "builtins.range", (("attr", ("sub", ("attr", SN, "snapshots"), C(0)), "nparticle"),), ()))
            run.ob("R-LOOPDOM", fq, f"{arm}:particles", okp, "all particles contribute", show(Lp.iter)[:70], witness=None if okp else "particles skipped", loc=loc, sound=True)
    # ----- slot, counts
    if ev.kind == "store":
        slot = ev.data["target"][2]
        oks = eqv(slot, slot_want) if slot_want is not None else None
        run.ob("R-LOOPDOM", fq, f"{arm}:slot", oks, "the product is stored at slot = later frame - origin", f"slot {show(slot)}",
               witness=None if oks else f"lag {show(slot_want) if slot_want else '?'} accumulated into slot {show(slot)}", loc=loc, sound=True)
        op = ev.data["op"]
        want_op = "+" if (linear or rank == 4) else None
        okop = True if op == want_op else (False if (want_op == "+" and op is None) else None)
        run.ob("R-LOOPDOM", fq, f"{arm}:accumulate", okop, "contributions are " + ("accumulated" if want_op else "assigned once"), f"operator {op}",
               witness=None if okop else "origins/particles overwrite each other", loc=loc, sound=True)
        resarr = ev.data["target"][1]
        if linear:
            cnt = [e for e in stores(it) if e.loops == ev.loops and e.data["op"] == "+" and e.data["value"] == C(1) and e.data["target"][2] == slot_want]
            okcnt = len(cnt) == 1
            run.ob("R-LOOPDOM", fq, f"{arm}:count", True if okcnt else None, "a count is incremented once per accumulated contribution, in the same slot", f"{len(cnt)} count statements",
                   witness=None if okcnt else "average over origins uses the wrong number of contributions", loc=loc)
            if okcnt:
                carr = cnt[0].data["target"][1]
                div = [e for e in it.events if e.kind == "aug" and e.data["op"] == "/" and e.data["old"] == resarr and e.data["value"] == carr and not e.loops
                       and e.seq > ev.seq]
                okd = True if len(div) == 1 else None
                if not div:
                    # the only divisions the accumulated array ever sees are by its own lag-zero element: never averaged
                    selfnorm = {e.data["new"] for e in it.events if e.kind == "aug" and e.data["op"] == "/" and eqv(e.data["value"], ("sub", e.data["old"], C(0))) is True}
                    other_div = [e for e in it.events if e.seq > ev.seq and ((e.kind == "aug" and e.data["op"] == "/" and e.data["new"] not in selfnorm)
                                                                             or (e.kind in ("assign", "store") and any(x[0] == "bin" and x[1] in ("/", "//") and x not in selfnorm for x in walk(e.data["value"]))))]
                    if not other_div:
                        okd = False
                run.ob("R-LOOPDOM", fq, f"{arm}:average", okd, "accumulated sums are divided by the counts after the loops", f"{len(div)} divisions",
                       witness=None if okd else "sum over origins not turned into an average: long lags weighted less", loc=loc, sound=True)


def enumerate_domain(loops, fa, fb, slot):
    """(ok, detail, which factor is the earlier frame 'A'/'B'/None) by enumerating a two-loop nest for T = 1..6, or None when the
    bounds / index expressions are not integer-affine in (T, loop variables)."""
    from .grlib import eval_int, Undecidable
    if isinstance(fa, str) or isinstance(fb, str) or slot is None:
        return None

    def rng(Lp, env):
        it_ = Lp.iter
        if it_ is None or it_[0] != "call" or it_[1] != "builtins.range" or it_[3]:
            raise Undecidable("loop not over range")
        a = [eval_int(x, env) for x in it_[2]]
        return range(*a)
    earlier_side = set()
    try:
        for T in range(1, 7):
            env0 = {T_: T}
            seen = {}
            for v0 in rng(loops[0], env0):
                env1 = dict(env0)
                env1[loops[0].target] = v0
                for v1 in rng(loops[1], env1):
                    env = dict(env1)
                    env[loops[1].target] = v1
                    a, b, sl = eval_int(fa, env), eval_int(fb, env), eval_int(slot, env)
                    e, o = max(a, b), min(a, b)
                    if a != b:
                        earlier_side.add("A" if a < b else "B")
                    if not (0 <= o <= e <= T - 1):
                        return False, f"T={T}: frames {a}, {b} outside 0..{T - 1}", None
                    if sl != e - o:
                        return False, f"T={T}: frames ({e}, {o}) stored at slot {sl}, not {e - o}", None
                    seen[(e, o)] = seen.get((e, o), 0) + 1
            want = {(e, o) for e in range(T) for o in range(e + 1)}
            if set(seen) != want:
                miss = sorted(want - set(seen))[:3]
                return False, f"T={T}: pairs (later, origin) never visited: {miss}", None
            dup = [k for k, c in seen.items() if c != 1]
            if dup:
                return False, f"T={T}: pair {dup[0]} visited {seen[dup[0]]} times", None
    except Undecidable:
        return None
    side = earlier_side.pop() if len(earlier_side) == 1 else None
    return True, "all pairs for T = 1..6, slot = later - origin", side


def enumerated_tail(run, it, ev, fq, arm, loc, red, axis, real_v, real, rank, pa, pb, loops, linear):
    """the obligations that do not depend on which loop is which: reduction, accumulation operator, count, average"""
    if red == "sum":
        okr = tri(True if axis is None else None, real_v)
        run.ob("R-SIB", fq, f"{arm}:reduction", okr, "real part of the sum over particles" + (" and components" if rank == 3 else ""),
               f"sum(axis={show(axis) if axis else None}), real={real}", witness=None if okr else "reduction differs from Re sum_i (modulus / complex value / other axes)", loc=loc, sound=True)
        if rank == 4:
            run.ob("R-SIB", fq, f"{arm}:reduction-kind", False, "tensor series use the trace of the matrix product", "element-wise product used",
                   witness="tensor A: sum A_ab A_ab differs from tr(A A^dagger-less product) used by the definition", loc=loc, sound=True)
    elif red.startswith("einsum:") or red == "dot":
        run.ob("R-SIB", fq, f"{arm}:reduction", None, "reduction recognised in a restructured loop nest", red, loc=loc)
    else:
        okt = None
        if rank == 4 and pa is not None and pb is not None and len(loops) >= 3:
            okt = tri(eqv(pa, pb), eqv(pa, loops[-1].target))
        run.ob("R-SIB", fq, f"{arm}:reduction", okt, "trace of the product of the two particle tensors, same particle in both factors",
               f"particle indices {show(pa) if pa else None}, {show(pb) if pb else None}", witness=None if okt else "tensors of different particles multiplied", loc=loc, sound=True)
        if rank == 4 and loops:
            Lp = loops[-1]
            okp = eqv(Lp.iter, ("call", "builtins.range", (("attr", ("sub", ("attr", SN, "snapshots"), C(0)), "nparticle"),), ()))
            run.ob("R-LOOPDOM", fq, f"{arm}:particles", okp, "all particles contribute", show(Lp.iter)[:70], witness=None if okp else "particles skipped", loc=loc, sound=True)
    if ev.kind == "store":
        slot = ev.data["target"][2]
        op = ev.data["op"]
        okop = True if op == "+" else (False if op is None else None)
        run.ob("R-LOOPDOM", fq, f"{arm}:accumulate", okop, "contributions are accumulated", f"operator {op}", witness=None if okop else "origins/particles overwrite each other", loc=loc, sound=True)
        resarr = ev.data["target"][1]
        cnt = [e for e in stores(it) if e.loops == ev.loops and e.data["op"] == "+" and e.data["value"] == C(1) and e.data["target"][2] == slot]
        # a count may also be assigned in closed form per lag (T - lag); only the incremented form is recognised here
        okcnt = len(cnt) == 1
        run.ob("R-LOOPDOM", fq, f"{arm}:count", True if okcnt else None, "a count is incremented once per accumulated contribution, in the same slot", f"{len(cnt)} count statements", loc=loc)
        if okcnt:
            carr = cnt[0].data["target"][1]
            div = [e for e in it.events if e.kind == "aug" and e.data["op"] == "/" and e.data["old"] == resarr and e.data["value"] == carr and not e.loops and e.seq > ev.seq]
            run.ob("R-LOOPDOM", fq, f"{arm}:average", True if len(div) == 1 else None, "accumulated sums are divided by the counts after the loops", f"{len(div)} divisions", loc=loc)


def symbolic_arm(run, it, rank, linear, arm) -> bool:
    """Whole-array form of an arm (no accumulation loop): the extracted expression for the un-normalised correlation is
    evaluated on an array of distinct exact complex symbols of shape T=3, N=2(, d=2(, d=2)) and compared entry by entry, as
    polynomials, with the definition.  Exact for that shape; the forms involved (dot / tensordot / einsum / sum / conj / real)
    are uniform in the extents."""
    import numpy as np
    import sympy as sp
    from ..concrete import ev as cev, symbolic_array, Unsupported
    fi = it.fi
    fq = short(fi.qual)
    norm = [e for e in it.events if e.kind == "aug" and e.data["op"] == "/" and not e.loops and eqv(e.data["value"], ("sub", e.data["old"], C(0))) is True]
    if len(norm) != 1:
        return False
    pre = norm[0].data["old"]
    if not any(x == COND for x in walk(pre)) or any(x[0] in ("mu", "loopvar", "phi") for x in walk(pre)):
        return False
    # an array that is (also) filled by element stores is not a whole-array form: its term does not show the stored values
    from ..vg import strip_alloc as _sa
    stored_bases = {_sa(e.data["target"][1]) for e in stores(it) if e.data["target"][0] == "sub"}
    if any(_sa(x) in stored_bases for x in walk(pre)):
        return False
    T, N, d = 3, 2, 2
    shape = {2: (T, N), 3: (T, N, d), 4: (T, N, d, d)}[rank]
    c = symbolic_array(shape, "c")
    env = {COND: c, T_: T, ("attr", COND, "shape"): shape}
    try:
        got = np.asarray(cev(strip_alloc_(pre), env), dtype=object).ravel()
    except Exception as e:  # noqa
        run.ob("R-SIB", fq, f"{arm}:whole-array", None, "whole-array form evaluated on exact symbols", f"not evaluable: {type(e).__name__}: {str(e)[:80]} in {show(pre)[:80]}", loc=loc_of(it, norm[0]))
        return True

    def S_(n, o):
        if rank == 4:
            return sum(sp.Matrix(c[n, i].tolist()).multiply(sp.Matrix(c[o, i].tolist()).conjugate()).trace() for i in range(N))
        return sum(x * sp.conjugate(y) for x, y in zip(c[n].ravel(), c[o].ravel()))
    if linear:
        ref = [sum(sp.re(sp.expand(S_(o + k, o))) for o in range(T - k)) / (T - k) for k in range(T)]
    else:
        ref = [sp.re(sp.expand(S_(k, 0))) for k in range(T)]
    if got.shape != (T,):
        run.ob("R-SIB", fq, f"{arm}:whole-array", False, "one correlation value per frame", f"shape {got.shape}", witness=f"T={T}: {got.shape[0] if got.shape else 0} values", loc=loc_of(it, norm[0]), sound=True)
        return True
    bad = None
    for k in range(T):
        dlt = sp.expand(sp.sympify(got[k]) - ref[k])
        if dlt != 0:
            bad = (k, dlt)
            break
    if bad is None:
        run.ob("R-SIB", fq, f"{arm}:whole-array", True, f"un-normalised correlation equals Re sum A(t) conj(A(origin)) {'averaged over all origins' if linear else 'with the first frame as the only origin'} "
               f"- decided exactly on symbolic arrays of shape {shape}", show(pre)[:100], loc=loc_of(it, norm[0]))
    else:
        k, dlt = bad
        # a concrete series on which the two differ
        import random
        rnd = random.Random(5)
        subs_ = {s_: sp.Rational(rnd.randint(-3, 3)) for s_ in dlt.free_symbols}
        val = dlt.subs(subs_)
        tries = 0
        while val == 0 and tries < 20:
            subs_ = {s_: sp.Rational(rnd.randint(-5, 5)) for s_ in dlt.free_symbols}
            val = dlt.subs(subs_)
            tries += 1
        run.ob("R-SIB", fq, f"{arm}:whole-array", False, f"un-normalised correlation equals Re sum A(t) conj(A(origin)) ({'all origins' if linear else 'first frame only'})",
               f"lag {k}: code - definition = {sp.sstr(dlt)[:160]}", witness=f"series of shape {shape} with entries { {str(a): str(b) for a, b in list(subs_.items())[:6]} }: lag {k} differs by {val}",
               loc=loc_of(it, norm[0]), sound=True)
    return True


def strip_alloc_(t):
    from ..vg import strip_alloc
    return strip_alloc(t)


def check_common(run, pkg):
    it = mk(pkg, 3, True)
    fi = it.fi
    fq = short(fi.qual)
    ret = it.returns[0].data["value"]
    # DataFrame(column_stack(((ts - ts[0]) * dt, results)), columns = t time_corr)
    ok_df = ret[0] == "call" and ret[1] == "pandas.DataFrame"
    cols = kw(ret, "columns") if ok_df else None
    okc = eqv(cols, ("list", (C("t"), C("time_corr"))))
    run.ob("R-ALG", fq, "columns", tri(True if ok_df else None, okc), "result frame has columns t, time_corr", show(cols)[:60] if cols else "?",
           witness=None if ok_df and okc else "column order/names changed", loc=fi.loc(), sound=True)
    data = ret[2][0] if ok_df and ret[2] else None
    tcol = rcol = None
    if data is not None and data[0] == "call" and data[1] == "numpy.column_stack" and data[2] and data[2][0][0] == "tuple" and len(data[2][0][1]) == 2:
        tcol, rcol = data[2][0][1]
    TS = None
    for e in it.events:
        if e.kind == "assign" and e.data["name"] and e.data["value"][0] == "call" and e.data["value"][1] == "numpy.array" and e.data["value"][2] \
                and e.data["value"][2][0][0] == "comp":
            comp = e.data["value"][2][0]
            if comp[2][0] == "attr" and comp[2][2] == "timestep" and comp[3][0][1] == ("attr", SN, "snapshots"):
                TS = e.data["value"]
    run.ob("R-ALG", fq, "timesteps", True if TS is not None else None, "timesteps are read from every snapshot in order", show(TS)[:80] if TS else "not found",
           witness=None if TS is not None else "time axis not built from the frames' timesteps", loc=fi.loc())
    if tcol is not None and TS is not None:
        import sympy as sp
        ts, t0, dt = sp.symbols("ts t0 dt")

        def atom_of(t):
            if t == TS:
                return ts
            if t == ("sub", TS, C(0)):
                return t0
            if t == ("sym", "dt"):
                return dt
            return None
        check_algebra(run, "R-ALG", it, "time-axis", "t = (timestep - first timestep) * dt", tcol, (ts - t0) * dt, atom_of, fi.loc())
    # normalisation by lag zero: last aug on results before the frame
    if rcol is not None:
        ok_norm = None
        for e in it.events:
            if e.kind == "aug" and e.data["op"] == "/" and not e.loops and e.data["new"] == rcol:
                v = e.data["value"]
                ok_norm = eqv(v, ("sub", e.data["old"], C(0)))
        run.ob("R-ALG", fq, "normalise", ok_norm, "the series is divided by its lag-zero value (so C(0) = 1)", show(rcol)[:80],
               witness=None if ok_norm else "C(0) != 1: normalised by another element / not at all", loc=fi.loc(), sound=True)
    # spacing detection: decide the classifying condition on concrete timestep sequences
    sc = spacing_condition(pkg)
    if sc is None or TS is None:
        run.ob("R-ALG", fq, "spacing", None, "spacing test found", "cal_type is not defined as 'linear' if <cond> else 'log'", loc=fi.loc())
    else:
        import numpy as np
        from ..concrete import ev as cev, Unsupported
        import itertools
        # (a) idiom table: forms that ARE "all differences equal" (any of these is accepted as a proof of the clause)
        D = ("call", "numpy.diff", (TS,), ())

        def n_distinct(t):
            return t in (("call", "builtins.len", (("call", "builtins.set", (D,), ()),), ()), ("call", "builtins.len", (("call", "numpy.unique", (D,), ()),), ()),
                         ("attr", ("call", "numpy.unique", (D,), ()), "size"), ("sub", ("attr", ("call", "numpy.unique", (D,), ()), "shape"), C(0)))
        d0 = ("sub", D, C(0))

        def is_tabled(c, pol=True):
            """`c` (taken with polarity pol) is one of the accepted spellings of "all differences are equal" """
            if c[0] == "un" and c[1] == "not":
                return is_tabled(c[2], not pol)
            if c[0] == "cmp" and c[1] == "!=" and pol is False:
                return is_tabled(("cmp", "==", c[2], c[3]), True)
            if not pol:
                return False
            if c[0] == "bool" and c[1] == "and":
                # non-emptiness tests of the difference array are vacuous for two or more frames
                nonempty = lambda x: x[0] == "cmp" and x[1] in (">", ">=", "!=") and x[3] in (C(0), C(1)) and x[2] in (("attr", D, "size"), ("call", "builtins.len", (D,), ()))
                rest = [x for x in c[2] if not nonempty(x)]
                return len(rest) == 1 and is_tabled(rest[0], True)
            return (c[0] == "cmp" and c[1] == "==" and ((n_distinct(c[2]) and c[3] == C(1)) or (n_distinct(c[3]) and c[2] == C(1)))) or \
                c in (("call", "numpy.all", (("cmp", "==", D, d0),), ()), ("call", ".all", (("cmp", "==", D, d0),), ()),
                      ("cmp", "==", ("call", "numpy.ptp", (D,), ()), C(0)), ("call", "numpy.allclose", (D, d0), ()))
        tabled = is_tabled(sc)
        # (b) exhaustive small domain: every sequence of 3..5 frames with consecutive differences in {1,2,3,4} (336 sequences) + 2-frame ones
        bad = None
        n_seq = 0
        # the classification is a property of the integer timesteps alone: when the test also reads the time unit dt, it is decided
        # for the default and for small / large units (reduced or SI units are both in use)
        DT = ("sym", "dt")
        uses_dt = any(x == DT for x in walk(sc))
        dts = (0.002, 1.0, 2e-15, 5e-3) if uses_dt else (0.002,)
        try:
            for dtv in dts:
                cases = []
                for T in (2, 3, 4, 5):
                    for diffs in itertools.product((1, 2, 3, 4), repeat=T - 1):
                        cases.append(diffs)
                cases += [(10, 45, 45, 450, 450, 4500), (1000, 1000, 1000, 1001), (5, 5, 50, 50)]
                for diffs in cases:
                    seq = [7]
                    for d_ in diffs:
                        seq.append(seq[-1] + d_)
                    want = len(set(diffs)) == 1
                    n_seq += 1
                    env = {TS: np.array(seq), T_: len(seq), DT: dtv}
                    got = bool(cev(sc, env))
                    if got != want:
                        bad = (f"timesteps {seq}" + (f" with dt = {dtv}" if uses_dt else "") + f" are {'evenly' if want else 'unevenly'} spaced but are treated as "
                               f"{'evenly' if got else 'unevenly'} spaced")
                        break
                if bad:
                    break
            ok = False if bad else (True if tabled else None)
            run.ob("R-ALG", fq, "spacing", ok, "frames are classified as evenly spaced exactly when all timestep differences are equal",
                   show(sc)[:100] + (" ; form in the idiom table" if tabled else (" ; form not in the idiom table" + ("" if bad else f" (no counterexample among {n_seq} enumerated sequences - not a proof)"))),
                   witness=bad, loc=fi.loc(), sound=True)
        except (Unsupported, Exception) as e:  # noqa
            run.ob("R-ALG", fq, "spacing", True if tabled else None, "spacing test decidable", f"{type(e).__name__}: {e}", loc=fi.loc())
    # both kinds of spacing were folded by the same test: confirm the test compares with 1
    saves = calls(it, ".to_csv")
    for e in saves:
        c = e.data["call"]
        ok = tri_lazy(lambda: (True if (c[2][0] == ret) else None), lambda: (True if (len(c[2]) > 1) else None), lambda: eqv(c[2][1], ("sym", "outputfile")))
        run.ob("R-SAVE", fq, "csv", ok, "the CSV is written from the returned frame", show(c)[:70], witness=None if ok else "file differs from returned values", loc=loc_of(it, e), sound=True)


def perframe_symbolic(run, it, ev, rank, arm) -> bool:
    """Single-origin arm written as one whole-array expression per frame (results[n] = f(condition[n], condition[0])): the
    stored value is evaluated, for every frame n of a symbolic series of shape T=3, N=2(, d=2(, d=2)), and compared as a
    polynomial with Re sum_i A_i(n) conj(A_i(0)) (trace of the product for tensors).  Exact for that shape."""
    import numpy as np
    import sympy as sp
    from ..concrete import ev as cev, symbolic_array
    fq = short(it.fi.qual)
    if ev.kind != "store" or len(ev.loops) != 1 or ev.data.get("op") not in (None, "+"):
        return False
    L = it.loops[ev.loops[0]]
    nvar = L.target
    if ev.data["target"][2] != nvar:
        return False
    T, N, d = 3, 2, 2
    shape = {2: (T, N), 3: (T, N, d), 4: (T, N, d, d)}[rank]
    c = symbolic_array(shape, "c")
    val = strip_alloc_(ev.data["value"])
    bad = None
    try:
        for k in range(T):
            got = sp.expand(sp.sympify(cev(val, {COND: c, T_: T, nvar: k, ("attr", COND, "shape"): shape})))
            if rank == 4:
                ref = sum(sp.Matrix(c[k, i].tolist()).multiply(sp.Matrix(c[0, i].tolist()).conjugate()).trace() for i in range(N))
            else:
                ref = sum(x * sp.conjugate(y) for x, y in zip(c[k].ravel(), c[0].ravel()))
            dlt = sp.expand(got - sp.re(sp.expand(ref)))
            if dlt != 0:
                bad = (k, dlt)
                break
    except Exception:  # noqa
        return False
    if bad is None:
        run.ob("R-SIB", fq, f"{arm}:per-frame", True, "value stored for frame n equals Re sum A(n) conj(A(0)) - decided exactly on a symbolic series of shape " + str(shape), show(val)[:100], loc=loc_of(it, ev))
        return True
    k, dlt = bad
    import random
    rnd = random.Random(5)
    subs_ = {s_: sp.Rational(rnd.randint(-3, 3)) for s_ in dlt.free_symbols}
    v = dlt.subs(subs_)
    tries = 0
    while v == 0 and tries < 20:
        subs_ = {s_: sp.Rational(rnd.randint(-5, 5)) for s_ in dlt.free_symbols}
        v = dlt.subs(subs_)
        tries += 1
    run.ob("R-SIB", fq, f"{arm}:per-frame", False, "value stored for frame n equals Re sum A(n) conj(A(0)) (trace of the matrix product for tensors)",
           f"frame {k}: code - definition = {sp.sstr(dlt)[:160]}",
           witness=f"series of shape {shape} with entries {({str(a): str(b) for a, b in list(subs_.items())[:6]})}: frame {k} differs by {v}", loc=loc_of(it, ev), sound=True)
    return True
