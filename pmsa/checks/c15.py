"""C15 - vector-field measures and the longitudinal / transverse split obey their definitions.

R-ALG     participation ratio (sum e.e)^2 / (N sum (e.e)^2); alignment = mean over neighbours of e_i . e_j; phase quotient
          sum d / sum |d|; divergence = mean of r_ij . u_ij; curl = sum r_ij x u_ij / cn; vibrability sum_k |e_k,i|^2 / omega_k^2;
          split: u = q/|q|, L = u (u . F), T = F - L (so F = L + T and S = S_L + S_T by construction), S_X = Re sum X conj X.
R-IDX     neighbours of i are columns 1..cn_i of its row; eigenvector k is column k reshaped (N, -1).
R-ALIGN   relative positions and relative field values are gathered with the same neighbour slice and the same centre.
R-PBC     relative positions are minimum-imaged with the snapshot's cell and the caller's mask.
R-EFFECT  no in-place operation on arrays obtained from DataFrame .values (read-only views under pandas >= 3).
R-LOOPDOM correlation variant: every frame is decomposed with its own field; every wave vector and column group is correlated.
"""
from __future__ import annotations

import sympy as sp

from .common import *  # noqa
from ..vg import strip_alloc
from .boolib import *  # noqa
from .grlib import pbc_args, no_wrap_possible
from ..vg import Interp

MOD = "static.vector"
VEC = ("sym", "vector")
SUM = sp.Function(".sum")
SUMA = sp.Function(".sum|axis")
MEAN = sp.Function(".mean")


def canon(t):
    """np.sum(x, ...) -> x.sum(...), np.mean -> .mean, np.multiply -> *, np.dot(a,b) kept."""
    def fn(x):
        if x[0] == "call" and x[1] in ("numpy.sum", "numpy.mean") and x[2]:
            return ("call", "." + x[1].split(".")[1], x[2], x[3])
        return None
    return subst(t, fn)


def run(run: Run, pkg: Package) -> None:
    run.explanation = (
        "Each measure of static.vector is read from its value graph and compared with its definition: closed formulas by exact "
        "algebra with uninterpreted reductions, neighbour gathers and minimum-image calls by argument roles, the Fourier split "
        "by the algebraic form of its three statements, the correlation variant by its loop domains and call arguments.")
    check_pr(run, pkg)
    for f in ("local_vector_alignment", "phase_quotient"):
        check_neighbour_dot(run, pkg, f)
    check_divcurl(run, pkg)
    check_vibrability(run, pkg)
    check_split(run, pkg)
    check_fft_corr(run, pkg)
    run.minimum("R-ALG", 14)


def nbr_table(it, fq, nparam):
    rd = calls(it, READER)
    if len(rd) != 1:
        raise AnalysisError(f"{fq}: expected one read_neighbors call")
    return rd[0].data["result"], rd[0]


def check_pr(run, pkg):
    it = interp(pkg, f"{MOD}.participation_ratio")
    fq = short(it.fi.qual)
    V, N = sp.Symbol("V"), sp.Symbol("N", positive=True)

    def at(t):
        if t == VEC:
            return V
        if t == ("sub", ("attr", VEC, "shape"), C(0)):
            return N
        return None
    ret = canon(it.returns[0].data["value"])
    # loop-free expression of the field: decided exactly on a 3 x 2 array of distinct real symbols when the reduction spellings
    # (einsum / dot / nested sums) are outside the algebraic normaliser
    tr_ = S.Translator(at)
    try:
        okalg, _ = S.decide_equal(tr_.tr(ret), SUM(V ** 2) ** 2 / (N * SUM(SUMA(V ** 2, 1) ** 2)))
    except Exception:  # noqa
        okalg = None
    if okalg is None and not it.loops:
        try:
            import numpy as np
            from ..concrete import ev as cev, symbolic_array
            from ..vg import inline_calls, strip_alloc
            E = symbolic_array((3, 2), "e", complex_=False)
            got = cev(strip_alloc(inline_calls(pkg, it.returns[0].data["value"])), {VEC: E, ("sub", ("attr", VEC, "shape"), C(0)): 3})
            sq = [sum(x ** 2 for x in row) for row in E]
            want = sum(sq) ** 2 / (3 * sum(x ** 2 for x in sq))
            dlt = sp.simplify(sp.sympify(got) - want)
            run.ob("R-ALG", fq, "participation-ratio", True if dlt == 0 else False, "PR = (sum_i e_i.e_i)^2 / (N sum_i (e_i.e_i)^2) - decided exactly on a symbolic 3 x 2 field",
                   show(ret)[:110], witness=None if dlt == 0 else f"3 x 2 field: code - definition = {sp.sstr(dlt)[:160]}", loc=it.fi.loc(), sound=True)
            return
        except Exception:  # noqa
            pass
    check_algebra(run, "R-ALG", it, "participation-ratio", "PR = (sum_i e_i.e_i)^2 / (N sum_i (e_i.e_i)^2)", ret, SUM(V ** 2) ** 2 / (N * SUM(SUMA(V ** 2, 1) ** 2)), at, it.fi.loc())


def check_neighbour_dot(run, pkg, fname):
    it = interp(pkg, f"{MOD}.{fname}")
    fi = it.fi
    fq = short(fi.qual)
    NL, rd = nbr_table(it, fq, None)
    okn = eqv(kw(rd.data["call"], "nparticle", 1), ("sub", ("attr", VEC, "shape"), C(0)), ("call", "builtins.len", (VEC,), ()), same=True)
    run.ob("R-PROTO", fq, "nparticle", okn, "the neighbour reader is told the number of field vectors", show(rd.data["call"])[:80], witness=None if okn else "wrong row count consumed", loc=loc_of(it, rd), sound=True)
    # the per-particle dot products
    med = None
    for e in it.events:
        if e.kind == "assign" and len(e.loops) == 1 and e.data["value"][0] == "call" and e.data["value"][1] == ".sum" and kw(e.data["value"], "axis", 1) == C(1):
            med, mev = e.data["value"], e
    if med is None:
        # the dot products may be written inline in the statement that consumes them (no separate temporary)
        for e in it.events:
            if e.kind in ("store", "aug", "assign") and len(e.loops) == 1:
                for x in walk(e.data["value"]):
                    if x[0] == "call" and x[1] == ".sum" and kw(x, "axis", 1) == C(1) and x[2] and x[2][0][0] == "bin" and x[2][0][1] == "*" and any(z == VEC for z in walk(x)):
                        med, mev = x, e
                        break
            if med is not None:
                break
    if med is None:
        vectorised_neighbour_dot(run, pkg, it, fq, fname, NL)
        return
    L = it.loops[mev.loops[0]]
    i = L.target
    okd = eqv(L.iter, ("call", "builtins.range", (("sub", ("attr", VEC, "shape"), C(0)),), ()))
    run.ob("R-LOOPDOM", fq, "particles", okd, "every particle is visited", show(L.iter)[:60], witness=None if okd else "particles skipped", loc=fi.loc(L.node), sound=True)
    p = med[2][0]
    ok = None
    if p[0] == "bin" and p[1] == "*":
        a, b = p[2], p[3]
        has_nl = lambda t: any(z == NL for z in walk(t))
        if has_nl(a) != has_nl(b):
            x, y = (b, a) if has_nl(a) else (a, b)
            x = row_bcast(x)
            ok = tri(eqv(x, ("sub", VEC, i)), eqv(y[1], VEC) if y[0] == "sub" else None, nbr_slice_tri(y[2], NL, i) if y[0] == "sub" else None)
    run.ob("R-IDX", fq, "dot-products", ok, "d_ij = e_i . e_j for j over columns 1..cn_i of row i (component sum over axis 1)", show(med)[:110],
           witness=None if ok else "count column / padding used as neighbour, or another particle's row", loc=loc_of(it, mev), sound=True)
    if fname == "local_vector_alignment":
        st = [e for e in stores(it) if e.loops == mev.loops]
        okm = tri(True if len(st) == 1 else None, eqv(st[0].data["target"][2], i), eqv(st[0].data["value"], ("call", ".mean", (med,), ()), ("call", "numpy.mean", (med,), ()))) if st else None
        run.ob("R-ALG", fq, "alignment", okm, "result[i] = mean over the neighbours of e_i . e_j", key_of(st[0])[:80] if st else "?", witness=None if okm else "sum instead of mean / stored at another index", loc=fi.loc(), sound=True)
        okr = len(it.returns) == 1 and st and it.returns[0].data["value"] == st[0].data["target"][1]
        run.ob("R-ALG", fq, "return", True if okr else None, "the per-particle array is returned", "", witness=None if okr else "another array returned", loc=fi.loc())
    else:
        ret = it.returns[0].data["value"]
        ok2 = None
        if ret[0] == "bin" and ret[1] == "/":
            num, den = ret[2], ret[3]

            def acc(t, *wants, same=False):
                sa = split_acc(t)
                if sa is None or sa[0][3] not in (C(0), C(0.0)):
                    return None
                return eqv(sa[1], *wants, same=same)
            ok2 = tri(acc(num, ("call", ".sum", (med,), ())), acc(den, ("call", ".sum", (("call", "numpy.abs", (med,), ()),), ()), ("call", ".sum", (("call", "numpy.absolute", (med,), ()),), ()), same=True))
        run.ob("R-ALG", fq, "quotient", ok2, "phase quotient = sum_ij d_ij / sum_ij |d_ij| (both sums from 0 over all particles and neighbours)", show(ret)[:110],
               witness=None if ok2 else "denominator is not the sum of absolute values: result may leave [-1, 1]", loc=fi.loc(), sound=True)


def vectorised_neighbour_dot(run, pkg, it, fq, fname, NL):
    """Loop-free form (possibly through a small helper): the extracted return term, with helpers inlined and the neighbour
    table as a free variable, is decided on small zero-padded neighbour tables with unequal coordination numbers."""
    import numpy as np
    from ..concrete import ev as cev, Unsupported
    from ..vg import inline_calls
    fi = it.fi
    if len(it.returns) != 1:
        raise AnalysisError(f"{fq}: neighbour dot products not found")
    ret = inline_calls(pkg, it.returns[0].data["value"])
    # the returned term is the whole computation only if nothing it contains is filled in by stores / loops
    if it.loops or any(e.data["target"][1] in set(walk(ret)) for e in stores(it)):
        run.ob("R-ALG", fq, "form", None, "neighbour dot-product form recognised", "per-particle loop whose dot products are not the component-sum form", loc=fi.loc())
        return
    CN = ("sym", "<cnlist>")
    ret = subst(ret, lambda x: CN if x == NL else None)
    rng = np.random.default_rng(11)
    bad = None
    try:
        for trial in range(4):
            N, d = 6, 2 + trial % 2
            Vm = rng.normal(size=(N, d))
            cns = [2, 4, 1, 3, 2, 4] if trial % 2 == 0 else [4, 1, 2, 2, 3, 1]
            cn = np.zeros((N, 5), dtype=int)
            for i_ in range(N):
                others = [j for j in range(N) if j != i_]
                rng.shuffle(others)
                cn[i_, 0] = cns[i_]
                cn[i_, 1:1 + cns[i_]] = others[:cns[i_]]
            dots = [np.array([Vm[i_] @ Vm[j] for j in cn[i_, 1:1 + cn[i_, 0]]]) for i_ in range(N)]
            if fname == "local_vector_alignment":
                want = np.array([x.mean() for x in dots])
            else:
                want = sum(x.sum() for x in dots) / sum(np.abs(x).sum() for x in dots)
            got = np.asarray(cev(ret, {VEC: Vm, CN: cn}))
            if got.shape != np.shape(want) or not np.allclose(got, want):
                if got.ndim == 1 and got.shape == np.shape(want):
                    k = int(np.argmax(np.abs(got - want)))
                    bad = (f"neighbour table with coordination numbers {cns} (zero padded to 4 columns): particle {k} (cn={cns[k]}) gets {got[k]:.5f} instead of {want[k]:.5f}")
                else:
                    bad = f"neighbour table with coordination numbers {cns}: result {np.round(got, 5).tolist() if got.ndim == 0 else got.shape} instead of {np.round(want, 5).tolist() if np.ndim(want) == 0 else np.shape(want)}"
                break
        what = "result[i] = mean over the cn_i listed neighbours of e_i . e_j" if fname == "local_vector_alignment" else "phase quotient = sum d_ij / sum |d_ij| over listed neighbours"
        run.ob("R-ALG", fq, "alignment" if fname == "local_vector_alignment" else "quotient", bad is None, what + " (zero padding and the count column excluded), vectorised form decided on 4 padded neighbour tables",
               show(ret)[:140], witness=bad, loc=fi.loc(), sound=True)   # concrete neighbour table on which the extracted term differs
    except (Unsupported, Exception) as e:  # noqa
        run.ob("R-ALG", fq, "form", None, "neighbour dot-product form recognised", f"{type(e).__name__}: {str(e)[:100]}", loc=fi.loc())


def check_divcurl(run, pkg):
    for ndim in (2, 3):
        def assume(c, ndim=ndim):
            if c[0] == "cmp" and c[1] == "==" and is_const(c[3]) and c[2] == ("elem", ("attr", VEC, "shape"), 1):
                return c[3][1] == ndim
            return None
        it = Interp(pkg, pkg.func(f"{MOD}.divergence_curl"), assume=assume)
        fi = it.fi
        fq = short(fi.qual)
        tag = f"{ndim}D"
        NL, rd = nbr_table(it, fq, None)
        N = ("elem", ("attr", VEC, "shape"), 0)
        dv = [e for e in stores(it) if len(e.loops) == 1 and e.data["value"][0] == "call" and e.data["value"][1] in (".mean", "numpy.mean")]
        if len(dv) != 1:
            raise AnalysisError(f"{fq}[{tag}]: divergence store not found")
        ev = dv[0]
        loc = loc_of(it, ev)
        L = it.loops[ev.loops[0]]
        i = L.target
        okd = eqv(L.iter, ("call", "builtins.range", (N,), ()))
        run.ob("R-LOOPDOM", fq, f"{tag}:particles", okd, "every particle is visited", show(L.iter)[:60], witness=None if okd else "particles skipped", loc=fi.loc(L.node), sound=True)
        inner = ev.data["value"][2][0]
        R = U = None
        if inner[0] == "call" and inner[1] == ".sum" and kw(inner, "axis", 1) == C(1) and inner[2][0][0] == "bin" and inner[2][0][1] == "*":
            a, b = inner[2][0][2], inner[2][0][3]
            has_pos = lambda t: any(x[0] == "attr" and x[2] == "positions" for x in walk(t))
            R, U = (a, b) if has_pos(a) else (b, a)
        if R is None:
            run.ob("R-PBC", fq, f"{tag}:image", None, "divergence kernel recognised", show(inner)[:100], loc=loc)
            continue
        if pbc_args(R) is None:
            from . import grlib
            iv = grlib.find_inline_image(strip_alloc(R)) if has_pos(R) else ("unknown", "")
            if iv[0] == "bad":
                run.ob("R-PBC", fq, f"{tag}:image", False, "relative positions are minimum-image vectors (inline re-implementation decided against R - (mask (.) nearest(R H^-1)) H)", show(R)[:100],
                       witness=iv[1], loc=loc, sound=True)
                continue
            if iv[0] == "ok":
                run.ob("R-PBC", fq, f"{tag}:image", True, "relative positions are minimum-image vectors (inline re-implementation verified against the reference form)", show(R)[:100], loc=loc)
                continue
            raw = has_pos(R) and no_wrap_possible(R)
            run.ob("R-PBC", fq, f"{tag}:image", False if raw else None, "relative positions are minimum-image vectors", show(R)[:100],
                   witness="neighbours across the periodic boundary give box-length r_ij: divergence and curl blow up at the faces" if raw else None, loc=loc, sound=True)
            continue
        bv = bond_vectors(R)
        okb = tri(eqv(bv["snap"], ("sym", "snapshot")), nbr_slice_tri(bv["left"], NL, i), eqv(bv["right"], i)) if bv is not None else None
        run.ob("R-PBC", fq, f"{tag}:rij", okb, "r_ij = positions[neighbours of i] - positions[i] (columns 1..cn_i)", show(R)[:90], witness=None if okb else "relative positions not from i to its neighbours", loc=loc, sound=True)
        if bv is not None:
            okh = tri(eqv(bv["H"], ("attr", ("sym", "snapshot"), "hmatrix")), eqv(bv["ppp"], ("sym", "ppp")) if bv["ppp"] is not None else False)
            run.ob("R-PBC", fq, f"{tag}:cell-mask", okh, "minimum image uses the snapshot's cell and the caller's mask", f"{show(bv['H'])[:30]}, {show(bv['ppp'])[:20] if bv['ppp'] else 'default'}",
                   witness=None if okh else "cell / mask not forwarded", loc=loc, sound=True)
        oku = tri(eqv(U[2][1], VEC), eqv(U[2][2], bv["left"]), eqv(row_bcast(U[3]), ("sub", VEC, i))) if (U[0] == "bin" and U[1] == "-" and U[2][0] == "sub" and bv is not None) else None
        run.ob("R-ALIGN", fq, f"{tag}:uij", oku, "u_ij = vector[same neighbours] - vector[i]: same slice and centre as r_ij", show(U)[:90],
               witness=None if oku else "field differences belong to other particles than the position differences", loc=loc, sound=True)
        okt = eqv(ev.data["target"][2], i)
        run.ob("R-ALG", fq, f"{tag}:divergence", okt, "divergence[i] = mean over neighbours of r_ij . u_ij", key_of(ev)[:80], witness=None if okt else "stored at another index", loc=loc, sound=True)
        if ndim == 3:
            cr = [e for e in stores(it) if e.data["op"] == "+" and len(e.loops) == 2]
            dvs = [e for e in stores(it) if e.data["op"] == "/" and e.loops == ev.loops]
            okc = None
            rev = False
            if len(cr) == 1 and not dvs:
                carr = cr[0].data["target"][1]
                any_div = [e for e in it.events if (e.kind == "aug" and e.data["op"] in ("/", "*")) or (e.kind == "store" and e.data["op"] in ("/", "*")) or
                           (e.kind in ("assign", "store") and any(x[0] == "bin" and x[1] in ("/", "*") and carr in (x[2], x[3]) for x in walk(e.data["value"])))]
                if not any_div:
                    okc = False        # the cross products are summed and nothing ever rescales the sum
            if len(cr) == 1 and len(dvs) == 1:
                Lj = it.loops[cr[0].loops[1]]
                j = Lj.target
                v = cr[0].data["value"]
                okc = tri(eqv(Lj.iter, ("call", "builtins.range", (nbr_count(NL, i),), ())), eqv(cr[0].data["target"][2], i), eqv(v, ("call", "numpy.cross", (("sub", R, j), ("sub", U, j)), ())), True if (dvs[0].data["target"] == cr[0].data["target"]) else None, eqv(dvs[0].data["value"], nbr_count(NL, i)), True if (dvs[0].seq > cr[0].seq) else None)
                rev = v == ("call", "numpy.cross", (("sub", U, j), ("sub", R, j)), ())
                if rev:
                    okc = False
            run.ob("R-ALG", fq, "3D:curl", okc, "curl[i] = sum_j r_ij x u_ij / cn_i (r first, u second; same bond j in both)", key_of(cr[0])[:80] if cr else "?",
                   witness=None if okc else ("u x r: the curl changes sign" if cr and rev else "curl is not the neighbour average of r x u"), loc=loc_of(it, cr[0]) if cr else fi.loc(), sound=True)
            ret = [r for r in it.returns]
            okr = len(ret) == 1 and ret[0].data["value"][0] == "tuple" and ret[0].data["value"][1][0] == ev.data["target"][1] and cr and ret[0].data["value"][1][1] == cr[0].data["target"][1]
            run.ob("R-ALG", fq, "3D:return", True if okr else None, "3D returns (divergence, curl)", "", witness=None if okr else "return order changed", loc=fi.loc())
        else:
            okr = len(it.returns) == 1 and it.returns[0].data["value"] == ev.data["target"][1]
            run.ob("R-ALG", fq, "2D:return", True if okr else None, "2D returns the divergence", "", witness=None if okr else "2D return changed", loc=fi.loc())


def check_vibrability(run, pkg):
    it = interp(pkg, f"{MOD}.vibrability")
    fi = it.fi
    fq = short(fi.qual)
    au = [e for e in it.events if e.kind == "aug" and e.data["op"] == "+" and len(e.loops) == 1]
    if len(au) != 1:
        raise AnalysisError(f"{fq}: accumulation not found")
    ev = au[0]
    L = it.loops[ev.loops[0]]
    k = L.target
    EV, FR, N = ("sym", "eigenvectors"), ("sym", "eigenfrequencies"), ("sym", "num_of_partices")
    okd = eqv(L.iter, ("call", "builtins.range", (("sub", ("attr", EV, "shape"), C(1)),), ()))
    run.ob("R-LOOPDOM", fq, "modes", okd, "the sum runs over all modes (columns of the eigenvector matrix)", show(L.iter)[:60], witness=None if okd else "modes skipped / rows counted", loc=fi.loc(L.node), sound=True)
    v = ev.data["value"]
    mode = ("call", ".reshape", (("sub", EV, ("tuple", (FULL, k))), N, C(-1)), ())
    want = ("bin", "/", ("call", ".sum", (("call", "numpy.square", (mode,), ()),), (("axis", C(1)),)), ("sub", ("call", "numpy.square", (FR,), ()), k))
    ok = eqv(push_sub(v), push_sub(want))
    rowmode = any(x == ("sub", EV, k) or x == ("sub", EV, ("tuple", (k, FULL))) for x in walk(v))
    if rowmode and not any(x == ("sub", EV, ("tuple", (FULL, k))) for x in walk(v)):
        ok = False
    run.ob("R-IDX", fq, "term", ok, "mode k contributes |e_k,i|^2 / omega_k^2 with e_k = column k reshaped to (N, d)", show(v)[:120],
           witness=None if ok else ("row k used as mode k: eigh returns modes as columns" if rowmode else "term differs from |e_k,i|^2 / omega_k^2"), loc=loc_of(it, ev), sound=True)
    okinit = tri_lazy(lambda: (True if (ev.data["old"][0] == "mu") else None), lambda: eqv(ev.data["old"][3], ("call", "numpy.zeros", (N,), ())))
    okret = len(it.returns) == 1 and it.returns[0].data["value"] == ev.data["new"]
    run.ob("R-ALG", fq, "sum", tri(okinit, True if okret else None), "the per-particle sum starts at zero and is returned", "", witness=None if okinit and okret else "initial value / return changed", loc=fi.loc(), sound=True)


def check_split(run, pkg):
    it = interp(pkg, f"{MOD}.vector_decomposition_sq")
    fi = it.fi
    fq = short(fi.qual)
    CS = "PyMatterSim.static.sq.conditional_sq"
    cs = calls(it, CS)
    if len(cs) != 1:
        raise AnalysisError(f"{fq}: expected one conditional_sq call")
    okc = True if cs[0].data["call"][2] == (("sym", "snapshot"), ("sym", "qvector"), VEC) else None
    run.ob("R-ALIGN", fq, "transform", okc, "the transform is conditional_sq(snapshot, qvector, vector) (vector kind)", show(cs[0].data["call"])[:90], witness=None if okc else "arguments permuted", loc=loc_of(it, cs[0]))
    F0 = ("sub", cs[0].data["result"], C(0))
    # R-EFFECT: nothing derived from .values is modified in place
    bad = None
    for e in it.events:
        tgt = None
        if e.kind == "aug" and not e.data.get("rebind"):
            tgt = e.data["old"]
        elif e.kind == "store" and e.data["target"][0] == "sub":
            tgt = e.data["target"][1]
        if tgt is not None:
            t = tgt
            while t[0] == "sub":
                t = t[1]
            if t[0] == "attr" and t[2] == "values":
                bad = e
    run.ob("R-EFFECT", fq, "values-readonly", bad is None, "arrays taken from DataFrame.values are not modified in place (read-only views under pandas >= 3)",
           key_of(bad)[:80] if bad else "no in-place use", witness=None if bad is None else "ValueError: output array is read-only (pandas 3) / silent edit of the frame (pandas < 3)", loc=loc_of(it, bad) if bad else fi.loc(), sound=True)
    st = [e for e in stores(it) if len(e.loops) == 1 and e.data["target"][1][0] == "call" and e.data["target"][1][1] == "numpy.zeros_like"]
    if len(st) != 1:
        raise AnalysisError(f"{fq}: longitudinal store not found")
    ev = st[0]
    loc = loc_of(it, ev)
    L = it.loops[ev.loops[0]]
    n = L.target
    if ev.data["target"][2] != n:
        # not the row-by-row (one wave vector per iteration) form the rules below are written for
        run.ob("R-ALG", fq, "longitudinal", None, "longitudinal part is filled row by row, one wave vector per iteration", f"store target index {show(ev.data['target'][2])[:40]}", loc=loc)
        return
    # the loop covers every row: range(A.shape[0]) / range(len(A)) for any array with one row per wave vector (the wave-vector
    # list itself, the unit vectors, the transformed field, the array being filled).  Definitely wrong only when the bound is
    # such a row count minus a positive constant or the start is a positive constant; anything else is undecided.
    def _rows_of(t):
        if t[0] == "sub" and t[1][0] == "attr" and t[1][2] == "shape" and t[2] == C(0):
            return t[1][1]
        if t[0] == "call" and t[1] == "builtins.len" and len(t[2]) == 1:
            return t[2][0]
        return None
    okd = None
    if L.iter is not None and L.iter[0] == "call" and L.iter[1] == "builtins.range" and not L.iter[3]:
        ra = L.iter[2]
        lo, hi = (C(0), ra[0]) if len(ra) == 1 else ((ra[0], ra[1]) if len(ra) == 2 else (None, None))
        if hi is not None:
            if _rows_of(hi) is not None and lo == C(0):
                okd = True          # one iteration per row of an array of the table (all share the row count of the wave-vector list)
            elif is_const(lo) and isinstance(lo[1], int) and lo[1] > 0 and _rows_of(hi) is not None:
                okd = False
            elif hi[0] == "bin" and hi[1] == "-" and _rows_of(hi[2]) is not None and is_const(hi[3]) and isinstance(hi[3][1], int) and hi[3][1] > 0:
                okd = False
    run.ob("R-LOOPDOM", fq, "wavevectors", okd, "every wave vector is decomposed", show(L.iter)[:60], witness=None if okd else "wave vectors skipped", loc=fi.loc(L.node), sound=True)
    Lz = ev.data["target"][1]
    Fc = Lz[2][0]
    nd = ("sub", ("attr", ("sym", "qvector"), "shape"), C(1))

    def cols(prefix):
        return ("comp", "list", ("fstr", (C(prefix), ("fmt", None, ""))), None)

    def is_cols(t, prefix, base):
        """base[[f'{prefix}{i}' for i in range(ndim)]].values"""
        if not (t[0] == "attr" and t[2] == "values" and t[1][0] == "sub" and t[1][1] == base):
            return False
        c = t[1][2]
        return c[0] == "comp" and len(c[3]) == 1 and c[3][0][1] == ("call", "builtins.range", (nd,), ()) and c[2][0] == "fstr" and c[2][1][0] == C(prefix) and c[2][1][1][1] == c[3][0][0]
    okF = is_cols(Fc, "FFT", F0)
    run.ob("R-IDX", fq, "fft-columns", True if okF else None, "F(q) = the FFT0..FFT{d-1} columns of the transform", show(Fc)[:90], witness=None if okF else "other columns decomposed", loc=loc)
    v = ev.data["value"]
    U = None
    okL = None
    if v[0] == "bin" and v[1] == "*":
        a, b = v[2], v[3]
        for x, y in ((a, b), (b, a)):
            if x[0] == "sub" and x[2] == n and y[0] == "call" and y[1] in ("numpy.dot", "numpy.vdot", "numpy.inner") and len(y[2]) == 2:
                U = x[1]
                d = y[2]
                hasF = lambda t: any(z == Fc for z in walk(t))
                if hasF(d[0]) != hasF(d[1]) and y[1] != "numpy.vdot":
                    du, dF = (d[1], d[0]) if hasF(d[0]) else (d[0], d[1])
                    okL = tri(eqv(ev.data["target"][2], n), eqv(du, ("sub", U, n)), eqv(dF, ("sub", Fc, n)))
    run.ob("R-ALG", fq, "longitudinal", okL, "L(q_n) = u_n (u_n . F(q_n)) with u_n real (no conjugation of F)", show(v)[:110], witness=None if okL else "projection is not along q / uses another wave vector's transform", loc=loc, sound=True)
    if U is not None:
        oku = tri_lazy(lambda: (True if (U[0] == "bin") else None), lambda: (True if (U[1] == "/") else None), lambda: (True if (is_cols(U[2], "q", F0)) else None), lambda: eqv(col_bcast(U[3]), ("attr", ("sub", F0, C("q")), "values")), lambda: (True if (U[3] != col_bcast(U[3])) else None))
        if is_cols(U, "q", F0):
            oku = False            # the raw wave-vector columns themselves, never divided by |q|
        wit_u = "u is not a unit vector along q: L is not a projection, S != S_L + S_T"
        if oku is None:
            # definite: the direction is computed from the integer wave-vector argument alone - no box length, nothing of the
            # transform's table of physical wave vectors 2 pi n / L enters it
            leaves = [z for z in walk(U) if z[0] in ("sym", "attr", "call")]
            uses_n = any(z == ("sym", "qvector") for z in leaves)
            uses_box = any((z[0] == "attr" and z[2] in ("boxlength", "hmatrix", "boxbounds", "realbounds")) or z == F0 or
                           (z[0] == "call" and isinstance(z[1], str) and z[1].startswith("PyMatterSim.")) for z in leaves)
            other_syms = {z[1] for z in leaves if z[0] == "sym"} - {"qvector"}
            if uses_n and not uses_box and not other_syms:
                oku = False
                wit_u = ("the direction is taken from the integer vector n, but q = 2 pi n / L per axis: in a 10 x 16 box n = (1, 1) gives n/|n| = (0.707, 0.707) "
                         "while q/|q| = (0.848, 0.530) - L is not parallel to q and T is not orthogonal to it")
        try:
            # the columns the unit vector is read from are filled by conditional_sq: they must hold the scaled wave vector
            from . import c13 as _c13
            it_sq = _c13.sq_interp(pkg, "vector")
            df_sq = [e.data["value"] for e in it_sq.events if e.kind == "assign" and e.data["name"] == "sqresults" and e.data["value"][0] == "call" and e.data["value"][1] == "pandas.DataFrame"]
            st_sq = {e.data["target"][2][1]: e for e in stores(it_sq) if df_sq and e.data["target"][1] == df_sq[0] and is_const(e.data["target"][2])}
            Qsq = is_rowwise_norm(st_sq["q"].data["value"]) if "q" in st_sq else None
            _c13.q_components(run, it_sq, short(it_sq.fi.qual), "vector", Qsq)
        except AnalysisError:
            raise
        except Exception as _e:  # noqa
            run.ob("R-ALG", fq, "unit-q:source-columns", None, "columns q0..q{d-1} of the transform's table analysed", f"{type(_e).__name__}", loc=loc)
        run.ob("R-ALG", fq, "unit-q", oku, "u = (q0..q{d-1}) / |q| row by row, both from the transform's own table", show(U)[:110], witness=None if oku else wit_u, loc=loc, sound=True)
    # transverse := F - L
    Tt = None
    okT = None
    for e in it.events:
        if e.kind == "assign" and e.data["value"] == ("bin", "-", Fc, Lz):
            Tt = e.data["value"]
            okT = True
    if Tt is None:
        for e in it.events:
            if e.kind == "assign" and e.data["value"][0] == "bin" and {e.data["value"][2], e.data["value"][3]} == {Fc, Lz}:
                okT = eqv(e.data["value"], ("bin", "-", Fc, Lz))
    run.ob("R-ALG", fq, "transverse", okT, "T := F - L (so F = L + T and, L being the projection on u, S = S_L + S_T)", show(Tt)[:60] if Tt else "not found",
           witness=None if Tt is not None else "T is not the remainder of the projection: L + T != F", loc=fi.loc(), sound=True)
    # spectra columns
    ret = it.returns[0].data["value"] if len(it.returns) == 1 else None
    for nm, X in (("Sq_T", Tt), ("Sq_L", Lz)):
        ss = [e for e in stores(it) if e.data["target"][0] == "sub" and e.data["target"][2] == C(nm)]
        ok = eqv(ss[0].data["value"], ("attr", ("call", ".sum", (("bin", "*", X, ("call", "numpy.conj", (X,), ())),), (("axis", C(1)),)), "real"),
                 ("call", ".sum", (("bin", "**", ("call", "numpy.abs", (X,), ()), C(2)),), (("axis", C(1)),)), same=True) if (len(ss) == 1 and X is not None) else None
        wit_s = f"{nm} is not |X|^2"
        if ok is None and len(ss) == 1 and X is not None:
            # the documented form times / divided by a scalar that is not 1 (a per-polarisation or per-dimension factor)
            v_ = ss[0].data["value"]
            forms = (("attr", ("call", ".sum", (("bin", "*", X, ("call", "numpy.conj", (X,), ())),), (("axis", C(1)),)), "real"),
                     ("call", ".sum", (("bin", "**", ("call", "numpy.abs", (X,), ()), C(2)),), (("axis", C(1)),)))
            if v_[0] == "bin" and v_[1] in ("/", "*"):
                core, fac = (v_[2], v_[3]) if eqv(v_[2], *forms, same=True) is True else ((v_[3], v_[2]) if (v_[1] == "*" and eqv(v_[3], *forms, same=True) is True) else (None, None))
                if core is not None and not (is_const(fac) and fac[1] == 1) and not any(x == X for x in walk(fac)):
                    ok = False
                    wit_s = (f"{nm} is |X|^2 {'divided' if v_[1] == '/' else 'multiplied'} by {show(fac)[:30]}: the spectra no longer add up, S != S_L + S_T, whenever that factor differs from 1 "
                             f"(e.g. ndim - 1 = 2 in three dimensions)")
        run.ob("R-ALG", fq, nm, ok, f"{nm} = Re sum_c X_c conj(X_c) of the {'transverse' if nm == 'Sq_T' else 'longitudinal'} part", key_of(ss[0])[:90] if ss else "?", witness=None if ok else wit_s, loc=fi.loc(), sound=True)
    if ret is not None and ret[0] == "tuple" and len(ret[1]) == 2:
        full, ave = ret[1]
        okround = full[0] == "call" and full[1] == ".round"
        want = ("call", ".reset_index", (("call", ".mean", (("call", ".groupby", (("sub", full, ("list", (C("Sq"), C("Sq_T"), C("Sq_L")))), ("sub", full, C("q"))), ()),), ()),), ())
        oka = ave == want
        run.ob("R-ORDER", fq, "average", True if (okround and oka) else None, "the table is rounded, then Sq, Sq_T, Sq_L are averaged over equal |q|; (table, average) returned", show(ave)[:100],
               witness=None if okround and oka else "grouping before rounding / other columns averaged", loc=fi.loc())
        sv = calls(it, ".to_csv")
        oks = all(e.data["call"][2][0] == ave for e in sv)
        run.ob("R-SAVE", fq, "csv", True if oks else None, "the CSV holds the returned average", f"{len(sv)} saves", witness=None if oks else "file differs from returned table", loc=fi.loc())


def check_fft_corr(run, pkg):
    it = interp(pkg, f"{MOD}.vector_fft_corr")
    fi = it.fi
    fq = short(fi.qual)
    DEC = pkg.func(f"{MOD}.vector_decomposition_sq").qual
    cs = calls(it, DEC)
    if len(cs) != 1 or len(cs[0].loops) != 1:
        raise AnalysisError(f"{fq}: expected one decomposition per frame")
    L = it.loops[cs[0].loops[0]]
    n, snap = ("elem", L.target, 0), ("elem", L.target, 1)
    k = dict(cs[0].data["call"][3])
    for p_, a_ in zip(pkg.func(DEC).params, cs[0].data["call"][2]):
        k[p_] = a_
    ok = tri_lazy(lambda: eqv(L.iter, ("call", "builtins.enumerate", (("attr", ("sym", "snapshots"), "snapshots"),), ())), lambda: (True if (k.get("snapshot") == snap) else None), lambda: eqv(k.get("qvector"), ("sym", "qvector")), lambda: eqv(k.get("vector"), ("sub", ("sym", "vectors"), n)))
    run.ob("R-ALIGN", fq, "per-frame", ok, "frame n is decomposed with the field of frame n and the caller's wave vectors", ", ".join(f"{a}={show(b)[:30]}" for a, b in k.items()),
           witness=None if ok else "field of another frame used", loc=loc_of(it, cs[0]), sound=True)
    tc = calls(it, "PyMatterSim.dynamic.time_corr.time_correlation")
    hdrs = sorted({show(x) for e in tc for x in walk(e.data["call"]) if x[0] == "fstr"})
    okh = len(tc) == 3
    run.ob("R-LOOPDOM", fq, "column-groups", True if okh else None, "FFT, T_FFT and L_FFT are each time-correlated", f"{len(tc)} correlation sites (header loop unrolled)", witness=None if okh else "a column group is not correlated", loc=fi.loc())
    for e in tc:
        kk = dict(e.data["call"][3])
        c = kk.get("condition")
        Lq = it.loops[e.loops[-1]] if e.loops else None
        okq = tri_lazy(lambda: (True if (Lq is not None) else None), lambda: eqv(Lq.iter, ("call", "builtins.range", (("sub", ("attr", ("sym", "qvector"), "shape"), C(0)),), ())))
        oks = tri_lazy(lambda: eqv(kk.get("snapshots"), ("sym", "snapshots")), lambda: eqv(kk.get("dt"), ("sym", "dt")))
        okc = None
        if c is not None and c[0] == "call" and c[1] == "numpy.array" and c[2][0][0] == "comp":
            comp = c[2][0]
            item = comp[3][0][0]
            src = comp[3][0][1]
            okc = True if (comp[2][0] == "sub" and comp[2][2] == Lq.target and comp[2][1][0] == "attr" and comp[2][1][2] == "values" and comp[2][1][1][0] == "sub" and comp[2][1][1][1] == item and src[0] == "appended") else None
        run.ob("R-ALIGN", fq, f"series@{e.lineno}:{show(kk.get('condition'))[20:50]}", tri(okq, oks, okc), "for wave vector n the series is row n of that column group in every frame, in frame order; trajectory and dt forwarded",
               show(c)[:100] if c else "?", witness=None if okq and oks and okc else "series mixes wave vectors / frames", loc=loc_of(it, e), sound=True)
