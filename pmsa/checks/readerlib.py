"""Shared analysis of the LAMMPS text-dump readers (read_lammps, read_lammps_centertype, read_lammps_vector)."""
from __future__ import annotations

from typing import Any, Dict, List, Optional, Tuple

import sympy as sp

from .common import *  # noqa
from ..arr import ArrEval, ROW, NoEntry
from ..vg import Interp, strip_alloc

MOD = "reader.lammps_reader_helper"


class ReaderRun:
    """One abstract interpretation of a reader for a (ndim, cell kind, coordinate style) configuration."""

    def __init__(self, pkg: Package, fname: str, ndim: int, tri: bool, style: str):
        self.pkg, self.fname, self.ndim, self.tri, self.style = pkg, fname, ndim, tri, style
        self.asked: List[Term] = []
        fi = pkg.func(f"{MOD}.{fname}")

        def assume(c):
            if c[0] == "cmp" and c[1] in ("in", "not in") and is_const(c[2]) and isinstance(c[2][1], str):
                s = c[2][1]
                self.asked.append(c)
                if s == "xy":
                    r = tri
                elif s in ("x", "xs", "xu"):
                    r = (s == style)
                else:
                    return None
                return r if c[1] == "in" else (not r)
            if c[0] == "cmp" and c[1] == "==" and c[2] == C(ndim):
                return None
            return None
        self.it = Interp(pkg, fi, bind={"ndim": C(ndim)}, assume=assume, track_alloc=True)
        self.fi = fi
        self.fq = short(fi.qual)
        self.ae = ArrEval(self.it)
        # line numbering: header readlines in order; the readline inside a symbolic loop is the atom line
        self.header_ids: List[int] = []
        self.atom_ids: List[int] = []
        self.atom_loops: List[int] = []
        self.comp_reads = []     # readline() evaluated per element of a comprehension: (event, generators)
        for ev in self.it.events:
            if ev.kind == "call" and ev.data["call"][1] == ".readline":
                uid = dict(ev.data["call"][3])["@"][1]
                if ev.data.get("in_comp"):
                    # one line per element of the comprehension - an atom block when it runs over the particle count, otherwise
                    # an unknown number of lines: never a single header line
                    self.comp_reads.append((ev, ev.data["in_comp"]))
                    if not ev.loops:
                        self.atom_ids.append(uid)
                        self.atom_loops.append(None)
                    continue
                if ev.loops:
                    self.atom_ids.append(uid)
                    self.atom_loops.append(ev.loops[-1])
                else:
                    self.header_ids.append(uid)
        # the line model numbers header lines by the order of their readline() calls: it is valid only when every line read
        # inside a loop that could not be unrolled (the atom block) comes after all header lines
        seqs_loop = [ev.seq for ev in self.it.events if ev.kind == "call" and ev.data["call"][1] == ".readline" and (ev.loops or ev.data.get("in_comp"))]
        seqs_hdr = [ev.seq for ev in self.it.events if ev.kind == "call" and ev.data["call"][1] == ".readline" and not ev.loops and not ev.data.get("in_comp")]
        if seqs_loop and seqs_hdr and max(seqs_hdr) > min(seqs_loop):
            raise AnalysisError(f"{self.fq}: header lines are read inside a loop that cannot be unrolled for ndim={ndim}; the line-by-line model does not apply")
        self.rets = [r for r in self.it.returns if r.data["value"][0] == "call"]
        self.none_rets = [r for r in self.it.returns if r.data["value"] == NONE]

    def line_of(self, t: Term) -> Optional[Any]:
        """readline call term -> header line index | 'ATOM'"""
        if t[0] == "call" and t[1] == ".readline":
            uid = dict(t[3]).get("@", (None, None))[1]
            if uid in self.header_ids:
                return self.header_ids.index(uid)
            if uid in self.atom_ids:
                return "ATOM"
        return None

    def token(self, t: Term) -> Optional[Tuple[Any, int]]:
        """tokens[c] of a line -> (line, c)"""
        if t[0] == "sub" and is_const(t[2]) and isinstance(t[2][1], int) and t[1][0] == "call" and t[1][1] == ".split" and t[1][2]:
            ln = self.line_of(t[1][2][0])
            if ln is not None:
                return ln, t[2][1]
        return None

    def atom_of(self):
        def f(t):
            tk = self.token(t)
            if tk is not None:
                ln, c = tk
                if c < 0:
                    # counted from the end of the line: a different column as soon as the line has extra trailing columns
                    return sp.Symbol(f"aEND{-c}", real=True) if ln == "ATOM" else sp.Symbol(f"L{ln}_END{-c}", real=True)
                return sp.Symbol(f"a{c}", real=True) if ln == "ATOM" else sp.Symbol(f"L{ln}_{c}", real=True)
            if t[0] == "call" and t[1] in ("builtins.float", "builtins.int", "numpy.float64") and len(t[2]) == 1:
                inner = t[2][0]
                tk2 = self.token(inner)
                if tk2 is not None:
                    return f(inner)
                ln = self.line_of(inner)
                if ln is not None and ln != "ATOM":
                    return sp.Symbol(f"L{ln}_0", real=True)
                return None
            return None
        return f

    def kwargs(self) -> Dict[str, Term]:
        if len(self.rets) != 1:
            raise AnalysisError(f"{self.fq}[{self.cfg()}]: expected exactly one snapshot-constructing return, found {len(self.rets)}")
        call = self.rets[0].data["value"]
        out = dict((k, v) for k, v in call[3] if k != "@")
        ctor = self.pkg.cls("reader.reader_utils.SingleSnapshot")
        for i, a in enumerate(call[2]):
            if i < len(ctor.fields):
                out[ctor.fields[i]] = a
        return out

    def cfg(self) -> str:
        return f"{self.ndim}D/{'triclinic' if self.tri else 'orthogonal'}/{self.style}"


def sym_b(r: int, c: int) -> sp.Symbol:
    """token c of bounds line r (header line 5 + r)"""
    return sp.Symbol(f"L{5 + r}_{c}", real=True)


def reference_cell(ndim: int, tri: bool):
    """LAMMPS conventions (docs: Howto_triclinic; quoted in dump_reader.py's docstring)."""
    b = [[sym_b(r, c) for c in range(3)] for r in range(3)]
    if not tri:
        lo = [b[r][0] for r in range(ndim)]
        hi = [b[r][1] for r in range(ndim)]
        L = [hi[r] - lo[r] for r in range(ndim)]
        H = [[L[r] if r == c else sp.Integer(0) for c in range(ndim)] for r in range(ndim)]
        return {"bounds": [(lo[r], hi[r]) for r in range(ndim)], "real": None, "L": L, "H": H, "lo": lo, "hi": hi}
    xy, xz, yz = b[0][2], b[1][2], b[2][2]
    xlo = b[0][0] - sp.Min(0, xy, xz, xy + xz)
    xhi = b[0][1] - sp.Max(0, xy, xz, xy + xz)
    ylo = b[1][0] - sp.Min(0, yz)
    yhi = b[1][1] - sp.Max(0, yz)
    zlo, zhi = b[2][0], b[2][1]
    lo, hi = [xlo, ylo, zlo], [xhi, yhi, zhi]
    L = [hi[r] - lo[r] for r in range(3)]
    H3 = [[L[0], 0, 0], [xy, L[1], 0], [xz, yz, L[2]]]
    H = [[sp.sympify(H3[r][c]) for c in range(ndim)] for r in range(ndim)]
    return {"bounds": [(b[r][0], b[r][1]) for r in range(ndim)], "real": [(lo[r], hi[r]) for r in range(ndim)],
            "L": L[:ndim], "H": H, "lo": lo[:ndim], "hi": hi[:ndim]}


def _rewrite_minmax(e: sp.Expr) -> sp.Expr:
    """Min(0,a) = (a-|a|)/2, Max(0,a) = (a+|a|)/2, Min(0,a,b,a+b) = Min(0,a)+Min(0,b) (likewise Max): exact identities."""
    def rw(x):
        if isinstance(x, (sp.Min, sp.Max)):
            args = [a for a in x.args if a != 0]
            has0 = any(a == 0 for a in x.args)
            sign = -1 if isinstance(x, sp.Min) else 1
            if has0 and len(args) == 1:
                return (args[0] + sign * sp.Abs(args[0])) / 2
            if has0 and len(args) == 3:
                for i in range(3):
                    others = [args[j] for j in range(3) if j != i]
                    if sp.expand(args[i] - others[0] - others[1]) == 0:
                        return (others[0] + sign * sp.Abs(others[0])) / 2 + (others[1] + sign * sp.Abs(others[1])) / 2
        return x
    return e.replace(lambda x: isinstance(x, (sp.Min, sp.Max)), rw)


def eq(a: sp.Expr, b: sp.Expr) -> Tuple[Optional[bool], str]:
    import itertools
    d = sp.expand(_rewrite_minmax(sp.expand(a - b)))
    if d == 0:
        return True, "equal (exact, Min/Max rewritten through |.|)"
    d2 = sp.simplify(d)
    if d2 == 0:
        return True, "equal"
    syms = sorted(d.free_symbols, key=lambda s_: s_.name)
    vals = [sp.Rational(-7, 3), sp.Rational(-1, 2), sp.Rational(0), sp.Rational(3, 4), sp.Rational(5, 2)]
    tilt = [s_ for s_ in syms if s_.name.endswith("_2") and s_.name.startswith("L")]
    other = [s_ for s_ in syms if s_ not in tilt]
    base = {s_: sp.Rational(3 + 2 * i, 7) + i for i, s_ in enumerate(other)}
    for combo in itertools.product(vals, repeat=len(tilt)):
        sub = dict(base)
        sub.update(dict(zip(tilt, combo)))
        v = sp.simplify((a - b).subs(sub))
        if v != 0:
            return False, "differs at " + ", ".join(f"{k}={v_}" for k, v_ in sub.items()) + f": code - reference = {v}"
    return None, f"residue {d2}"
