"""R-API, shared post-pass: every third-party name used unconditionally by a function a check analysed exists in the installed
distribution.  A missing name means the routine raises AttributeError on every input that reaches the statement - the property
cannot hold there.  Uses under a fallback (`getattr(np, "x", None) or np.y`, a conditional expression, an import inside
try/except with another binding of the same name) are left to the rules that understand the fallback (C08, C17)."""
from __future__ import annotations

import ast
import importlib
from typing import Dict, Optional, Set

from .common import *  # noqa

ROOTS = ("numpy", "scipy", "pandas", "freud", "sympy", "math", "cmath")
_CACHE: Dict[str, Optional[bool]] = {}


def resolves(q: str) -> Optional[bool]:
    if q in _CACHE:
        return _CACHE[q]
    parts = q.split(".")
    res: Optional[bool] = None
    for k in range(len(parts), 0, -1):
        try:
            m = importlib.import_module(".".join(parts[:k]))
        except Exception:  # noqa
            continue
        o = m
        try:
            for a in parts[k:]:
                o = getattr(o, a)
            res = True
        except AttributeError:
            res = False
        break
    _CACHE[q] = res
    return res


def guarded_imports(mi) -> Set[str]:
    """qualified names imported inside a try block of the module (a fallback may rebind the local name)"""
    out = set()
    for node in ast.walk(mi.tree):
        if isinstance(node, ast.Try):
            for s in node.body:
                for n in ast.walk(s):
                    if isinstance(n, ast.ImportFrom) and n.module:
                        for a in n.names:
                            out.add(f"{n.module}.{a.name}")
    return out


def api_pass(run: Run, pkg: Package) -> None:
    n = 0
    for fq in sorted(run.functions):
        try:
            fi = pkg.func(fq)
        except Exception:  # noqa
            continue
        it = interp(pkg, fi.qual)
        guarded = guarded_imports(fi.module)
        seen = set()

        def visit(t, soft):
            nonlocal n
            if not (isinstance(t, tuple) and t and isinstance(t[0], str)):
                if isinstance(t, tuple):
                    for y in t:
                        visit(y, soft)
                return
            q = None
            if t[0] == "mod":
                q = t[1]
            elif t[0] == "call" and isinstance(t[1], str) and not t[1].startswith((".", "builtins.", "PyMatterSim.", "undefined.")):
                q = t[1]
            if q and q.split(".")[0] in ROOTS and q not in seen:
                seen.add(q)
                n += 1
                if resolves(q) is False and not soft and q not in guarded:
                    import importlib.metadata as md
                    root = q.split(".")[0]
                    try:
                        ver = md.version(root)
                    except Exception:  # noqa
                        ver = "?"
                    run.ob("R-API", fq, f"api:{q}", False, "third-party names used by the routine exist in the installed distribution", f"{q} is not an attribute of {root} {ver}",
                           witness=f"{fq} raises AttributeError: module has no attribute '{q.rsplit('.', 1)[-1]}' whenever this statement is reached", loc=fi.loc(), sound=True)
            soft2 = soft or t[0] in ("bool", "phi") or (t[0] == "call" and t[1] == "builtins.getattr")
            for y in t[1:]:
                visit(y, soft2)
        for ev in it.events:
            for v in ev.data.values():
                if isinstance(v, tuple):
                    visit(v, False)
    run.extra["api_names_resolved"] = n
