"""R-API, shared post-pass: every third-party name used unconditionally by a function a check analysed exists in the installed
distribution.  A missing name means the routine raises AttributeError on every input that reaches the statement - the property
cannot hold there.  Uses under a fallback (`getattr(np, "x", None) or np.y`, a conditional expression, an import inside
try/except with another binding of the same name) are left to the rules that understand the fallback (C08, C17)."""
from __future__ import annotations

import ast
import importlib
from typing import Dict, Optional, Set

from .common import *  # noqa

ROOTS = ("numpy", "scipy", "pandas", "freud", "sympy", "math", "cmath")
_CACHE: Dict[str, Optional[bool]] = {}


def resolves(q: str) -> Optional[bool]:
    if q in _CACHE:
        return _CACHE[q]
    parts = q.split(".")
    res: Optional[bool] = None
    for k in range(len(parts), 0, -1):
        try:
            m = importlib.import_module(".".join(parts[:k]))
        except Exception:  # noqa
            continue
        o = m
        try:
            for a in parts[k:]:
                o = getattr(o, a)
            res = True
        except AttributeError:
            res = False
        break
    _CACHE[q] = res
    return res


def guarded_imports(mi) -> Set[str]:
    """qualified names imported inside a try block of the module (a fallback may rebind the local name)"""
    out = set()
    for node in ast.walk(mi.tree):
        if isinstance(node, ast.Try):
            for s in node.body:
                for n in ast.walk(s):
                    if isinstance(n, ast.ImportFrom) and n.module:
                        for a in n.names:
                            out.add(f"{n.module}.{a.name}")
    return out


def api_pass(run: Run, pkg: Package) -> None:
    n = 0
    for fq in sorted(run.functions):
        try:
            fi = pkg.func(fq)
        except Exception:  # noqa
            continue
        it = interp(pkg, fi.qual)
        guarded = guarded_imports(fi.module)
        seen = set()

        def visit(t, soft):
            nonlocal n
            if not (isinstance(t, tuple) and t and isinstance(t[0], str)):
                if isinstance(t, tuple):
                    for y in t:
                        visit(y, soft)
                return
            q = None
            if t[0] == "mod":
                q = t[1]
            elif t[0] == "call" and isinstance(t[1], str) and not t[1].startswith((".", "builtins.", "PyMatterSim.", "undefined.")):
                q = t[1]
            if q and q.split(".")[0] in ROOTS and q not in seen:
                seen.add(q)
                n += 1
                if resolves(q) is False and not soft and q not in guarded:
                    import importlib.metadata as md
                    root = q.split(".")[0]
                    try:
                        ver = md.version(root)
                    except Exception:  # noqa
                        ver = "?"
                    run.ob("R-API", fq, f"api:{q}", False, "third-party names used by the routine exist in the installed distribution", f"{q} is not an attribute of {root} {ver}",
                           witness=f"{fq} raises AttributeError: module has no attribute '{q.rsplit('.', 1)[-1]}' whenever this statement is reached", loc=fi.loc(), sound=True)
            soft2 = soft or t[0] in ("bool", "phi") or (t[0] == "call" and t[1] == "builtins.getattr")
            for y in t[1:]:
                visit(y, soft2)
        for ev in it.events:
            for v in ev.data.values():
                if isinstance(v, tuple):
                    visit(v, False)
    run.extra["api_names_resolved"] = n


def alias_pass(run: Run, pkg: Package) -> None:
    """R-ALIAS, shared post-pass: an array allocated OUTSIDE a loop, written inside it and appended to a list inside it (without
    a copy) is one object appended many times - after the loop every entry of the list shows the values of the last iteration.
    (Hoisting a per-frame work array out of the frame loop is the usual way to get there.)"""
    n = 0
    # like the other shared rules (statelib), this one speaks for a property only inside the files the property is anchored in;
    # C18 (all routines) keeps the whole set
    anchor_files = None
    if run.pid != "C18":
        try:
            import json, os
            here = os.path.dirname(os.path.dirname(os.path.dirname(os.path.abspath(__file__))))
            for ln in open(os.path.join(here, "properties.jsonl"), "r", encoding="utf-8"):
                d = json.loads(ln)
                if d.get("id") == run.pid:
                    anchor_files = set(d.get("anchors", {}).get("files", [])) or None
        except Exception:  # noqa
            anchor_files = None
    for fq in sorted(run.functions):
        try:
            fi = pkg.func(fq)
        except Exception:  # noqa
            continue
        if anchor_files is not None and fi.relpath not in anchor_files:
            continue
        it = interp(pkg, fi.qual)
        allocs = {}
        for e in it.events:
            if e.kind == "assign" and e.data["value"][0] == "call" and e.data["value"][1] in ("numpy.zeros", "numpy.empty", "numpy.ones", "numpy.zeros_like", "numpy.empty_like", "numpy.full"):
                allocs.setdefault(e.data["value"], []).append(e)
        if not allocs:
            continue
        for e in it.events:
            if not (e.kind == "call" and e.data["call"][1] == ".append" and len(e.data["call"][2]) == 2 and e.loops):
                continue
            x = e.data["call"][2][1]
            xs = {x}
            while x[0] == "mu" and len(x) > 3 and isinstance(x[3], tuple):
                x = x[3]                  # loop-carried name whose value on entry is the allocation
                xs.add(x)
            if x not in allocs:
                continue
            n += 1
            L = e.loops[-1]
            born_outside = all(L not in b.loops for b in allocs[x])
            written_inside = any(s.kind == "store" and s.data["target"][1] in xs and L in s.loops for s in it.events)
            if born_outside and written_inside:
                run.ob("R-ALIAS", fq, f"appended:{key_of(e)[:60]}", False, "an array appended to a list once per iteration is a fresh object in every iteration", f"{show(x)[:60]} is allocated before the loop",
                       witness=f"the list ends up holding the same array object once per iteration: after the loop every entry equals the values written in the LAST iteration "
                               f"(frames 0..T-2 are lost)", loc=loc_of(it, e), sound=True)
    run.extra["appended_arrays_checked"] = n
