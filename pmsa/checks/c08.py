"""C08 - tabulated spherical harmonics are the standard Y_lm for all angles.

R-TABLE-YLM  every closed form appended by SphHarm{l}(polar, azimuth), l = 1..10 (and the constant
             SphHarm0), equals Y_lm generated from the definition (Rodrigues formula, Condon-Shortley phase),
             identically in both angles; the k-th entry is m = k - l.
R-DISPATCH   sph_harm_l returns, for every l in 1..10, the table of that degree with (theta, phi) in
             order; l > 10 delegates; no degree in the property's domain falls through to None.
R-ANGLE      the delegated call passes (order, degree, azimuth, polar) in the library's convention,
             m runs over range(-l, l+1), the azimuth shift adds 2 pi only when negative.
R-API        the imported library function exists in the installed scipy, or sits in a try/except
             ImportError with a fallback binding the same name.
"""
from __future__ import annotations

import ast
import importlib

import numpy as np
import sympy as sp

from .common import *  # noqa

MOD = "utils.spherical_harmonics"
TH, PH = sp.Symbol("theta", real=True), sp.Symbol("phi", real=True)
c_, s_, z_ = sp.Symbol("c"), sp.Symbol("s"), sp.Symbol("z")


def ylm_reference(l: int, m: int) -> sp.Expr:
    """Y_lm(theta, phi) from the definition, in the variables c = cos(theta), s = sin(theta), z = exp(i phi)."""
    x = sp.Symbol("x")
    am = abs(m)
    P_l = sp.diff((x ** 2 - 1) ** l, x, l) / (2 ** l * sp.factorial(l))
    # P_l^m(x) = (-1)^m (1-x^2)^(m/2) d^m/dx^m P_l(x);   (1-x^2)^(1/2) = sin(theta) on [0, pi]
    dP = sp.diff(P_l, x, am) if am else P_l
    Plm = (-1) ** am * s_ ** am * sp.expand(dP).subs(x, c_)
    N = sp.sqrt(sp.Rational(2 * l + 1, 4) / sp.pi * sp.factorial(l - am) / sp.factorial(l + am))
    Y = N * Plm * z_ ** am
    if m < 0:
        # Y_{l,-m} = (-1)^m conj(Y_lm); conj(z) = 1/z, everything else is real
        Y = (-1) ** am * N * Plm * z_ ** (-am)
    return Y


def reduce_sc(e: sp.Expr) -> sp.Expr:
    """Normal form A(c, z) + s B(c, z) using s^2 = 1 - c^2."""
    e = sp.expand(e)
    p = sp.Poly(e, s_) if e.has(s_) else None
    if p is None:
        return sp.expand(e)
    out = 0
    for (k,), coef in p.terms():
        out += coef * s_ ** (k % 2) * (1 - c_ ** 2) ** (k // 2)
    return sp.expand(out)


def table_atom(theta_t, phi_t):
    def atom_of(t):
        if t == theta_t:
            return TH
        if t == phi_t:
            return PH
        return None
    return atom_of


def to_csz(e: sp.Expr) -> sp.Expr:
    e = e.replace(lambda x: isinstance(x, sp.exp), lambda x: _exp_to_z(x))
    e = e.subs({sp.sin(TH): s_, sp.cos(TH): c_})
    return e


def _exp_to_z(x):
    arg = sp.expand(x.args[0])
    k = sp.simplify(arg / (sp.I * PH))
    if k.is_number and k.is_rational:
        return z_ ** k
    return x


def run(run: Run, pkg: Package) -> None:
    run.explanation = (
        "121 closed-form identities in (theta, phi): each expression appended by SphHarm1..SphHarm10 (and SphHarm0) is read "
        "from the syntax tree, rewritten to the canonical form A(c,z)+s*B(c,z) with c=cos(theta), s=sin(theta), z=exp(i phi) "
        "and exact coefficients, and compared with Y_lm generated from Rodrigues' formula with Condon-Shortley phase; plus the "
        "degree dispatcher's exhaustiveness on l=1..10 and l>10, the argument convention of the delegated library call and "
        "the existence of the imported API.")
    run.trusted_base = ["Python ast", "sympy exact polynomial / radical arithmetic",
                        "definition of Y_lm coded in pmsa/checks/c08.py (ylm_reference)",
                        "scipy.special.sph_harm / sph_harm_y argument conventions (signature table in this file)"]
    run.extra["exhaustive"] = True
    mi = pkg.module(MOD)
    # ---------------------------------------------------------------- tables
    n_forms = 0
    for l in range(0, 11):
        q = f"{MOD}.SphHarm{l}"
        fi = pkg.func(q)
        it = interp(pkg, q)
        fq = short(fi.qual)
        if len(it.returns) != 1 or it.falls_through:
            raise AnalysisError(f"{q}: expected a single return")
        ret = it.returns[0].data["value"]
        if l == 0:
            ok, how = S.decide_equal(S.to_sympy(ret), sp.sqrt(1 / (4 * sp.pi)))
            run.ob("R-TABLE-YLM", fq, "Y_0,0", ok, "SphHarm0 returns 1/(2 sqrt(pi))", how, loc=fi.loc(),
                   witness=None if ok else how, sound=True)
            n_forms += 1
            continue
        params = fi.params
        if len(params) != 2:
            raise AnalysisError(f"{q}: expected parameters (polar, azimuth)")
        if ret[0] == "call" and ret[1] in ("numpy.array", "numpy.asarray") and ret[2] and ret[2][0][0] in ("list", "tuple"):
            entries = ret[2][0][1]
        elif ret[0] in ("list", "tuple"):
            entries = ret[1]
        else:
            raise AnalysisError(f"{q}: return value is not an array built from a literal list of entries: {show(ret)[:100]}")
        ok_len = len(entries) == 2 * l + 1
        run.ob("R-TABLE-YLM", fq, f"l={l}:count", ok_len, f"SphHarm{l} returns 2l+1 = {2 * l + 1} entries (m = -l..l)",
               f"{len(entries)} entries", loc=fi.loc(), witness=None if ok_len else f"len = {len(entries)}", sound=True)
        if not ok_len:
            continue
        atom_of = table_atom(("sym", params[0]), ("sym", params[1]))
        for k, ent in enumerate(entries):
            m = k - l
            key = f"Y_{l},{m}"
            try:
                e = to_csz(S.to_sympy(ent, atom_of))
            except Exception as ex:  # noqa
                run.ob("R-TABLE-YLM", fq, key, None, f"entry {k} of SphHarm{l}", f"not translatable: {ex}", loc=fi.loc())
                continue
            extra = e.free_symbols - {c_, s_, z_}
            if extra or e.has(sp.sin) or e.has(sp.cos) or e.has(sp.exp):
                run.ob("R-TABLE-YLM", fq, key, None, f"entry {k} of SphHarm{l}",
                       f"outside the table grammar (rational*sqrt*exp(k j phi)*sin^p*poly(cos)): {sp.sstr(e)[:120]}", loc=fi.loc())
                continue
            ref = ylm_reference(l, m)
            try:
                d = reduce_sc(e - ref)
            except Exception:  # noqa  (an entry that is not a polynomial in sin / cos, e.g. cos written as sqrt(1 - sin^2))
                # not in the canonical-form grammar: 40-digit evaluation of entry and definition at polar angles in both
                # hemispheres; a differing point is a witness, agreement everywhere is not a proof
                e_ang = S.to_sympy(ent, atom_of)
                r_ang = ref.subs({c_: sp.cos(TH), s_: sp.sin(TH), z_: sp.exp(sp.I * PH)})
                wit = None
                for th, ph in ((sp.Rational(7, 10), sp.Rational(3, 10)), (sp.Rational(19, 10), sp.Rational(11, 10)), (sp.Rational(5, 2), -sp.Rational(6, 5)),
                               (sp.Rational(31, 10), sp.Rational(2)), (sp.Rational(13, 10), sp.Rational(29, 10))):
                    a = sp.N(e_ang.subs({TH: th, PH: ph}), 40)
                    b = sp.N(r_ang.subs({TH: th, PH: ph}), 40)
                    if abs(a - b) > sp.Float(10) ** -25:
                        wit = f"theta={th}, phi={ph} (cos(theta)={sp.N(sp.cos(th), 6)}): code={sp.N(a, 12)} definition={sp.N(b, 12)}"
                        break
                n_forms += 1
                run.ob("R-TABLE-YLM", fq, key, False if wit else None, f"entry {k} of SphHarm{l} equals Y_{l},{m}(theta, phi) identically",
                       f"entry outside the polynomial grammar in sin / cos: {sp.sstr(e)[:100]}" + ("" if wit else "; agrees at 5 sample angles (not a proof)"), witness=wit, loc=fi.loc(), sound=True)
                continue
            ok = sp.simplify(d) == 0
            n_forms += 1
            if ok:
                run.ob("R-TABLE-YLM", fq, key, True, f"entry {k} of SphHarm{l} equals Y_{l},{m}(theta, phi) identically",
                       "canonical forms A(c,z)+s*B(c,z) equal", loc=fi.loc())
            else:
                pt = {c_: sp.Rational(3, 5), s_: sp.Rational(4, 5), z_: sp.exp(sp.I)}
                wv = f"cos(theta)=3/5, sin(theta)=4/5, phi=1: code={sp.N(e.subs(pt), 12)} definition={sp.N(ref.subs(pt), 12)}"
                run.ob("R-TABLE-YLM", fq, key, False, f"entry {k} of SphHarm{l} equals Y_{l},{m}(theta, phi) identically",
                       f"code - definition = {sp.sstr(sp.factor(d))[:200]}", witness=wv, loc=fi.loc(), sound=True)     # exact canonical forms differ; numeric direction shown
    run.minimum("R-TABLE-YLM", 121 + 10)

    # ---------------------------------------------------------------- dispatcher
    q = f"{MOD}.sph_harm_l"
    it = interp(pkg, q)
    fi = it.fi
    fq = short(fi.qual)
    params = fi.params
    optbind = option_defaults(run, fi, fq, "sph_harm_l: expected (l, theta, phi[, options with defaults])")
    if optbind:
        it = interp(pkg, q, bind=optbind)
    lsym = ("sym", params[0])

    def leaf_for(lv):
        def leaf(c):
            if c[0] == "cmp" and (c[2] == lsym or c[3] == lsym):
                a, b, op = c[2], c[3], c[1]
                if b == lsym:
                    a, b = b, a
                    op = {"<": ">", ">": "<", "<=": ">=", ">=": "<="}.get(op, op)
                if is_const(b) and isinstance(b[1], int):
                    return {"==": lv == b[1], "!=": lv != b[1], "<": lv < b[1], "<=": lv <= b[1], ">": lv > b[1],
                            ">=": lv >= b[1]}.get(op)
                if op in ("in", "not in") and b[0] in ("tuple", "list", "set") and all(is_const(x) for x in b[1]):
                    r = lv in [x[1] for x in b[1]]
                    return r if op == "in" else not r
            return None
        return leaf

    it_sym = it
    for lv in range(1, 13):
        leaf = leaf_for(lv)
        key = f"dispatch l={lv}"
        # the dispatcher specialised to this degree: tests on l, table lookups indexed by l and the callee they select fold away
        it = interp(pkg, q, bind={params[0]: C(lv), **optbind})
        lsym = C(lv)
        if lv <= 10:
            want = pkg.func(f"{MOD}.SphHarm{lv}").qual
            want_args = [("sym", params[1]), ("sym", params[2])]
        else:
            want = pkg.func(f"{MOD}.SphHarm_above").qual
            want_args = [lsym, ("sym", params[1]), ("sym", params[2])]

        def is_table_call(val):
            if not (val[0] == "call" and val[1] == want):
                return False
            kwd = dict(val[3])
            tp = pkg.func(want).params
            full = list(val[2]) + [kwd.get(p) for p in tp[len(val[2]):]]
            return full == want_args
        # returns not refuted by the tests on l (tests on the angles are left open)
        cands = []
        for r in it.returns:
            lg = [(c, pol) for c, pol in r.guards if eval_bool(c, leaf) is not None]
            og = [(c, pol) for c, pol in r.guards if eval_bool(c, leaf) is None]
            if any(eval_bool(c, leaf) != pol for c, pol in lg):
                continue
            cands.append((r, og))
        plain = [r for r, og in cands if not og]
        special = [(r, og) for r, og in cands if og]
        # special-case returns guarded by the angles: compared with the table at concrete directions satisfying their guard
        bad_special = None
        und_special = None
        for r, og in special:
            if is_table_call(r.data["value"]):
                continue
            res = shortcut_witness(it, r, og, lv, params)
            if res is None or res is True:
                und_special = r         # agreement at the sampled directions is not a proof: left undecided, never passed
            else:
                bad_special = (r, res)
        if bad_special is not None:
            r, wit = bad_special
            run.ob("R-DISPATCH", fq, key, False, f"degree {lv} returns the table of degree {lv} for every direction", f"special-case return {show(r.data['value'])[:60]} under {show(r.guards[-1][0])[:60]}",
                   witness=wit, loc=loc_of(it, r), sound=True)     # a concrete direction at which the special-case return differs from Y_lm
            continue
        if und_special is not None:
            run.ob("R-DISPATCH", fq, key, None, f"degree {lv} reaches one return", f"special-case return under a guard on the angles: no differing direction found among 15 sampled ones (not a proof) / not evaluable: {show(und_special.guards[-1][0])[:80]}", loc=fi.loc())
            continue
        finals = plain + [r for r, og in special if is_table_call(r.data["value"])]
        if not finals:
            run.ob("R-DISPATCH", fq, key, False, f"degree {lv} is dispatched to its table",
                   "no return is selected: the call falls through and yields None",
                   witness=f"sph_harm_l({lv}, theta, phi) is None", loc=fi.loc(), sound=True)    # every return is refuted by the tests on l for this degree
            continue
        val = finals[0].data["value"]
        ok = all(is_table_call(r.data["value"]) for r in finals)
        if not ok:
            # definite: another degree's table is called, or this one with its (theta, phi) arguments exchanged
            def wrong_call(v_):
                if v_[0] != "call" or not isinstance(v_[1], str):
                    return False
                if v_[1] != want and (v_[1].rsplit(".", 1)[-1].startswith("SphHarm")):
                    return True
                if v_[1] == want and not v_[3] and sorted(map(show, v_[2])) == sorted(map(show, want_args)) and list(v_[2]) != want_args:
                    return True
                return False
            ok = False if any(wrong_call(r.data["value"]) for r in finals) else None
        if lv <= 10:
            run.ob("R-DISPATCH", fq, key, ok, f"degree {lv} returns SphHarm{lv}(theta, phi)", f"returns {show(val)[:100]}",
                   witness=None if ok else f"sph_harm_l({lv}, theta, phi) evaluates {show(val)[:80]}", loc=loc_of(it, finals[0]), sound=True)
        else:
            run.ob("R-DISPATCH", fq, key, ok, f"degree {lv} > 10 delegates to SphHarm_above(l, theta, phi)",
                   f"returns {show(val)[:100]}", witness=None if ok else f"sph_harm_l({lv}, theta, phi) evaluates {show(val)[:80]} instead of SphHarm_above({lv}, theta, phi)", loc=loc_of(it, finals[0]), sound=True)
    it = it_sym
    run.minimum("R-DISPATCH", 12)

    # ---------------------------------------------------------------- delegated call convention
    check_above(run, pkg)


def shortcut_witness(it, r, og, lv, params):
    """A return of the dispatcher that is guarded by the angles and is not the table call: evaluate guard and value (an array
    built by np.zeros + constant stores, or a direct expression) at concrete directions and compare with Y_lm of the definition.
    Returns a witness string (differs), True (agrees at every direction that satisfies the guard), None (not evaluable / guard
    never satisfied)."""
    import math
    import numpy as np
    from ..concrete import ev as cev
    thetas = [0.0, math.pi, math.pi / 2, 1.1, 2.3]
    phis = [0.0, 0.4, 2.9]
    hit = False
    # a container the guard or the value reads that is filled by stores this evaluation does not replay (a dictionary built entry by
    # entry, an array filled in a loop): its term shows the empty container only - not evaluable
    from ..vg import strip_alloc as _sa
    filled = set()
    for e in it.events:
        if e.kind == "store" and e.data["target"][0] == "sub":
            b = _sa(e.data["target"][1])
            if b[0] in ("dict", "list") or e.loops:
                filled.add(b)
    involved = [c for c, _ in og] + [r.data["value"]]
    if any(_sa(x) in filled for t_ in involved for x in walk(t_) if isinstance(x, tuple) and x and x[0] in ("dict", "list", "call")):
        return None
    for th in thetas:
        for ph in phis:
            env = {("sym", params[0]): lv, ("sym", params[1]): th, ("sym", params[2]): ph}
            try:
                if not all(bool(cev(c, env)) == pol for c, pol in og):
                    continue
                val = r.data["value"]
                got = cev(val, env)
                if isinstance(got, np.ndarray):
                    got = got.astype(complex)
                    for e in it.events:
                        if e.kind == "store" and e.data["target"][0] == "sub" and e.data["target"][1] == val and not e.loops and e.seq < r.seq:
                            if all(bool(cev(c, env)) == pol for c, pol in e.guards):
                                v = cev(e.data["value"], env)
                                i = cev(e.data["target"][2], env)
                                if e.data["op"] is None:
                                    got[i] = v
                                elif e.data["op"] == "+":
                                    got[i] += v
                                else:
                                    return None
                got = np.asarray(got, dtype=complex).ravel()
            except Exception:  # noqa
                return None
            hit = True
            if lv > 10:
                return None
            want = np.array([complex(sp.N(ylm_reference(lv, m).subs({c_: sp.cos(th), s_: sp.sin(th), z_: sp.exp(sp.I * ph)}), 20)) for m in range(-lv, lv + 1)])
            if got.shape != want.shape or not np.allclose(got, want, atol=1e-9):
                k = int(np.argmax(np.abs(got - want))) if got.shape == want.shape else 0
                return (f"sph_harm_l({lv}, theta={th:.6g}, phi={ph:.3g}) takes the special-case return: m={k - lv} is {got[k] if got.shape == want.shape else got.shape}, "
                        f"Y_{lv},{k - lv} = {want[k]:.8g}")
    return True if hit else None


# signature table: role of each positional parameter
LIB_SIG = {
    "scipy.special.sph_harm": ("order", "degree", "azimuth", "polar"),
    "scipy.special.sph_harm_y": ("degree", "order", "polar", "azimuth"),
}


def _module_level_candidates(pkg: Package, mi, name: str):
    """All bindings of `name` at module level, including inside try/except: ('import', qual, guarded) / ('def', node)."""
    out = []

    def visit(stmts, guarded):
        for s in stmts:
            if isinstance(s, ast.ImportFrom):
                for a in s.names:
                    if (a.asname or a.name) == name:
                        out.append(("import", f"{s.module}.{a.name}", guarded))
            elif isinstance(s, ast.FunctionDef) and s.name == name:
                out.append(("def", s, guarded))
            elif isinstance(s, ast.Try):
                catches_import = any(h.type is None or any(x in ast.unparse(h.type) for x in ("ImportError", "Exception", "ModuleNotFoundError"))
                                     for h in s.handlers)
                visit(s.body, guarded or catches_import)
                for h in s.handlers:
                    visit(h.body, guarded)
                visit(s.orelse, guarded)
            elif isinstance(s, ast.If):
                visit(s.body, guarded)
                visit(s.orelse, guarded)
    visit(mi.tree.body, False)
    return out


def lib_exists(qual: str) -> bool:
    modname, _, attr = qual.rpartition(".")
    try:
        mod = importlib.import_module(modname)
    except Exception:
        return False
    return hasattr(mod, attr)


def roles_of_call(pkg, mi, call, bound_roles, depth=0):
    """Map a call to a library function into {role: term} using LIB_SIG; follow one level of local wrapper."""
    f = call[1]
    if isinstance(f, str) and f in LIB_SIG:
        sig = LIB_SIG[f]
        roles = {}
        for i, a in enumerate(call[2]):
            if i < len(sig):
                roles[sig[i]] = a
        return roles, f
    return None, f


def check_above(run: Run, pkg: Package) -> None:
    q = f"{MOD}.SphHarm_above"
    it = interp(pkg, q)
    fi = it.fi
    fq = short(fi.qual)
    mi = fi.module
    params = fi.params
    optbind = option_defaults(run, fi, fq, "SphHarm_above: expected (l, theta, phi[, options with defaults])")
    if optbind:
        it = interp(pkg, q, bind=optbind)
    L, TH_, PH_ = (("sym", p) for p in params[:3])
    above_values(run, pkg, q, params, fq, fi, optbind)
    # find the per-m library call: a call whose arguments include a loop / comprehension variable
    cand = []
    for ev in it.events:
        if ev.kind != "call":
            continue
        call = ev.data["call"]
        f = call[1]
        if isinstance(f, str) and (f.startswith("scipy.") or f.startswith(mi.name + ".") or f.startswith("undefined.")):
            # the delegated evaluation: a call of a name bound (at module level) to the library's harmonics or to a wrapper of
            # it - once per order inside a loop / comprehension, or once with the array of orders
            binds = _module_level_candidates(pkg, mi, f.rsplit(".", 1)[-1])
            if f in LIB_SIG or any(b[0] == "def" or (b[0] == "import" and b[1] in LIB_SIG) for b in binds):
                cand.append(ev)
    check_int_products(run, it)
    if len(cand) != 1:
        run.ob("R-ANGLE", fq, "delegate", None, "degrees above 10 are delegated to the library's spherical harmonics (one call per order or one vectorised call)",
               f"{len(cand)} delegated calls found: the values are computed in place, which this rule does not decide", loc=fi.loc())
        return
    ev = cand[0]
    call = ev.data["call"]
    fname = call[1]
    local = fname.rsplit(".", 1)[-1]
    # ---- resolve the callee through module-level bindings (import and/or fallback def)
    bindings = _module_level_candidates(pkg, mi, local)
    if not bindings:
        run.ob("R-API", fq, f"binding {local}", None, f"{local} is bound at module level", "no import or def found", loc=loc_of(it, ev))
        return
    variants = []     # (description, roles)
    for b in bindings:
        if b[0] == "import":
            qual, guarded = b[1], b[2]
            exists = lib_exists(qual)
            has_fallback = any(x[0] == "def" for x in bindings) or sum(1 for x in bindings if x[0] == "import") > 1
            if exists:
                run.ob("R-API", short(mi.name), f"import {qual}", True, f"{qual} exists in the installed distribution", loc=mi.relpath)
            elif guarded and has_fallback:
                run.ob("R-API", short(mi.name), f"import {qual}", True,
                       f"{qual} is absent from the installed scipy but the import is guarded and a fallback binds {local}", loc=mi.relpath)
            else:
                import scipy
                run.ob("R-API", short(mi.name), f"import {qual}", False, f"{qual} resolves in the installed distribution",
                       f"scipy {scipy.__version__} has no attribute {qual.rsplit('.', 1)[-1]}; import is "
                       + ("guarded but no fallback binds the name" if guarded else "unguarded: the module cannot be imported"),
                       witness=f"import {mi.name} raises ImportError", loc=mi.relpath, sound=True)     # attribute lookup in the installed distribution
            if qual in LIB_SIG:
                sig = LIB_SIG[qual]
                variants.append((qual, {sig[i]: a for i, a in enumerate(call[2]) if i < len(sig)}))
            else:
                run.ob("R-ANGLE", fq, f"signature {qual}", None, "library signature known", f"{qual} not in the signature table")
        else:
            node = b[1]
            # wrapper: def sph_harm(m, n, theta, phi): return lib(...)
            wparams = [a.arg for a in node.args.args]
            rets = [s for s in ast.walk(node) if isinstance(s, ast.Return)]
            if len(rets) != 1 or not isinstance(rets[0].value, ast.Call):
                run.ob("R-ANGLE", fq, f"wrapper {local}", None, "fallback wrapper is a single delegating return", "shape not understood")
                continue
            inner = rets[0].value
            inner_name = ast.unparse(inner.func)
            inner_bind = _module_level_candidates(pkg, mi, inner_name.split(".")[-1])
            inner_qual = None
            for ib in inner_bind:
                if ib[0] == "import":
                    inner_qual = ib[1]
            if inner_qual is None and inner_name.startswith("scipy"):
                inner_qual = inner_name
            if inner_qual is None:
                # import inside the except block at function level?
                for s in ast.walk(mi.tree):
                    if isinstance(s, ast.ImportFrom):
                        for a in s.names:
                            if (a.asname or a.name) == inner_name:
                                inner_qual = f"{s.module}.{a.name}"
            if inner_qual not in LIB_SIG:
                run.ob("R-ANGLE", fq, f"wrapper {local}", None, "fallback wrapper delegates to a known library function",
                       f"delegates to {inner_name}")
                continue
            ex = lib_exists(inner_qual)
            run.ob("R-API", short(mi.name), f"import {inner_qual}", True if ex else None, f"{inner_qual} exists in the installed distribution",
                   "" if ex else "missing", loc=mi.relpath)
            sig = LIB_SIG[inner_qual]
            # outer call args bound to wrapper params
            outer = {}
            for i, a in enumerate(call[2]):
                if i < len(wparams):
                    outer[wparams[i]] = a
            roles = {}
            okw = True
            for i, a in enumerate(inner.args):
                if i < len(sig) and isinstance(a, ast.Name) and a.id in outer:
                    roles[sig[i]] = outer[a.id]
                else:
                    okw = False
            if not okw or inner.keywords:
                run.ob("R-ANGLE", fq, f"wrapper {local}", None, "fallback wrapper passes its parameters through", "shape not understood")
                continue
            variants.append((f"{local} -> {inner_qual}", roles))
    if not variants:
        run.ob("R-ANGLE", fq, "delegate", None, "delegated call resolved", f"callee {fname} not resolved to a library function")
        return

    # loop domain: m over range(-l, l+1)
    lvs = [x for a in call[2] for x in walk(a) if x[0] in ("loopvar", "cvar")]
    if not lvs:
        return check_above_vectorised(run, it, ev, call, variants, L, TH_, PH_)
    lv = lvs[0]
    dom = None
    if lv[0] == "loopvar":
        dom = it.loops[lv[1]].iter
    else:
        for e2 in it.events:
            pass
        for t in [r.data["value"] for r in it.returns]:
            for x in walk(t):
                if x[0] == "comp":
                    for g in x[3]:
                        if g[0] == lv:
                            dom = g[1]
    want_dom = ("call", "builtins.range", (("un", "-", L), ("bin", "+", L, C(1))), ())
    ok_dom = dom == want_dom
    run.ob("R-LOOPDOM", fq, "m-range", True if ok_dom else (eqv(dom, want_dom) if dom is not None else None),
           "order m runs over range(-l, l+1)", f"iterates {show(dom) if dom is not None else '?'}",
           witness=None if ok_dom else f"l=11: {show(dom) if dom is not None else '?'}", loc=loc_of(it, ev), sound=True)

    def is_azimuth(t):
        v = azimuth_verdict(t, PH_)
        if v[0] is not None:
            return v[0]
        if t == PH_:
            return True
        # phi shifted by 2 pi only when negative
        if t[0] == "phi" and t[1][0] == "cmp" and t[3] == PH_ and t[2][0] == "bin" and t[2][1] == "+":
            # phi or phi + 2 pi under any test: the harmonics are 2 pi-periodic in the azimuth for integer order
            a, b = t[2][2], t[2][3]
            other = b if a == PH_ else (a if b == PH_ else None)
            if other is not None:
                ok, _ = S.decide_equal(S.to_sympy(other), 2 * sp.pi)
                return bool(ok)
        if t[0] == "bin" and t[1] == "%" and t[2] == PH_:
            ok, _ = S.decide_equal(S.to_sympy(t[3]), 2 * sp.pi)
            return bool(ok)
        if t[0] == "call" and t[1] in ("numpy.mod", "numpy.remainder") and len(t[2]) == 2 and t[2][0] == PH_:
            ok, _ = S.decide_equal(S.to_sympy(t[2][1]), 2 * sp.pi)
            return bool(ok)
        return False

    role_obligations(run, it, ev, variants, {"order": lambda t: t == lv, "degree": lambda t: t == L, "polar": lambda t: t == TH_, "azimuth": is_azimuth}, PH_)
    # result order: the returned array is built from the per-m values in loop order
    ret = it.returns[0].data["value"] if it.returns else NONE
    run.ob("R-ANGLE", fq, "result-order", True if it.returns else None, "per-m values are returned in loop order", show(ret)[:80])
    run.minimum("R-ANGLE", 5)


def option_defaults(run, fi, fq, msg):
    """Parameters beyond (l, theta, phi) must be options with literal defaults; the documented three-argument call is analysed
    with every option at its default and the other values of each option are reported as not analysed (never a silent pass)."""
    params = fi.params
    d = fi.defaults()
    if len(params) < 3 or any(p not in d for p in params[3:]):
        raise AnalysisError(msg)
    out = {}
    for p in params[3:]:
        try:
            out[p] = C(ast.literal_eval(d[p]))
        except Exception:  # noqa
            raise AnalysisError(msg)
        run.ob("R-DISPATCH", fq, f"option:{p}", None, f"values of the option {p} other than its default {ast.unparse(d[p])} give the same harmonics",
               "the rules analyse the documented call (l, theta, phi) with the option at its default; its other values are not analysed", loc=fi.loc())
    return out


def above_values(run, pkg, q, params, fq, fi, optbind=None):
    """The value SphHarm_above returns, as a term with the degree bound to 11, 12, 13, evaluated with the library's harmonics at
    a few angle pairs (azimuth of either sign, polar angle in both hemispheres) against [Y_l,m for m = -l..l].  Witness
    generator for restructured bodies (orders built by symmetry, reordered, vectorised): a differing entry is a violation;
    agreement is recorded as what it is - agreement at sample points."""
    try:
        import scipy.special as _ss
        from .. import concrete as _cc
    except Exception:  # noqa
        return
    lib_y = getattr(_ss, "sph_harm_y", None)
    if lib_y is None:
        return
    _cc.FUNCS.setdefault("scipy.special.sph_harm_y", lib_y)
    _cc.FUNCS.setdefault("scipy.special.sph_harm", lambda m, n, az, pol: lib_y(n, m, pol, az))
    _cc.FUNCS.setdefault("numpy.radians", np.radians)
    _cc.FUNCS.setdefault("numpy.deg2rad", np.deg2rad)
    pts = [(1.1, 0.7), (2.3, -2.0), (0.4, 3.9), (1.9, -0.3)]
    for lv in (11, 12, 13):
        try:
            from ..vg import Interp as _Interp
            keep = _Interp.MAX_UNROLL
            _Interp.MAX_UNROLL = 2 * lv + 2         # the per-order loop is unrolled completely for this degree
            try:
                it = _Interp(pkg, pkg.func(q), bind={params[0]: C(lv), **(optbind or {})})
            finally:
                _Interp.MAX_UNROLL = keep
            if len(it.returns) != 1:
                return
            ret = it.returns[0].data["value"]
            worst = None
            for th, ph in pts:
                got = np.asarray(_cc.ev(ret, {("sym", params[1]): th, ("sym", params[2]): ph}), dtype=complex).ravel()
                want = np.array([lib_y(lv, m, th, ph) for m in range(-lv, lv + 1)])
                if got.shape != want.shape:
                    worst = (th, ph, None, f"{got.shape[0]} values instead of {want.shape[0]}")
                    break
                dev = np.abs(got - want)
                if dev.max() > 1e-9:
                    k = int(np.argmax(dev))
                    worst = (th, ph, k - lv, f"got {np.round(got[k], 8)}, Y_{lv},{k - lv} = {np.round(want[k], 8)}")
                    break
        except Exception as e:  # noqa
            run.note(f"above-values l={lv}: extracted return term not evaluable ({type(e).__name__}: {str(e)[:80]}); the structural rules decide alone")
            return
        run.ob("R-ANGLE", fq, f"above-values l={lv}", worst is None,
               f"SphHarm_above({lv}, theta, phi) equals [Y_{lv},m(theta, phi) for m = -{lv}..{lv}] at {len(pts)} angle pairs (extracted return term evaluated with scipy's harmonics)",
               "agreement at the sample angles" if worst is None else worst[3],
               witness=None if worst is None else f"l={lv}, theta={worst[0]}, phi={worst[1]}, order m={worst[2]}: {worst[3]}", loc=fi.loc(), sound=True)


def role_obligations(run, it, ev, variants, want, PH_):
    fq = short(it.fi.qual)
    for desc, roles in variants:
        for role, pred in want.items():
            got = roles.get(role)
            r = pred(got) if got is not None else None
            ok = True if r is True else None
            wit = None
            if ok is None and got is not None:
                # definite: the slot receives the quantity that belongs to another role, or an azimuth that is not phi + 2 pi k
                others = [r2 for r2, p2 in want.items() if r2 != role and p2(got) is True]
                if others:
                    ok = False
                    wit = f"{desc}: the {role} slot receives the {others[0]}: {show(got)[:80]}"
                elif role == "azimuth":
                    v = azimuth_verdict(got, PH_)
                    if v[0] is False:
                        ok, wit = False, v[1]
            run.ob("R-ANGLE", fq, f"{desc}:{role}", ok, f"delegated call via {desc} passes the {role} in the library's slot",
                   f"slot receives {show(got) if got is not None else 'nothing'}",
                   witness=None if ok else (wit or f"{desc}: {role} <- {show(got) if got is not None else 'missing'}"), loc=loc_of(it, ev), sound=True)


def azimuth_verdict(t, PH_):
    """The azimuth handed to the library must be phi + 2 pi k on every arm of a conditional (Y_lm is 2 pi-periodic in the azimuth
    and in nothing else).  (True, _) / (False, witness) / (None, _)."""
    arms = []

    def collect(x, conds):
        if x[0] == "phi":
            collect(x[2], conds + [(x[1], True)])
            collect(x[3], conds + [(x[1], False)])
        else:
            arms.append((x, conds))
    collect(t, [])
    allok = True
    for arm, conds in arms:
        try:
            atom_ = lambda y: PH if y == PH_ else None
            if arm[0] == "bin" and arm[1] == "%":
                e = sp.Mod(S.to_sympy(arm[2], atom_), S.to_sympy(arm[3], atom_), evaluate=False)
            elif arm[0] == "call" and arm[1] in ("numpy.mod", "numpy.remainder", "numpy.fmod", "math.fmod") and len(arm[2]) == 2:
                e = sp.Mod(S.to_sympy(arm[2][0], atom_), S.to_sympy(arm[2][1], atom_), evaluate=False)
            else:
                e = S.to_sympy(arm, atom_)
        except Exception:  # noqa
            return None, ""
        if e.free_symbols - {PH}:
            return None, ""
        if e.has(sp.Mod) or e.has(sp.floor):
            # phi reduced modulo P: the harmonics are 2 pi-periodic in the azimuth and in nothing shorter
            mods = list(e.atoms(sp.Mod))
            if len(mods) == 1 and e == mods[0] and sp.simplify(mods[0].args[0] - PH).is_number and not mods[0].args[1].free_symbols:
                per = sp.nsimplify(mods[0].args[1] / (2 * sp.pi))
                if per.is_integer is True and per != 0:
                    continue            # phi mod 2 pi k
                val = sp.Rational(-1, 2)
                got = sp.N(e.subs(PH, val), 8)
                return False, (f"the azimuth is reduced modulo {sp.sstr(mods[0].args[1])}, not a multiple of 2 pi: azimuth {val} is handed to the library as {got}, "
                               f"so order m picks up exp(i m ({sp.N(got - val, 6)})) - a sign flip of every odd m for a modulus of pi")
            allok = False
            continue
        d = sp.simplify(e - PH)
        if d.free_symbols:
            # affine in phi with slope != 1 (reflection, scaling): a different direction
            if sp.Poly(sp.expand(e), PH).degree() <= 1:
                # pick an azimuth that satisfies the arm's condition
                for val in (sp.Rational(-3), sp.Rational(1), sp.Rational(-1, 2), sp.Rational(5, 2)):
                    try:
                        from ..concrete import ev as cev
                        sat = all(bool(cev(c, {PH_: float(val)})) == pol for c, pol in conds)
                    except Exception:  # noqa
                        sat = False
                    if sat and abs(float((e.subs(PH, val) - val) / (2 * sp.pi)) - round(float((e.subs(PH, val) - val) / (2 * sp.pi)))) > 1e-6:
                        got = sp.N(e.subs(PH, val), 8)
                        return False, (f"azimuth {val} is handed to the library as {got}, which is not {val} + 2 pi k: every order m != 0 picks up the phase "
                                       f"exp(i m ({sp.N(got - val, 6)}))")
                return None, ""
            return None, ""
        k = sp.nsimplify(d / (2 * sp.pi))
        if not (k.is_integer is True):
            val = sp.Rational(-3)
            return False, (f"the azimuth is shifted by {sp.sstr(d)} (not a multiple of 2 pi) on the arm {show(arm)[:60]}: order m picks up the factor exp(i m {sp.sstr(d)}) "
                           f"- e.g. (-1)^m for a shift of pi")
    return (True, "") if allok else (None, "")


def check_above_vectorised(run, it, ev, call, variants, L, TH_, PH_):
    """One library call with the whole array of orders."""
    fq = short(it.fi.qual)
    want_orders = [("call", "numpy.arange", (("un", "-", L), ("bin", "+", L, C(1))), ()),
                   ("call", "numpy.array", (("call", "builtins.range", (("un", "-", L), ("bin", "+", L, C(1))), ()),), ()),
                   ("call", "numpy.asarray", (("call", "builtins.range", (("un", "-", L), ("bin", "+", L, C(1))), ()),), ())]

    def is_orders(t):
        from ..vg import strip_alloc
        return eqv(strip_alloc(t), *want_orders, same=True)

    def is_az(t):
        return azimuth_verdict(t, PH_)[0]
    orders = None
    for desc, roles in variants:
        orders = roles.get("order")
    ok_dom = is_orders(orders) if orders is not None else None
    run.ob("R-LOOPDOM", fq, "m-range", ok_dom, "the orders handed to the library are m = -l..l in ascending order (np.arange(-l, l+1))", show(orders)[:80] if orders is not None else "?",
           witness=None if ok_dom else f"l=11: orders {show(orders)[:60] if orders is not None else '?'}", loc=loc_of(it, ev), sound=True)
    role_obligations(run, it, ev, variants, {"order": is_orders, "degree": lambda t: t == L, "polar": lambda t: t == TH_, "azimuth": is_az}, PH_)
    ret = it.returns[0].data["value"] if it.returns else NONE
    from ..vg import strip_alloc
    direct = it.returns and strip_alloc(ret) in (strip_alloc(call), ("call", "numpy.asarray", (strip_alloc(call),), ()), ("call", "numpy.array", (strip_alloc(call),), ()))
    run.ob("R-ANGLE", fq, "result-order", True if direct else None, "the library's array over the orders is returned as is", show(ret)[:80])
    run.minimum("R-ANGLE", 5)


def check_int_products(run: Run, it) -> None:
    """R-OVERFLOW: a product over an integer range whose length grows with the degree / order (factorials, double factorials
    written as np.prod(np.arange(...))) is computed in int64 and wraps silently once it exceeds 2**63 - 1."""
    fq = short(it.fi.qual)
    for ev in it.events:
        for v in ev.data.values():
            if not isinstance(v, tuple):
                continue
            for x in walk(v):
                if not (x[0] == "call" and x[1] in ("numpy.prod", ".prod", "numpy.cumprod", ".cumprod", "numpy.multiply.reduce") and x[2]):
                    continue
                if any(k in ("dtype",) for k, _ in x[3]):
                    continue
                rng = x[2][0]
                if not (rng[0] == "call" and rng[1] in ("numpy.arange", "builtins.range") and not any(k == "dtype" for k, _ in rng[3])):
                    continue
                if any(is_const(a) and isinstance(a[1], float) for a in rng[2]):
                    continue
                free = [y for a in rng[2] for y in walk(a) if y[0] in ("loopvar", "sym", "cvar")]
                if not free:
                    continue
                # smallest value of the (single) free quantity at which the integer product leaves int64
                import itertools
                from .grlib import eval_int, Undecidable
                f0 = free[0]
                hit = None
                try:
                    for val in range(1, 200):
                        args = [eval_int(a, {f0: val}) for a in rng[2]]
                        p_ = 1
                        for k_ in range(*args):
                            p_ *= k_
                        if abs(p_) > 2 ** 63 - 1:
                            hit = (val, p_)
                            break
                except (Undecidable, Exception):  # noqa
                    hit = None
                key = f"int-product:{show(x)[:50]}"
                run.ob("R-OVERFLOW", fq, key, False if hit else None, "integer products that grow with the degree / order stay within the integer type",
                       show(x)[:90], witness=None if not hit else
                       f"{show(f0)} = {hit[0]}: the exact product is {hit[1]} > 2**63 - 1; numpy computes it in int64 and wraps without a warning "
                       f"(every degree l >= {hit[0]} is in the property's domain)", loc=loc_of(it, ev), sound=True)
