"""C12 - pair-potential derivatives are the derivatives of the documented potentials.

R-ALG: for each model, the returned triple [s1, s1rc, s2] (read from the method's return term)
satisfies s1 = ds/dr, s2 = d s1/dr as functions of (r, eps, sigma, exponents), s1rc = s1[r := r_c]
on the shift arm and 0 on the no-shift arm (Hertz: 0 on both, as documented).  References are the
potentials of docs/hessian.md; differentiation is applied to the *reference* only.
R-DISPATCH: `caller` routes every ModelName member to the method of the same name with the
documented parameter routing, no fall-through.  Constructor wiring (self.r_c = r_c ...) is part of
the obligation because terms are expanded through __init__.
"""
from __future__ import annotations

import sympy as sp

from .common import *  # noqa

CLS = "static.hessians.PairInteractions"
r, eps, sig, rc, n, A, alpha = sp.symbols("r epsilon sigma r_c n A alpha", positive=True)

POTENTIALS = {
    # docs/hessian.md section I
    "lennard_jones": (4 * eps * ((sig / r) ** 12 - (sig / r) ** 6), True),
    "inverse_power_law": (A * eps * (sig / r) ** n, True),
    "harmonic_hertz": (eps / alpha * (1 - r / sig) ** alpha, False),   # documented s'(r_c) = 0
}
ROUTING = {
    "lennard_jones": {},
    "inverse_power_law": {"n": "ipl_n", "A": "ipl_A"},
    "harmonic_hertz": {"alpha": "harmonic_hertz_alpha"},
}
u = sp.Symbol("u", positive=True)
# Hertz is defined for overlapping pairs r < sigma: write r = sigma (1 - u), u > 0, so that powers of (1 - r/sigma)
# with symbolic exponent combine.
PREP = {"harmonic_hertz": lambda e: sp.simplify(e.subs(r, sig * (1 - u)))}
SYMS = {"r": r, "epsilon": eps, "sigma": sig, "r_c": rc, "n": n, "A": A, "alpha": alpha}


def atom_of(t):
    if t[0] == "sym" and t[1] in SYMS:
        return SYMS[t[1]]
    return None


def model_terms(pkg, method, shift):
    attrs = init_attrs(pkg, CLS)

    def assume(c):
        c2 = expand_self(c, attrs)
        if c2 == ("sym", "shift"):
            return shift
        return None
    it = interp(pkg, f"{CLS}.{method}", assume=assume)
    if len(it.returns) != 1 or it.falls_through:
        raise AnalysisError(f"{method}: expected exactly one return on every path")
    ret = expand_self(it.returns[0].data["value"], attrs)
    if ret[0] not in ("list", "tuple") or len(ret[1]) != 3:
        raise AnalysisError(f"{method}: return value is not a 3-element list: {show(ret)[:120]}")
    return it, ret[1]


def run(run: Run, pkg: Package) -> None:
    run.explanation = (
        "Symbolic identities between the closed forms returned by PairInteractions.{lennard_jones,inverse_power_law,"
        "harmonic_hertz} (read from the syntax tree, expanded through __init__, normalised with positive symbols) and "
        "d/dr, d2/dr2 of the potentials documented in docs/hessian.md; plus exhaustiveness and argument routing of the "
        "model dispatcher. Identities hold for all r, epsilon, sigma, r_c, n, A, alpha > 0 - nothing is sampled.")
    run.trusted_base = ["Python ast", "sympy differentiation and simplification (positive symbols)",
                        "docs/hessian.md potentials transcribed in pmsa/checks/c12.py"]
    run.extra["exhaustive"] = True
    members = enum_members(pkg, "static.hessians.ModelName")
    for m in members:
        if m not in POTENTIALS:
            run.ob("R-DISPATCH", "static.hessians.ModelName", f"member {m}", None,
                   f"enum member {m} has no documented potential in the checker's table", "extend POTENTIALS")
    for m in POTENTIALS:
        if m not in members:
            raise AnalysisError(f"ModelName.{m} vanished")

    for m, (s, has_shift) in POTENTIALS.items():
        ds = sp.diff(s, r)
        d2s = sp.diff(s, r, 2)
        it, (s1, s1rc, s2) = model_terms(pkg, m, True)
        loc = it.fi.loc()
        check_algebra(run, "R-ALG", it, f"{m}:s1", f"s1 returned by {m} equals ds/dr of the documented potential",
                      s1, ds, atom_of, loc, positive=True, prep=PREP.get(m))
        check_algebra(run, "R-ALG", it, f"{m}:s2", f"s2 returned by {m} equals d2s/dr2 of the documented potential",
                      s2, d2s, atom_of, loc, positive=True, prep=PREP.get(m))
        # internal consistency: s2 is the derivative of the code's own s1
        tr = S.Translator(atom_of, True)
        try:
            code_s1 = tr.tr(s1)
            pf = PREP.get(m, lambda e: e)
            ok, how = S.decide_equal(pf(tr.tr(s2)), pf(sp.diff(code_s1, r)))
            run.ob("R-ALG", short(it.fi.qual), f"{m}:s2=ds1", ok if not (ok is False and tr.atoms) else None, f"s2 of {m} is d/dr of the s1 it returns", how, loc=loc,
                   witness=None if ok else how, sound=True)
        except Exception as e:  # noqa
            run.ob("R-ALG", short(it.fi.qual), f"{m}:s2=ds1", None, "s2 = d s1/dr", str(e), loc=loc)
        ref_rc = ds.subs(r, rc) if has_shift else sp.Integer(0)
        check_algebra(run, "R-ALG", it, f"{m}:s1rc[shift]", f"cutoff term of {m} with shift on equals s'(r_c)"
                      + ("" if has_shift else " = 0 (documented)"), s1rc, ref_rc, atom_of, loc, positive=True)
        it0, (s1_0, s1rc_0, s2_0) = model_terms(pkg, m, False)
        check_algebra(run, "R-ALG", it0, f"{m}:s1rc[noshift]", f"cutoff term of {m} with shift off is zero",
                      s1rc_0, sp.Integer(0), atom_of, loc, positive=True)
        check_algebra(run, "R-ALG", it0, f"{m}:s1[noshift]", f"s1 of {m} does not depend on the shift flag",
                      s1_0, ds, atom_of, loc, positive=True, prep=PREP.get(m))
        check_algebra(run, "R-ALG", it0, f"{m}:s2[noshift]", f"s2 of {m} does not depend on the shift flag",
                      s2_0, d2s, atom_of, loc, positive=True, prep=PREP.get(m))
    # harmonic/Hertz beyond contact (r > sigma): with an integer exponent the potential is a polynomial in r and the
    # identities are decided for ALL r > 0 (no domain restriction); alpha = 2 (harmonic) .. 5.
    m = "harmonic_hertz"
    s_h = POTENTIALS[m][0]
    it, (s1, s1rc, s2) = model_terms(pkg, m, True)
    for k in (2, 3, 4, 5):
        ref1 = sp.diff(s_h, r).subs(alpha, k)
        ref2 = sp.diff(s_h, r, 2).subs(alpha, k)

        def atom_k(t, k=k):
            if t == ("sym", "alpha"):
                return sp.Integer(k)
            return atom_of(t)
        check_algebra(run, "R-ALG", it, f"{m}:s1[alpha={k}, all r]", f"s1 of {m} with integer exponent {k} equals ds/dr for every r > 0, stretched pairs (r > sigma) included",
                      s1, ref1, atom_k, it.fi.loc(), positive=True)
        check_algebra(run, "R-ALG", it, f"{m}:s2[alpha={k}, all r]", f"s2 of {m} with integer exponent {k} equals d2s/dr2 for every r > 0, stretched pairs included",
                      s2, ref2, atom_k, it.fi.loc(), positive=True)
    run.minimum("R-ALG", 26)

    # ---- dispatcher
    it = interp(pkg, f"{CLS}.caller")
    fq = short(it.fi.qual)
    params = it.fi.params
    if len(params) < 2:
        raise AnalysisError("caller lost its interaction_params parameter")
    ip = ("sym", params[1])
    run.ob("R-DISPATCH", fq, "no-fallthrough", True if not it.falls_through else None,
           "every path of the dispatcher ends in a return (no implicit None)",
           "" if not it.falls_through else "a path falls off the end of the function", loc=it.fi.loc(),
           witness=None if not it.falls_through else "model outside the tested members returns None")
    enum_q = pkg.cls("static.hessians.ModelName").qual
    for m in members:
        def leaf(c, m=m):
            if c[0] == "cmp" and c[1] in ("==", "is", "!=", "is not"):
                a, b = c[2], c[3]
                if b == ("attr", ip, "model_name"):
                    a, b = b, a
                if a == ("attr", ip, "model_name") and b[0] == "mod" and b[1].startswith(enum_q + "."):
                    eq = b[1] == f"{enum_q}.{m}"
                    return eq if c[1] in ("==", "is") else (not eq)
            return None
        sel = selected_returns(it, leaf)
        key = f"route {m}"
        if len(sel) != 1:
            run.ob("R-DISPATCH", fq, key, None if sel else False, f"ModelName.{m} selects exactly one return",
                   f"{len(sel)} candidate returns", witness=f"model_name = ModelName.{m}" if not sel else None, loc=it.fi.loc(), sound=True)   # every return is refuted for this member
            continue
        val = resolve_phi(sel[0].data["value"], leaf)
        want = pkg.cls(CLS).methods[m].qual
        ok = val[0] == "call" and val[1] == want
        others = {pkg.cls(CLS).methods[m2].qual for m2 in POTENTIALS if m2 != m}
        ok = True if ok else (False if (val[0] == "call" and val[1] in others) else None)     # routed to the method of another model
        run.ob("R-DISPATCH", fq, key, ok, f"ModelName.{m} is routed to PairInteractions.{m}",
               f"routed to {show(val)[:120]}", witness=None if ok else f"model_name = ModelName.{m}", loc=loc_of(it, sel[0]), sound=True)
        if not ok:
            continue
        target = pkg.func(want)
        tparams = target.params[1:]
        bound = {}
        for k_, a_ in enumerate(val[2]):
            if k_ < len(tparams):
                bound[tparams[k_]] = a_
        for kname, a_ in val[3]:
            bound[kname] = a_
        for pname, fld in ROUTING[m].items():
            got = bound.get(pname)
            ok2 = eqv(got, ("attr", ip, fld)) if got is not None else None
            run.ob("R-DISPATCH", fq, f"route {m}.{pname}", ok2, f"{m}({pname}=...) receives interaction_params.{fld}",
                   f"receives {show(got) if got is not None else 'nothing (default used)'}",
                   witness=None if ok2 else f"InteractionParams({fld}=x) with ModelName.{m}", loc=loc_of(it, sel[0]), sound=True)
    run.minimum("R-DISPATCH", 7)
