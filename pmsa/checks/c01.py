"""C01 - LAMMPS dump reading preserves every frame's particles, coordinates and cell.

For each of the 12 configurations {2D,3D} x {orthogonal, triclinic} x {x, xs, xu} the reader is abstractly interpreted
(header loops unrolled, atom loop kept symbolic, every readline a distinct line) and the fields handed to SingleSnapshot are
resolved to expressions in file tokens:
R-PROTO   nine header lines are consumed before the atom block; timestep = int(line 2), N = int(line 4); coordinate names come
          from line 9; one line per atom; EOF sentinel.
R-ALG     bounds, box lengths, real (triclinic) bounds, h-matrix entries equal the LAMMPS conventions; scaled coordinates map
          through that same h-matrix plus the real lower corner; unwrapped coordinates verbatim; wrapped orthogonal
          coordinates moved by one box length when outside.
R-IDX     rows are placed by atom id - 1 (never by loop counter), type from column 2, coordinates from columns 3..2+ndim.
R-SIB     every (cell, style) has an atom-reading branch (no configuration leaves positions at their zero initialiser).
R-LOOPDOM wrappers: frames appended in read order, counted once each, loop ends on the falsy sentinel, one open handle.
R-DISPATCH every DumpFileType member maps to a wrapper and read_onefile passes each wrapper exactly its parameters.
"""
from __future__ import annotations

import sympy as sp

from .common import *  # noqa
from .readerlib import *  # noqa
from .common import tri as TRI      # `tri` is the triclinic flag inside check_config


def run(run: Run, pkg: Package) -> None:
    run.explanation = (
        "The dump reader is abstractly interpreted once per (dimension, cell kind, coordinate style); every field of the "
        "returned snapshot is resolved to an exact expression in the tokens of the file's lines and compared with the LAMMPS "
        "conventions (bounds -> real bounds -> h-matrix; scaled -> Cartesian through that h-matrix and the real origin); "
        "placement by atom id, header line protocol, style exhaustiveness, frame loops and the reader dispatch table are "
        "decided structurally.")
    run.extra["exhaustive"] = True
    run.extra["configurations"] = []
    for ndim in (2, 3):
        for tri in (False, True):
            for style in ("x", "xs", "xu"):
                check_config(run, pkg, "read_lammps", ndim, tri, style)
    for w, inner in (("read_lammps_wrapper", "read_lammps"), ("read_lammps_centertype_wrapper", "read_lammps_centertype"),
                     ("read_lammps_vector_wrapper", "read_lammps_vector")):
        check_wrapper(run, pkg, w, inner)
    check_dispatch(run, pkg)
    run.minimum("R-ALG", 150)
    run.minimum("R-IDX", 24)
    run.minimum("R-PROTO", 48)


def check_config(run, pkg, fname, ndim, tri, style):
    rr = ReaderRun(pkg, fname, ndim, tri, style)
    fq, cfg = rr.fq, rr.cfg()
    run.extra["configurations"].append(cfg)
    loc = rr.fi.loc()
    atom_of = rr.atom_of()
    ae = rr.ae

    def tr(t):
        T = S.Translator(atom_of)
        e = T.tr(t)
        return e, T.atoms
    # ---------------- protocol
    nh = len(rr.header_ids)
    run.ob("R-PROTO", fq, f"{cfg}:header-lines", nh == 9, "nine header lines are consumed before the atom block (the third bounds line also in 2D)",
           f"{nh} header lines read", witness=None if nh == 9 else f"{cfg}: header of 9 lines, reader consumes {nh}: atom block / next frame misaligned", loc=loc,
           sound=not _other_reads(rr))     # every readline() outside the atom loop on this configuration's path, counted exactly
    na = len(rr.atom_ids)
    if na != 1:
        # definite only when nothing else on this path could consume the atom block (comprehensions, bulk readers, iteration over the handle)
        run.ob("R-SIB", fq, f"{cfg}:atom-branch", False if (na == 0 and not _other_reads(rr)) else None, f"coordinate style '{style}' of a {'triclinic' if tri else 'orthogonal'} cell has an atom-reading branch",
               "no atom line is read: positions stay at the zero initialiser and the atom block is left in the stream" if na == 0 else f"{na} atom-line reads",
               witness=f"{cfg} dump: all positions 0 and the following frame is parsed from the middle of the atom block" if na == 0 else None, loc=loc, sound=True)
        if na == 0:
            return
    else:
        run.ob("R-SIB", fq, f"{cfg}:atom-branch", True, f"style '{style}' has an atom-reading branch", loc=loc)
    kws = rr.kwargs()
    # EOF sentinel
    ok_eof = any(r.guards and not r.loops for r in rr.none_rets)
    run.ob("R-PROTO", fq, f"{cfg}:eof", True if ok_eof else None, "an empty first line ends the frame sequence (returns the falsy sentinel)",
           f"{len(rr.none_rets)} None-returns", witness=None if ok_eof else "no EOF sentinel", loc=loc)
    for field, line in (("timestep", 1), ("nparticle", 3)):
        e, at = tr(ae.deep(kws[field]))
        ok = e == sp.Symbol(f"L{line}_0", real=True)
        run.ob("R-PROTO", fq, f"{cfg}:{field}", ok if (ok or not at) else None, f"{field} is the integer on header line {line + 1}", f"{sp.sstr(e)[:60]}",
               witness=None if ok else f"{field} read from {sp.sstr(e)[:40]}", loc=loc, sound=True)
    # names come from header line 9
    asked = [c for c in rr.asked if c[2][1] in ("x", "xs", "xu")]
    ok_names = True if asked else None
    for c in asked:
        nm = c[3]
        if nm[0] == "sub" and nm[2][0] == "slice" and nm[1][0] == "call" and nm[1][1] == ".split" and nm[1][2] and rr.line_of(nm[1][2][0]) is not None:
            # a constant slice of the tokens of an identified header line: compared exactly
            good = TRI(eqv(nm[2], ("slice", C(2), NONE, NONE)), rr.line_of(nm[1][2][0]) == 8)
        else:
            good = None
        ok_names = TRI(ok_names, good)
    run.ob("R-PROTO", fq, f"{cfg}:names", ok_names, "coordinate style is taken from the column names after 'id type' on header line 9",
           f"{len(asked)} style tests", witness=None if ok_names else "style detected from another line / column offset", loc=loc, sound=True)
    # atom loop domain
    Lid = rr.atom_loops[0] if rr.atom_loops else None
    if Lid not in rr.it.loops:
        raise AnalysisError(f"{fq} [{cfg}]: the loop that reads the atom lines was not identified (atom stores outside a counted loop)")
    L = rr.it.loops[Lid]
    e, at = tr(ae.deep(L.iter[2][0])) if L.iter and L.iter[0] == "call" and L.iter[1] == "builtins.range" and len(L.iter[2]) == 1 else (None, True)
    ok_dom = True if (e is not None and e == sp.Symbol("L3_0", real=True)) else (False if (e is not None and not at) else None)
    run.ob("R-LOOPDOM", fq, f"{cfg}:atoms", ok_dom, "exactly N atom lines are read per frame", show(strip_alloc(L.iter))[:60] if L.iter else "?",
           witness=None if ok_dom else "atom block length differs from the declared particle number", loc=loc, sound=True)
    # ---------------- cell
    ref = reference_cell(ndim, tri)

    def cmp_entry(rule, key, what, term, idx, want):
        try:
            ent = ae.entry(term, idx)
        except (NoEntry, IndexError, TypeError) as ex:
            return run.ob(rule, fq, key, None, what, f"entry {idx} not resolvable: {ex}", loc=loc)
        g, at = tr(ent)
        ok, how = eq(g, want)
        if ok is False and at:
            ok = None
        return run.ob(rule, fq, key, ok, what, f"code: {sp.sstr(g)[:140]}", witness=None if ok is not False else how, loc=loc, sound=True)   # exact expression in file tokens, rational witness

    def shape_ok(name, term, want):
        shp = ae.shape(term)
        ok = shp == want
        run.ob("R-ALG", fq, f"{cfg}:{name}:shape", ok if shp is not None else None, f"{name} has shape {want}", f"shape {shp}",
               witness=None if ok else f"{name} has shape {shp}", loc=loc, sound=True)
        return ok
    if shape_ok("boxbounds", kws["boxbounds"], (ndim, 2)):
        for r in range(ndim):
            for c in range(2):
                cmp_entry("R-ALG", f"{cfg}:boxbounds[{r},{c}]", f"boxbounds[{r},{c}] is number {c + 1} of bounds line {r + 1}", kws["boxbounds"], (r, c), ref["bounds"][r][c])
    if shape_ok("boxlength", kws["boxlength"], (ndim,)):
        for r in range(ndim):
            cmp_entry("R-ALG", f"{cfg}:boxlength[{r}]", f"boxlength[{r}] = (real) hi - lo of axis {r}", kws["boxlength"], (r,), ref["L"][r])
    if shape_ok("hmatrix", kws["hmatrix"], (ndim, ndim)):
        for r in range(ndim):
            for c in range(ndim):
                cmp_entry("R-ALG", f"{cfg}:hmatrix[{r},{c}]", f"h-matrix row {r} is cell vector {'abc'[r]} (LAMMPS lower-triangular convention)",
                          kws["hmatrix"], (r, c), ref["H"][r][c])
    if tri:
        if shape_ok("realbounds", kws["realbounds"], (ndim, 2)):
            for r in range(ndim):
                for c in range(2):
                    cmp_entry("R-ALG", f"{cfg}:realbounds[{r},{c}]", f"real {'lo' if c == 0 else 'hi'} of axis {r} = bound - {'min' if c == 0 else 'max'}(0, tilt combinations)",
                              kws["realbounds"], (r, c), ref["real"][r][c])
    else:
        run.ob("R-ALG", fq, f"{cfg}:realbounds", True if kws["realbounds"] == NONE else None, "orthogonal cells carry no separate real bounds", show(kws["realbounds"])[:40],
               witness=None if kws["realbounds"] == NONE else "realbounds set for an orthogonal cell", loc=loc)
    # ---------------- placement by id
    P = kws["positions"]
    T = kws["particle_type"]
    a = [sp.Symbol(f"a{c}", real=True) for c in range(8)]
    for nm, arr in (("positions", P), ("particle_type", T)):
        base = root_alloc(arr, prefer=lambda x: any(Lid in ev.loops for ev in ae.stores.get(x, [])))
        sts = [ev for ev in ae.stores.get(base, []) if Lid in ev.loops] if base is not None else []
        if not sts:
            run.ob("R-IDX", fq, f"{cfg}:{nm}:row", None, f"{nm} rows are placed by atom id", "per-atom store not found", loc=loc)
            continue
        for ev in sts:
            tg = ev.data["target"][2]
            row = tg[1][0] if tg[0] == "tuple" else tg
            g, at = tr(ae.deep(row))
            ok = sp.expand(g - (a[0] - 1)) == 0
            if not ok and at and all(x[0] == "loopvar" and x[1] == Lid for x in walk(ae.deep(row)) if x[0] in ("loopvar", "sub", "call", "sym")):
                at = {}     # row index built from the atom-loop counter only: file order, definitely not the id
            run.ob("R-IDX", fq, f"{cfg}:{nm}:row@{key_of(ev)[:40]}", ok if (ok or not at) else None, f"{nm} row index is (atom id) - 1", f"row index {sp.sstr(g)[:60]}",
                   witness=None if ok else f"atoms listed out of id order are stored at row {sp.sstr(g)[:40]}", loc=loc_of(rr.it, ev), sound=True)
    try:
        g, at = tr(ae.entry(T, (ROW,)))
        ok = g == a[1]
        run.ob("R-IDX", fq, f"{cfg}:type", ok if (ok or not at) else None, "particle type is column 2 of the atom line", sp.sstr(g)[:60],
               witness=None if ok else f"type read from {sp.sstr(g)[:40]}", loc=loc, sound=True)
    except (NoEntry, IndexError, TypeError) as ex:
        run.ob("R-IDX", fq, f"{cfg}:type", None, "particle type is column 2", str(ex), loc=loc)
    # ---------------- positions
    for c in range(ndim):
        key = f"{cfg}:position[{c}]"
        try:
            ent = ae.entry(P, (ROW, c))
        except (NoEntry, IndexError, TypeError) as ex:
            run.ob("R-ALG", fq, key, None, "Cartesian component resolvable", f"{ex}", loc=loc)
            continue
        p_c = a[2 + c]
        if style == "xu" or (style == "x" and tri):
            g, at = tr(ent)
            ok, how = eq(g, p_c)
            run.ob("R-ALG", fq, key, ok if not (ok is False and at) else None, f"component {c} is column {3 + c} of the atom line, verbatim", sp.sstr(g)[:100],
                   witness=None if ok is not False else how, loc=loc, sound=True)
        elif style == "xs":
            want = ref["lo"][c] + sum(a[2 + k] * ref["H"][k][c] for k in range(ndim))
            g, at = tr(ent)
            ok, how = eq(g, want)
            run.ob("R-ALG", fq, key, ok if not (ok is False and at) else None,
                   f"component {c} = real lower corner + sum_k s_k * hmatrix[k][{c}] (scaled coordinates mapped through the cell incl. its origin)",
                   f"code: {sp.sstr(g)[:160]}", witness=None if ok is not False else how, loc=loc, sound=True)
        else:
            if ent[0] == "phi":
                # the wrap sits under a run-time test: the test must hold whenever some coordinate lies outside ITS OWN axis range
                gv = guarded_wrap(ent, P, kws["boxbounds"], ndim)
                if gv is not None:
                    okg, detg, witg, ent = gv
                    run.ob("R-ALG", fq, key + ":guard", okg, "a test that decides whether the wrap is applied holds whenever a coordinate lies outside its own axis range", detg,
                           witness=witg, loc=loc, sound=True)     # the extracted test evaluated on a concrete frame that needs wrapping
            ok, det, wit = match_wrap(ent, tr, p_c, ref["lo"][c], ref["hi"][c], ref["L"][c])
            run.ob("R-ALG", fq, key, ok, f"wrapped component {c}: + L if below lo, - L if above hi, else unchanged", det, witness=wit, loc=loc, sound=True)


def guarded_wrap(ent, P, B, ndim):
    """ent = phi(test, wrapped, raw) (either order).  Evaluate the test on concrete single-atom frames in which exactly one
    coordinate lies outside its own axis range but inside the overall extent of the box: False there = the wrap is skipped."""
    import numpy as np
    from ..concrete import ev as cev
    test, a, b = ent[1], ent[2], ent[3]
    has_where = lambda t: any(x[0] == "call" and x[1] == "numpy.where" for x in walk(t))
    if has_where(a) == has_where(b):
        return None
    wrapped = a if has_where(a) else b
    pol = has_where(a)          # the wrap is applied when test == pol
    pbase, bbase = root_alloc(P), root_alloc(B)
    if pbase is None or bbase is None:
        return None
    bounds = np.array([[0.0, 40.0], [5.0, 13.0], [2.0, 10.0]])[:ndim]
    inside = np.array([20.0, 9.0, 6.0])[:ndim]
    bad = None
    try:
        for c in range(ndim):
            for sidev, val in (("below lo", bounds[c, 0] - 0.5), ("above hi", bounds[c, 1] + 0.5)):
                if not (bounds[:, 0].min() <= val <= bounds[:, 1].max()):
                    continue
                pos = np.array([inside.copy()])
                pos[0, c] = val
                env = {pbase: pos, bbase: bounds}
                r = bool(cev(test, env))
                if r != pol:
                    bad = (f"bounds {bounds.tolist()}, atom at {pos[0].tolist()}: coordinate {c} is {sidev} of its axis but the test is {r}: the frame is returned unwrapped")
                    break
            if bad:
                break
    except Exception as e:  # noqa
        return None, f"test not evaluable ({type(e).__name__}): {show(strip_alloc(test))[:80]}", None, wrapped
    if bad:
        return False, show(strip_alloc(test))[:120], bad, wrapped
    return None, f"test holds on the sampled frames (not a proof): {show(strip_alloc(test))[:100]}", None, wrapped


def _other_reads(rr) -> bool:
    """anything besides plain readline() calls that could consume lines of the handle on this path"""
    counted = set(rr.header_ids) | set(rr.atom_ids)
    if getattr(rr, "comp_reads", None):
        return True         # lines consumed per element of a comprehension: the line-by-line model does not count them
    for ev in rr.it.events:
        for v in ev.data.values():
            if not isinstance(v, tuple):
                continue
            for x in walk(v):
                if x[0] == "comp" and any(y[0] == "call" and y[1] == ".readline" and dict(y[3]).get("@", (None, None))[1] not in counted for y in walk(x)):
                    return True        # a readline evaluated per element of a comprehension (one already counted as a statement-level read merely flows in)
                if x[0] == "call" and isinstance(x[1], str) and x[1] in (".readlines", ".read", "numpy.loadtxt", "numpy.genfromtxt", "numpy.fromfile", "numpy.fromstring",
                                                                          "itertools.islice", "builtins.next", ".__next__", "pandas.read_csv", "builtins.list", "builtins.iter"):
                    return True
                # the handle handed to any other callable (a helper, a generator): it may consume lines there
                if x[0] == "call" and isinstance(x[1], str) and x[1] not in (".readline", ".split") and \
                        any(a_ == ("sym", "f") for a_ in (list(x[2][1:] if x[1].startswith(".") else x[2]) + [v_ for _, v_ in x[3] if isinstance(v_, tuple)])):
                    return True
    return any(L.iter == ("sym", "f") for L in rr.it.loops.values())


def root_alloc(t: Term, prefer=None) -> Optional[Term]:
    """The np.zeros allocation a positions / type expression is built on; with several allocations in the term (bounds compared
    with coordinates) the one accepted by `prefer` (e.g. filled inside the atom loop) wins."""
    cands = [x for x in walk(t) if x[0] == "call" and x[1] == "numpy.zeros"]
    if prefer is not None:
        for x in cands:
            if prefer(x):
                return x
    return cands[0] if cands else None


def match_wrap(ent, tr, p, lo, hi, L):
    """where(w > hi, w - L, w) with w = where(p < lo, p + L, p)  (either order of the two corrections)."""
    def where(t):
        if t[0] == "call" and t[1] == "numpy.where" and len(t[2]) == 3:
            return t[2]
        return None

    def side(cond, x):
        """classify cond as 'below' (x < lo) / 'above' (x > hi) relative to value x"""
        if cond[0] != "cmp" or cond[1] not in ("<", ">", "<=", ">="):
            return None
        l, at1 = tr(cond[2])
        r, at2 = tr(cond[3])
        op = cond[1]
        if at1 or at2:
            return None
        if sp.expand(r - x) == 0:
            l, r = r, l
            op = {"<": ">", ">": "<", "<=": ">=", ">=": "<="}[op]
        if sp.expand(l - x) != 0:
            return None
        if op in ("<", "<=") and eq(r, lo)[0]:
            return "below"
        if op in (">", ">=") and eq(r, hi)[0]:
            return "above"
        return "other"
    w2 = where(ent)
    if not w2:
        return None, f"not a nested np.where: {show(strip_alloc(ent))[:100]}", None
    inner = where(w2[2])
    if not inner or w2[2] != inner[2] and w2[2] is None:
        pass
    w1 = where(w2[2]) if where(w2[2]) else None
    # form: outer applies to the result of the inner
    if w1 is None:
        return None, "single where: only one side wrapped", None
    x1, at = tr(w1[2])
    if at or sp.expand(x1 - p) != 0:
        return None, f"inner fallback is not the raw coordinate: {sp.sstr(x1)[:60]}", None
    s1 = side(w1[0], p)
    moved1, _ = tr(w1[1])
    wsym = None
    # outer: value w = inner where; compare structurally: outer cond compares (inner) with bound
    s2 = None
    if w2[0][0] == "cmp":
        lhs, rhs = w2[0][2], w2[0][3]
        op = w2[0][1]
        if rhs == w2[2]:
            lhs, rhs = rhs, lhs
            op = {"<": ">", ">": "<", "<=": ">=", ">=": "<="}[op]
        if lhs == w2[2]:
            b, at = tr(rhs)
            if not at:
                if op in ("<", "<=") and eq(b, lo)[0]:
                    s2 = "below"
                elif op in (">", ">=") and eq(b, hi)[0]:
                    s2 = "above"
                else:
                    s2 = "other"
    if s1 is None or s2 is None:
        return None, "wrap conditions not in the idiom table", None
    # corrections
    def corr(moved, basis_term, s):
        # moved = basis +/- L
        if moved[0] == "bin" and moved[1] in ("+", "-") and (moved[2] == basis_term or (moved[1] == "+" and moved[3] == basis_term)):
            d, at = tr(moved[3] if moved[2] == basis_term else moved[2])
            if at:
                return None
            sign = 1 if moved[1] == "+" else -1
            okL = eq(d, L)[0]
            return okL and ((s == "below" and sign == 1) or (s == "above" and sign == -1))
        return None
    c1 = corr(w1[1], w1[2], s1)
    c2 = corr(w2[1], w2[2], s2)
    if {s1, s2} != {"below", "above"}:
        return False, f"conditions test {s1} and {s2}", f"a coordinate one box length {'above hi' if 'above' not in (s1, s2) else 'below lo'} is not wrapped back"
    if c1 is None or c2 is None:
        return None, "wrap corrections not in the idiom table", None
    if not (c1 and c2):
        return False, f"corrections: first {'ok' if c1 else 'wrong'}, second {'ok' if c2 else 'wrong'}", \
            "x = lo - 0.25 L is moved by the wrong amount/sign (must be + one box length below lo, - one box length above hi)"
    return True, "two-sided wrap by one box length", None


def check_wrapper(run, pkg, wname, inner):
    it = interp(pkg, f"{MOD}.{wname}")
    fi = it.fi
    fq = short(fi.qual)
    target = pkg.func(f"{MOD}.{inner}").qual
    cs = calls(it, target)
    if len(cs) != 1:
        raise AnalysisError(f"{fq}: expected one call of {inner}")
    ce = cs[0]
    ok_loop = len(ce.loops) == 1 and it.loops[ce.loops[0]].kind == "while"
    run.ob("R-LOOPDOM", fq, "frame-loop", True if ok_loop else None, "frames are read in a loop until the sentinel", f"loops {ce.loops}",
           witness=None if ok_loop else "only the first frame is read", loc=loc_of(it, ce))
    opened = [e for e in it.events if e.kind == "with" and e.data["value"][0] == "call" and e.data["value"][1] == "builtins.open"]
    handle = ce.data["call"][2][0] if ce.data["call"][2] else None
    ok_h = len(opened) == 1 and not opened[0].loops and handle == opened[0].data["value"]
    run.ob("R-HANDLE", fq, "handle", True if ok_h else (False if (handle is not None and handle[0] == "call" and handle[1] == "builtins.open" and ce.loops) else None), "one handle opened before the loop is passed to every frame read",
           show(handle)[:60] if handle else "?", witness=None if ok_h else "file reopened per frame: the first frame is read repeatedly", loc=loc_of(it, ce), sound=True)
    params = pkg.func(target).params
    args = list(ce.data["call"][2]) + [v for _, v in ce.data["call"][3]]
    ok_args = args[1:] == [("sym", p) for p in params[1:]] and params[1:] == fi.params[1:]
    run.ob("R-DISPATCH", fq, "arguments", True if ok_args else None, f"wrapper forwards its parameters {fi.params[1:]} to {inner} in order", [show(a_) for a_ in args[1:]],
           witness=None if ok_args else "dimension / selection arguments not forwarded", loc=loc_of(it, ce))
    from .c18 import memo_decorator
    dec = memo_decorator(fi)
    run.ob("R-HANDLE", fq, "fresh-read", False if dec else True, "every call reads the file as it is now (no result cache keyed on the file name)", f"@{dec}" if dec else "no memoising decorator",
           witness=None if not dec else f"@{dec}: a dump rewritten at the same path (or a trajectory still growing) is returned as first read - wrong frame count, timesteps and coordinates", loc=fi.loc(), sound=True)
    snap = ce.data["result"]
    brk = [e for e in it.events if e.kind == "break"]
    ok_b = len(brk) == 1 and any(g == ("un", "not", snap) and pol for g, pol in brk[0].guards) and brk[0].seq > ce.seq
    run.ob("R-LOOPDOM", fq, "sentinel", True if ok_b else None, "the loop ends exactly when the reader returns the falsy sentinel", [show(g)[:40] for g, _ in brk[0].guards] if brk else "no break",
           witness=None if ok_b else "loop does not stop at EOF / stops early", loc=fi.loc())
    if ok_b:
        # `not snapshot` is a truthiness test: a frame object must be truthy whatever it holds
        ci = pkg.cls("reader.reader_utils.SingleSnapshot")
        falsy = [m for m in ("__bool__", "__len__") if m in ci.methods]
        verdict = True if not falsy else None
        det = f"defines {falsy}" if falsy else "plain dataclass"
        for m in falsy[:1]:
            # the truth value is computed from the frame's data (a count that can be zero): definite; a constant truthy return is fine
            mit = interp(pkg, ci.methods[m].qual)
            rv = [r.data["value"] for r in mit.returns]
            if rv and all(is_const(v) and bool(v[1]) for v in rv):
                verdict, det = True, f"{m} always returns {show(rv[0])}"
            elif rv and any(any(x[0] == "attr" and x[1] == ("sym", mit.fi.params[0]) and x[2] in ci.fields for x in walk(v)) for v in rv):
                verdict, det = False, f"{m} returns {show(rv[0])[:60]}"
        run.ob("R-LOOPDOM", fq, "sentinel-truthiness", verdict, "the sentinel test relies on frame objects always being truthy: SingleSnapshot defines neither __bool__ nor __len__ (or one that is constantly true)",
               det, witness=None if verdict is not False else
               "a frame with no (selected) atoms - ITEM: NUMBER OF ATOMS 0, or no atom of a centre type - is falsy: it is taken for end-of-file and it and every later frame are silently dropped",
               loc=ci.module.relpath + f":{ci.node.lineno}", sound=True)
    app = [e for e in it.events if e.kind == "call" and e.data["call"][1] == ".append" and e.loops == ce.loops]
    ok_a = len(app) == 1 and app[0].data["call"][2][1] == snap and app[0].seq > (brk[0].seq if brk else -1)
    ok_a = True if ok_a else None
    wit_a = "frames dropped / duplicated / sentinel appended"
    if ok_a and brk:
        # the append may depend on nothing but "the reader did not return the sentinel": any further test drops frames the file holds
        base = set(brk[0].guards[:-1]) | {(brk[0].guards[-1][0], not brk[0].guards[-1][1])}
        extra = [(c, pol) for c, pol in app[0].guards if (c, pol) not in base and (c, pol) not in set(ce.guards)]
        if extra:
            ok_a = False
            wit_a = (f"the frame is appended only when {show(extra[0][0])[:90]} is {extra[0][1]}: a well-formed dump for which the test fails (e.g. consecutive frames with "
                     f"equal TIMESTEP lines) loses those frames - fewer snapshots than frames in the file")
    run.ob("R-LOOPDOM", fq, "append", ok_a, "every frame read is appended once, in read order, unconditionally", f"{len(app)} appends",
           witness=None if ok_a else wit_a, loc=fi.loc(), sound=True)
    augs = [e for e in it.events if e.kind == "aug" and e.loops == ce.loops]
    ok_c = len(augs) == 1 and augs[0].data["op"] == "+" and augs[0].data["value"] == C(1) and augs[0].seq > (brk[0].seq if brk else -1)
    if len(it.returns) != 1:
        raise AnalysisError(f"{fq}: expected one return")
    ret = it.returns[0].data["value"]
    kw_ = dict(ret[3]) if ret[0] == "call" else {}
    lst = app[0].data["call"][2][0] if app else None
    cnt_name = augs[0].data["name"] if augs else None
    ok_r = ret[0] == "call" and ret[1].endswith("Snapshots") and "snapshots" in kw_ and "nsnapshots" in kw_
    ok_cnt = False
    if ok_r:
        n_t = kw_["nsnapshots"]
        ok_cnt = (ok_c and n_t == augs[0].data["new"]) or (n_t[0] == "call" and n_t[1] == "builtins.len" and n_t[2][0] == kw_["snapshots"])
        init_zero = ok_c and augs[0].data["old"][0] == "mu" and augs[0].data["old"][3] == C(0)
        ok_cnt = ok_cnt and (init_zero or n_t[0] == "call")
    okcount = True if (ok_r and ok_cnt) else None
    if okcount is None and ok_r and ok_b and len(augs) == 1 and augs[0].data["op"] == "+" and augs[0].data["value"] == C(1) and ce.seq < augs[0].seq < brk[0].seq \
            and kw_["nsnapshots"] == augs[0].data["new"]:
        okcount = False        # the counter is advanced before the sentinel test: the failed read at end of file is counted as a frame
    run.ob("R-LOOPDOM", fq, "count", okcount, "nsnapshots equals the number of appended frames (starts at 0, +1 per append)",
           show(kw_.get("nsnapshots", NONE))[:60], witness=None if ok_r and ok_cnt else "frame count differs from the list length (one more than the frames appended)", loc=fi.loc(), sound=True)
    ok_l = ok_r and app and kw_["snapshots"][0] == "appended" and kw_["snapshots"][2] == snap
    run.ob("R-LOOPDOM", fq, "list", True if ok_l else None, "the returned list is the one the frames were appended to", show(kw_.get("snapshots", NONE))[:60],
           witness=None if ok_l else "another list returned", loc=fi.loc())


    # file order: nothing reorders the list of frames between the appends and the return
    import ast as _ast
    reorder = []
    for c in _ast.walk(fi.node):
        if isinstance(c, _ast.Call) and isinstance(c.func, _ast.Attribute) and c.func.attr in ("sort", "reverse") and not isinstance(c.func.value, _ast.Call):
            reorder.append(c)
        elif isinstance(c, _ast.Call) and isinstance(c.func, _ast.Name) and c.func.id in ("sorted", "reversed"):
            reorder.append(c)
    rv = kw_.get("snapshots")
    if rv is not None and rv[0] == "sub" and rv[2][0] == "slice" and rv[2][3] not in (NONE, C(1)):
        reorder.append(None)
    run.ob("R-LOOPDOM", fq, "file-order", False if reorder else True, "snapshots are returned in the order the frames have in the file (no sorting / reversing of the list)",
           _ast.unparse(reorder[0])[:80] if reorder and reorder[0] is not None else ("strided list" if reorder else "no reordering call"),
           witness=None if not reorder else "a dump whose TIMESTEP values are not increasing in file order (a second run appended after reset_timestep 0): the frames come back in another order than the file has them",
           loc=fi.loc(reorder[0]) if reorder and reorder[0] is not None else fi.loc(), sound=True)


def check_dispatch(run, pkg):
    mi = pkg.module("reader.dump_reader")
    it = interp(pkg, "reader.dump_reader.DumpReader.read_onefile")
    fi = it.fi
    fq = short(fi.qual)
    import ast as _ast
    gnode = mi.globals.get("FILE_TYPE_MAP_READER")
    if gnode is None or not isinstance(gnode, _ast.Dict):
        raise AnalysisError("FILE_TYPE_MAP_READER is no longer a module-level dict literal")
    table = {}
    for k, v in zip(gnode.keys, gnode.values):
        kq = _ast.unparse(k)
        vq = pkg.resolve_name(mi, _ast.unparse(v))
        table[kq.split(".")[-1]] = vq
    members = enum_members(pkg, "reader.reader_utils.DumpFileType")
    want = {"LAMMPS": "read_lammps_wrapper", "LAMMPSCENTER": "read_lammps_centertype_wrapper", "GSD": "read_gsd_wrapper",
            "GSD_DCD": "read_gsd_dcd_wrapper", "LAMMPSVECTOR": "read_lammps_vector_wrapper"}
    attrs = init_attrs(pkg, "reader.dump_reader.DumpReader")
    enum_q = pkg.cls("reader.reader_utils.DumpFileType").qual
    # the call through the table
    dyn = [e for e in it.events if e.kind == "call" and isinstance(e.data["call"][1], tuple)]
    gq = pkg.resolve_name(mi, "FILE_TYPE_MAP_READER")
    table_term = None
    if len(dyn) == 1 and dyn[0].data["call"][1][1][0] == "sub":
        table_term = dyn[0].data["call"][1][1][1]
    # the table is either referred to by name or (being an effectively constant literal) read through by the interpreter
    is_table = table_term is not None and (table_term == ("global", gq) or
                                           (table_term[0] == "dict" and {(show(k).split(".")[-1], v[1] if v[0] == "mod" else None) for k, v in table_term[1]} == set(table.items())))
    ok_call = is_table and dyn[0].data["call"][1][1][2] == ("attr", ("sym", "self"), "filetype")
    run.ob("R-DISPATCH", fq, "table-call", True if ok_call else None, "the reader is selected by FILE_TYPE_MAP_READER[self.filetype]", show(dyn[0].data["call"][1][1])[:80] if dyn else "?",
           witness=None if ok_call else "reader not selected by file type", loc=fi.loc())
    for m in members:
        key = f"member {m}"
        if m not in table:
            run.ob("R-DISPATCH", fq, key, False if ok_call else None, f"DumpFileType.{m} has a reader", "missing from FILE_TYPE_MAP_READER", witness=f"filetype={m}: KeyError", loc=fi.loc(), sound=True)
            continue
        wq = table[m]
        okw = wq is not None and wq in pkg.functions and (m not in want or wq.endswith("." + want[m]))
        # definite: the member is routed to the wrapper that belongs to another member
        okw_ = True if okw else (False if (wq is not None and m in want and any(wq.endswith("." + w_) for m2, w_ in want.items() if m2 != m)) else None)
        run.ob("R-DISPATCH", fq, key, okw_, f"DumpFileType.{m} is read by {want.get(m, 'its wrapper')}", f"mapped to {short(wq) if wq else None}",
               witness=None if okw else f"filetype={m} is parsed by {short(wq) if wq else None}", loc=fi.loc(), sound=True)
        if not okw or wq not in pkg.functions:
            continue
        # keys provided for this member
        def leaf(c, m=m):
            c = expand_self(c, {})
            if c[0] == "cmp" and c[1] == "==":
                a_, b_ = c[2], c[3]
                if b_ == ("attr", ("sym", "self"), "filetype"):
                    a_, b_ = b_, a_
                if a_ == ("attr", ("sym", "self"), "filetype") and b_[0] == "mod" and b_[1].startswith(enum_q + "."):
                    return b_[1] == f"{enum_q}.{m}"
            return None
        provided = {}
        base = None
        for e in it.events:
            if e.kind == "assign" and e.data["value"][0] == "dict" and base is None:
                base = e.data["value"]
                for k_, v_ in base[1]:
                    if is_const(k_):
                        provided[k_[1]] = v_
        uncertain = base is None
        for e in stores(it):
            if base is not None and e.data["target"][1] == base:
                if not is_const(e.data["target"][2]):
                    uncertain = True
                    continue
                ge = guard_eval(e.guards, lambda c: eval_bool(c, leaf))
                if ge is True:
                    provided[e.data["target"][2][1]] = e.data["value"]
                elif ge is None:
                    uncertain = True
        if any(e.kind == "call" and e.data["call"][1] in (".update", ".setdefault", ".pop") and e.data["call"][2] and e.data["call"][2][0] == base for e in it.events):
            uncertain = True
        wf = pkg.functions[wq]
        required = [p for p in wf.params if p not in wf.defaults()]
        missing = [p for p in required if p not in provided]
        extra = [k_ for k_ in provided if k_ not in wf.params]
        okp = True if (not missing and not extra) else (None if uncertain else False)     # exact set comparison of the keys stored for this member
        run.ob("R-DISPATCH", fq, key + ":kwargs", okp, f"{want.get(m, m)} receives exactly its parameters {wf.params}", f"provided {sorted(provided)}",
               witness=None if okp else f"filetype={m}: TypeError (missing {missing}, unexpected {extra})", loc=fi.loc(), sound=True)
        for p_, src in (("file_name", "filename"), ("ndim", "ndim"), ("moltypes", "moltypes"), ("columnsids", "columnsids")):
            if p_ in provided and p_ in wf.params:
                got = expand_self(provided[p_], attrs)
                okv = eqv(got, ("sym", src))
                run.ob("R-DISPATCH", fq, key + f":{p_}", okv, f"{p_} is the value the user gave as '{src}'", show(got)[:40],
                       witness=None if okv else f"{p_} receives {show(got)[:30]}", loc=fi.loc(), sound=True)
    run.minimum("R-DISPATCH", 15)
