"""Shared post-passes on the syntax tree of every function a check analysed (C18: of every function of the package).

Each rule reports only a construct whose misbehaviour follows from Python's own semantics - the witness is a call sequence,
not a numerical example:

R-ONESHOT     a one-shot iterator (zip / map / filter / iter / enumerate / reversed / generator expression) stored on the
              instance by one method and iterated by another: the second call iterates nothing.  Likewise a local one-shot
              iterator created outside a loop and iterated inside it.
R-SELFUPDATE  a method other than __init__ rebinds `self.X` to a non-idempotent function of `self.X` (decided exactly with
              sympy: f(f(x)) != f(x) at a rational point): a second call starts from a different state.
R-ACCUM       a list created outside a loop, appended to inside it and written / converted as a whole inside the same loop
              without being reset there: iteration n re-emits the items of iterations 0..n-1.
R-FORWARD     an option of the caller whose name is also a defaulted parameter of an intra-package callee is not handed on:
              the caller's documented option has no effect there.  Instances are enumerated from the repository (all forward
              today except `outputfile`, where the caller writes its own file).
R-SAVE-FWD    a routine hands its output file name to a callee that writes its own return value there, and then changes that
              value before returning it: the file does not hold what the call returned.
R-UNINIT      an array from np.empty that is read while every earlier store into it was partial (boolean mask or under a
              test) and none covered the whole array.
R-STATE-PATH  a method stores a freshly computed local in `self.X` on some return paths but returns it without storing on
              another, while other methods read `self.X`.
"""
from __future__ import annotations

import ast
from typing import Dict, List, Optional, Set, Tuple

import sympy as sp

from ..model import Package, FunctionInfo, norm_stmt
from ..report import Run

ONESHOT = {"zip", "map", "filter", "iter", "enumerate", "reversed"}
FORWARD_EXCEPTIONS = {
    "outputfile": "the caller writes its own file after post-processing the callee's result (5 sites today)",
}
ARRAY_CTORS = {"array", "asarray", "vstack", "hstack", "stack", "concatenate", "column_stack", "row_stack"}
SAVE_FUNCS = {"save", "savetxt", "savez"}


def short(q: str) -> str:
    return q.replace("PyMatterSim.", "")


def is_self_attr(n: ast.AST, name: Optional[str] = None) -> bool:
    return isinstance(n, ast.Attribute) and isinstance(n.value, ast.Name) and n.value.id == "self" and (name is None or n.attr == name)


def is_oneshot(v: ast.AST) -> Optional[str]:
    if isinstance(v, ast.GeneratorExp):
        return "generator expression"
    if isinstance(v, ast.Call) and isinstance(v.func, ast.Name) and v.func.id in ONESHOT:
        return f"{v.func.id}(...)"
    if isinstance(v, ast.Call) and isinstance(v.func, ast.Attribute) and isinstance(v.func.value, ast.Name) and v.func.value.id == "itertools":
        return f"itertools.{v.func.attr}(...)"
    return None


def parents_map(root: ast.AST) -> Dict[ast.AST, ast.AST]:
    out = {}
    for p in ast.walk(root):
        for c in ast.iter_child_nodes(p):
            out[c] = p
    return out


def enclosing_loops(node: ast.AST, par: Dict[ast.AST, ast.AST], stop: ast.AST) -> List[ast.AST]:
    out = []
    cur = node
    while cur is not stop and cur in par:
        p = par[cur]
        if isinstance(p, (ast.For, ast.While)) and cur is not getattr(p, "iter", None) and cur is not getattr(p, "test", None):
            # a node in the `orelse` of a loop is not inside the loop; body only
            if any(cur is s for s in p.body) or not any(cur is s for s in p.orelse):
                out.append(p)
        cur = p
    return out


def iter_sites(fn: ast.AST, match) -> List[ast.AST]:
    """places where a value is iterated: for-iter, comprehension iter, argument of a call"""
    out = []
    for n in ast.walk(fn):
        if isinstance(n, ast.For) and match(n.iter):
            out.append(n)
        elif isinstance(n, ast.comprehension) and match(n.iter):
            out.append(n.iter)
        elif isinstance(n, ast.Call) and any(match(a) for a in n.args):
            out.append(n)
    return out


# --------------------------------------------------------------------------------------------------------------------
def oneshot_pass(run: Run, pkg: Package, funcs: List[FunctionInfo]) -> int:
    n = 0
    seen_cls = set()
    for fi in funcs:
        # (a) instance attribute
        if fi.cls is not None and fi.cls.qual not in seen_cls:
            seen_cls.add(fi.cls.qual)
            assigned: Dict[str, Tuple[FunctionInfo, ast.AST, str]] = {}
            for m in fi.cls.methods.values():
                for s in ast.walk(m.node):
                    if isinstance(s, ast.Assign):
                        kind = is_oneshot(s.value)
                        for t in s.targets:
                            if is_self_attr(t):
                                n += 1
                                if kind:
                                    assigned[t.attr] = (m, s, kind)
            for attr, (m, s, kind) in assigned.items():
                for m2 in fi.cls.methods.values():
                    if m2 is m:
                        continue
                    sites = iter_sites(m2.node, lambda x: is_self_attr(x, attr))
                    if sites:
                        run.ob("R-ONESHOT", short(m2.qual), f"self.{attr}", False,
                               "a value stored on the instance and iterated by a method can be iterated on every call",
                               f"self.{attr} is bound to a one-shot iterator ({kind}) in {short(m.qual)} [{norm_stmt(s)[:80]}] and iterated in {short(m2.qual)}",
                               witness=f"call {m2.name}() twice on one object (or any two methods that iterate self.{attr}): the second call iterates an exhausted iterator - zero items, "
                                       f"so its loop body never runs and the result is built from the initial accumulators", loc=m2.loc(sites[0]), sound=True)
        # (b) local one-shot iterated inside a loop it was created outside of
        par = parents_map(fi.node)
        for s in ast.walk(fi.node):
            if isinstance(s, ast.Assign) and len(s.targets) == 1 and isinstance(s.targets[0], ast.Name):
                kind = is_oneshot(s.value)
                if not kind:
                    continue
                name = s.targets[0].id
                n += 1
                l0 = enclosing_loops(s, par, fi.node)
                for site in iter_sites(fi.node, lambda x: isinstance(x, ast.Name) and x.id == name):
                    l1 = enclosing_loops(site, par, fi.node)
                    if isinstance(site, ast.For):
                        pass
                    extra = [L for L in l1 if L not in l0]
                    if extra and getattr(site, "lineno", 0) > s.lineno:
                        run.ob("R-ONESHOT", short(fi.qual), name, False, "an iterator consumed inside a loop is re-created in every iteration",
                               f"{name} = {kind} is created outside the loop at line {extra[-1].lineno} and iterated inside it",
                               witness="from the second iteration of the enclosing loop on, the iterator is exhausted and yields nothing", loc=fi.loc(site), sound=True)
                        break
    return n


# --------------------------------------------------------------------------------------------------------------------
class _ToSym(ast.NodeVisitor):
    def __init__(self, attr: str):
        self.attr = attr
        self.x = sp.Symbol("x", positive=True)
        self.syms: Dict[str, sp.Symbol] = {}

    def atom(self, n: ast.AST):
        if is_self_attr(n, self.attr):
            return self.x
        key = ast.unparse(n)
        if key not in self.syms:
            self.syms[key] = sp.Symbol(f"a{len(self.syms)}", positive=True)
        return self.syms[key]

    def tr(self, n: ast.AST):
        if isinstance(n, ast.Constant) and isinstance(n.value, (int, float)) and not isinstance(n.value, bool):
            return sp.nsimplify(n.value) if isinstance(n.value, float) else sp.Integer(n.value)
        if isinstance(n, ast.BinOp):
            a, b = self.tr(n.left), self.tr(n.right)
            if isinstance(n.op, ast.Add):
                return a + b
            if isinstance(n.op, ast.Sub):
                return a - b
            if isinstance(n.op, ast.Mult):
                return a * b
            if isinstance(n.op, ast.Div):
                return a / b
            if isinstance(n.op, ast.Pow):
                return a ** b
            raise ValueError("operator")
        if isinstance(n, ast.UnaryOp) and isinstance(n.op, ast.USub):
            return -self.tr(n.operand)
        if isinstance(n, ast.Call) and isinstance(n.func, ast.Attribute) and isinstance(n.func.value, ast.Name) and n.func.value.id in ("np", "numpy", "math") \
                and len(n.args) == 1 and not n.keywords:
            f = {"sqrt": sp.sqrt, "abs": sp.Abs, "absolute": sp.Abs, "square": lambda v: v ** 2, "exp": sp.exp, "log": sp.log,
                 "asarray": lambda v: v, "array": lambda v: v, "float64": lambda v: v}.get(n.func.attr)
            if f is None:
                raise ValueError("call")
            return f(self.tr(n.args[0]))
        if isinstance(n, ast.Call) and isinstance(n.func, ast.Name) and n.func.id in ("float", "abs") and len(n.args) == 1:
            return sp.Abs(self.tr(n.args[0])) if n.func.id == "abs" else self.tr(n.args[0])
        if isinstance(n, (ast.Name, ast.Attribute, ast.Subscript)):
            if any(is_self_attr(m, self.attr) for m in ast.walk(n)) and not is_self_attr(n, self.attr):
                raise ValueError("state inside an accessor")
            return self.atom(n)
        raise ValueError(type(n).__name__)


def selfupdate_pass(run: Run, pkg: Package, funcs: List[FunctionInfo]) -> int:
    n = 0
    for fi in funcs:
        if fi.cls is None or fi.name == "__init__":
            continue
        init = fi.cls.methods.get("__init__")
        init_attrs = set()
        if init is not None:
            init_attrs = {t.attr for s in ast.walk(init.node) if isinstance(s, (ast.Assign, ast.AugAssign, ast.AnnAssign))
                          for t in (s.targets if isinstance(s, ast.Assign) else [s.target]) if is_self_attr(t)}
        # attributes (re)bound earlier in this method by a value that does not depend on themselves: per-call accumulators
        fresh_before: Dict[str, int] = {}
        for s in ast.walk(fi.node):
            if isinstance(s, ast.Assign):
                for t in s.targets:
                    if is_self_attr(t) and not any(is_self_attr(m, t.attr) for m in ast.walk(s.value)):
                        fresh_before[t.attr] = min(fresh_before.get(t.attr, 10 ** 9), s.lineno)
        for s in ast.walk(fi.node):
            tgt = val = None
            if isinstance(s, ast.AugAssign) and is_self_attr(s.target):
                tgt, val = s.target, ast.BinOp(left=s.target, op=s.op, right=s.value)
            elif isinstance(s, ast.Assign) and len(s.targets) == 1 and is_self_attr(s.targets[0]) and \
                    any(is_self_attr(m, s.targets[0].attr) for m in ast.walk(s.value)):
                tgt, val = s.targets[0], s.value
            if tgt is None:
                continue
            n += 1
            attr = tgt.attr
            if fresh_before.get(attr, 10 ** 9) < s.lineno or attr not in init_attrs:
                continue            # reset earlier in the same call, or not constructor state
            ts = _ToSym(attr)
            try:
                f = ts.tr(val)
            except Exception:  # noqa
                continue            # not an arithmetic update: left to the effect analysis (R-EFFECT / R-STATE)
            x = ts.x
            ff = f.subs(x, f)
            try:
                if sp.simplify(ff - f) == 0:
                    continue
            except Exception:  # noqa
                pass
            wit = None
            for base in (2, 3):
                vals = {x: sp.Integer(base)}
                for k, sym in enumerate(ts.syms.values()):
                    vals[sym] = sp.Rational(base + 3 + 2 * k, 2)
                try:
                    a, b = sp.nsimplify(f.subs(vals)), sp.nsimplify(ff.subs(vals))
                    if sp.simplify(a - b) != 0:
                        names = ", ".join(f"{k} = {vals[v]}" for k, v in ts.syms.items())
                        wit = f"self.{attr} = {base}" + (f", {names}" if names else "") + f": after one call self.{attr} = {a}, after two calls {b}"
                        break
                except Exception:  # noqa
                    continue
            if wit is None:
                continue
            run.ob("R-SELFUPDATE", short(fi.qual), f"self.{attr}", False,
                   "constructor state is not rescaled by the methods that use it (repeated calls start from the same state)",
                   f"{norm_stmt(s)[:120]} rebinds self.{attr} to a non-idempotent function of itself", witness=wit + " - every later call on the object sees the changed value",
                   loc=fi.loc(s), sound=True)
    return n


# --------------------------------------------------------------------------------------------------------------------
def accum_pass(run: Run, pkg: Package, funcs: List[FunctionInfo]) -> int:
    n = 0
    for fi in funcs:
        par = parents_map(fi.node)
        lists: Dict[str, ast.AST] = {}
        for s in ast.walk(fi.node):
            if isinstance(s, ast.Assign) and len(s.targets) == 1 and isinstance(s.targets[0], ast.Name):
                v = s.value
                if (isinstance(v, ast.List) and not v.elts) or (isinstance(v, ast.Call) and isinstance(v.func, ast.Name) and v.func.id == "list" and not v.args):
                    lists.setdefault(s.targets[0].id, s)
        for name, alloc in lists.items():
            l0 = enclosing_loops(alloc, par, fi.node)
            appends = [c for c in ast.walk(fi.node) if isinstance(c, ast.Call) and isinstance(c.func, ast.Attribute) and c.func.attr in ("append", "extend")
                       and isinstance(c.func.value, ast.Name) and c.func.value.id == name]
            if not appends:
                continue
            n += 1
            for ap in appends:
                for L in [L for L in enclosing_loops(ap, par, fi.node) if L not in l0]:
                    # resets inside L
                    reset = False
                    for s in ast.walk(L):
                        if isinstance(s, ast.Assign) and any(isinstance(t, ast.Name) and t.id == name for t in s.targets):
                            reset = True
                        if isinstance(s, ast.Call) and isinstance(s.func, ast.Attribute) and s.func.attr == "clear" and isinstance(s.func.value, ast.Name) and s.func.value.id == name:
                            reset = True
                        if isinstance(s, ast.Delete):
                            reset = reset or any(name in ast.unparse(t) for t in s.targets)
                    if reset:
                        continue
                    for c in ast.walk(L):
                        if not isinstance(c, ast.Call):
                            continue
                        whole = [a for a in list(c.args) + [k.value for k in c.keywords] if isinstance(a, ast.Name) and a.id == name]
                        if not whole:
                            # ... or the whole list joined / converted inside the argument: write(sep.join(name) + ...)
                            for a in list(c.args) + [k.value for k in c.keywords]:
                                for m in ast.walk(a):
                                    if isinstance(m, ast.Call) and isinstance(m.func, ast.Attribute) and m.func.attr == "join" and len(m.args) == 1 \
                                            and isinstance(m.args[0], ast.Name) and m.args[0].id == name:
                                        whole.append(m.args[0])
                        if not whole:
                            continue
                        fn = c.func
                        sink = None
                        if isinstance(fn, ast.Attribute) and fn.attr in SAVE_FUNCS | {"write", "writelines", "to_csv"}:
                            sink = f"{ast.unparse(fn)}(...)"
                        elif isinstance(fn, ast.Attribute) and fn.attr in ARRAY_CTORS:
                            sink = f"{ast.unparse(fn)}(...)"
                        if sink is None:
                            continue
                        # the conversion must itself be per-iteration (inside L, not deeper than the append's own loop is fine)
                        run.ob("R-ACCUM", short(fi.qual), f"{name}@{norm_stmt(par.get(c, c))[:60]}", False,
                               "a list that is written / converted once per iteration holds only that iteration's items",
                               f"{name} is created before the loop at line {L.lineno}, grows inside it and is consumed whole by {sink} inside the same loop without being reset",
                               witness=f"two iterations: the second {sink} call receives the items of iteration 0 followed by those of iteration 1 (frame n re-emits frames 0..n-1)",
                               loc=fi.loc(c), sound=True)
                        break
                    else:
                        continue
                    break
    return n


# --------------------------------------------------------------------------------------------------------------------
def resolve_callee(pkg: Package, fi: FunctionInfo, call: ast.Call) -> Optional[FunctionInfo]:
    f = call.func
    if isinstance(f, ast.Name):
        q = pkg.resolve_name(fi.module, f.id)
        if q and q in pkg.functions:
            return pkg.functions[q]
        if q and q in pkg.classes and "__init__" in pkg.classes[q].methods:
            return pkg.classes[q].methods["__init__"]
    elif isinstance(f, ast.Attribute) and isinstance(f.value, ast.Name) and f.value.id in ("self", "cls") and fi.cls is not None and f.attr in fi.cls.methods:
        return fi.cls.methods[f.attr]
    elif isinstance(f, ast.Attribute) and isinstance(f.value, ast.Name) and fi.cls is not None and f.value.id == fi.cls.node.name and f.attr in fi.cls.methods:
        return fi.cls.methods[f.attr]
    return None


def bound_params(callee: FunctionInfo, call: ast.Call) -> Optional[Set[str]]:
    cps = [p for p in callee.params if p not in ("self", "cls")]
    given = set()
    for k in call.keywords:
        if k.arg is None:
            return None             # **kwargs: unknown
        given.add(k.arg)
    for k, a in enumerate(call.args):
        if isinstance(a, ast.Starred):
            return None
        if k < len(cps):
            given.add(cps[k])
    return given


def forward_pass(run: Run, pkg: Package, funcs: List[FunctionInfo]) -> int:
    n = 0
    for fi in funcs:
        own = set(fi.params) - {"self", "cls"}
        attrs = set()
        if fi.cls is not None and "__init__" in fi.cls.methods:
            # options of the instance: constructor parameters stored under their own name (self.ppp = ppp)
            init = fi.cls.methods["__init__"]
            ip = set(init.params)
            for st in ast.walk(init.node):
                if isinstance(st, ast.Assign) and isinstance(st.value, ast.Name) and st.value.id in ip:
                    attrs |= {t.attr for t in st.targets if is_self_attr(t) and t.attr == st.value.id}
        for call in ast.walk(fi.node):
            if not isinstance(call, ast.Call):
                continue
            callee = resolve_callee(pkg, fi, call)
            if callee is None or callee is fi:
                continue
            given = bound_params(callee, call)
            if given is None:
                continue
            dfl = callee.defaults()
            used = {m.id for m in ast.walk(callee.node) if isinstance(m, ast.Name) and isinstance(m.ctx, ast.Load)}
            for p in callee.params:
                if p in ("self", "cls") or p not in dfl:
                    continue
                if p in own or p in attrs:
                    n += 1
                    if p in given or p in FORWARD_EXCEPTIONS or p not in used:
                        continue
                    src = f"parameter {p}" if p in own else f"self.{p}"
                    run.ob("R-FORWARD", short(fi.qual), f"{short(callee.qual)}:{p}", False,
                           "an option of the caller that the callee also takes is handed on to it",
                           f"{short(fi.qual)} has {src} but calls {short(callee.qual)} without it: the callee uses its default {ast.unparse(dfl[p])}",
                           witness=f"any call of {fi.name} with {p} different from {ast.unparse(dfl[p])}: the value is ignored inside {callee.name}", loc=fi.loc(call), sound=True)
    return n


# --------------------------------------------------------------------------------------------------------------------
def save_summary(pkg: Package, fi: FunctionInfo) -> Optional[Tuple[str, str]]:
    """(file parameter, saved-and-returned local) when the function writes the object it returns to a file named by a parameter"""
    params = set(fi.params)
    rets = [r.value for r in ast.walk(fi.node) if isinstance(r, ast.Return) and r.value is not None]
    ret_names = {r.id for r in rets if isinstance(r, ast.Name)} | {e.id for r in rets if isinstance(r, ast.Tuple) for e in r.elts if isinstance(e, ast.Name)}
    for c in ast.walk(fi.node):
        if not isinstance(c, ast.Call) or not isinstance(c.func, ast.Attribute):
            continue
        data = fname = None
        if c.func.attr in ("save", "savetxt") and len(c.args) >= 2:
            fname, data = c.args[0], c.args[1]
        elif c.func.attr == "to_csv" and c.args:
            fname, data = c.args[0], c.func.value
        if data is None:
            continue
        fps = [m.id for m in ast.walk(fname) if isinstance(m, ast.Name) and m.id in params]
        if fps and isinstance(data, ast.Name) and data.id in ret_names:
            return fps[0], data.id
    return None


def _exclusive(a: ast.AST, b: ast.AST, par, root) -> bool:
    """the two nodes sit in different arms of one if / else (or try / except): they never run in the same call"""
    anc_a = [a] + list(_ancestors(a, par, root))
    anc_b = [b] + list(_ancestors(b, par, root))
    for x in anc_a:
        if isinstance(x, ast.If) and x in anc_b:
            in_body = lambda n_: any(n_ is m for st in x.body for m in ast.walk(st))      # noqa: E731
            in_else = lambda n_: any(n_ is m for st in x.orelse for m in ast.walk(st))    # noqa: E731
            if (in_body(a) and in_else(b)) or (in_else(a) and in_body(b)):
                return True
    return False


def savefwd_pass(run: Run, pkg: Package, funcs: List[FunctionInfo]) -> int:
    n = 0
    for fi in funcs:
        params = set(fi.params)
        par = parents_map(fi.node)
        body = list(ast.walk(fi.node))
        multi: Dict[str, list] = {}
        n += _savefwd_calls(run, pkg, fi, params, par, body, multi)
        # the same requested file handed to two saving callees that run in the same call: the later one overwrites the earlier
        for fname, sites in multi.items():
            sites = sorted(sites, key=lambda cs: (cs[0].lineno, cs[0].col_offset))
            for i in range(len(sites)):
                for j in range(i + 1, len(sites)):
                    (c1, g1), (c2, g2) = sites[i], sites[j]
                    if _exclusive(c1, c2, par, fi.node) or enclosing_loops(c1, par, fi.node) or enclosing_loops(c2, par, fi.node):
                        continue
                    run.ob("R-SAVE-FWD", short(fi.qual), f"{fname}:twice@{norm_stmt(_stmt_of(c2, par))[:50]}", False,
                           "a requested output file holds what the routine returns",
                           f"`{fname}` is handed to {short(g1.qual)} (line {c1.lineno}) and again to {short(g2.qual)} (line {c2.lineno}) on the same path; both write their own result there",
                           witness=f"one call with {fname} given: the second write replaces the first, the file holds only the result of the call at line {c2.lineno}, "
                                   f"not what {fi.name} returns from both", loc=fi.loc(c2), sound=True)
                    break
                else:
                    continue
                break
    return n


def _savefwd_calls(run: Run, pkg: Package, fi: FunctionInfo, params, par, body, multi) -> int:
    n = 0
    if True:
        for call in body:
            if not isinstance(call, ast.Call):
                continue
            callee = resolve_callee(pkg, fi, call)
            if callee is None or callee is fi:
                continue
            summ = save_summary(pkg, callee)
            if summ is None:
                continue
            fparam, _ = summ
            cps = [p for p in callee.params if p not in ("self", "cls")]
            arg = None
            for k in call.keywords:
                if k.arg == fparam:
                    arg = k.value
            if arg is None and fparam in cps and cps.index(fparam) < len(call.args):
                arg = call.args[cps.index(fparam)]
            if arg is None:
                # f(..., **options) with `options` a local dictionary literal that carries the file name
                for k in call.keywords:
                    if k.arg is None and isinstance(k.value, ast.Name):
                        d = _local_def(fi, k.value.id)
                        if isinstance(d, ast.Dict):
                            for kk, vv in zip(d.keys, d.values):
                                if isinstance(kk, ast.Constant) and kk.value == fparam:
                                    arg = vv
            if arg is None:
                continue
            n += 1
            if not (isinstance(arg, ast.Name) and arg.id in params):
                continue            # a constant, or a name DERIVED from the caller's (outputfile + ".QIJ_cg.npy"): an auxiliary file by design
            multi.setdefault(arg.id, []).append((call, callee))
            stmt = _stmt_of(call, par)
            why = None
            loc_node = call
            if isinstance(stmt, ast.Return) and stmt.value is call:
                continue            # return g(..., outputfile): the file holds exactly what is returned
            in_loop = enclosing_loops(call, par, fi.node) or any(isinstance(a, (ast.ListComp, ast.GeneratorExp, ast.SetComp, ast.DictComp)) for a in _ancestors(call, par, fi.node))
            loopvars = set()
            for a in _ancestors(call, par, fi.node):
                if isinstance(a, ast.For):
                    loopvars |= {m.id for m in ast.walk(a.target) if isinstance(m, ast.Name)}
                elif isinstance(a, (ast.ListComp, ast.GeneratorExp, ast.SetComp, ast.DictComp)):
                    loopvars |= {m.id for g in a.generators for m in ast.walk(g.target) if isinstance(m, ast.Name)}
            if in_loop and loopvars & {m.id for m in ast.walk(arg) if isinstance(m, ast.Name)}:
                continue            # a different file per iteration
            if in_loop:
                why = f"the call sits in a loop / comprehension: every iteration rewrites the same file, and what {fi.name} returns is assembled afterwards"
            elif isinstance(stmt, ast.Assign) and len(stmt.targets) == 1 and isinstance(stmt.targets[0], ast.Name) and stmt.value is call:
                r = stmt.targets[0].id
                changed = None
                for t in body:
                    if getattr(t, "lineno", 0) <= stmt.lineno:
                        continue
                    if isinstance(t, ast.AugAssign) and ((isinstance(t.target, ast.Name) and t.target.id == r) or
                                                          (isinstance(t.target, (ast.Subscript, ast.Attribute)) and r in {m.id for m in ast.walk(t.target) if isinstance(m, ast.Name)})):
                        changed = t
                    elif isinstance(t, ast.Assign) and any((isinstance(x, ast.Name) and x.id == r) or
                                                             (isinstance(x, ast.Subscript) and isinstance(x.value, ast.Name) and x.value.id == r) for x in t.targets):
                        changed = t
                    if changed is not None:
                        break
                rets = [x for x in body if isinstance(x, ast.Return) and x.value is not None and x.lineno > stmt.lineno]
                if changed is not None and any(r in {m.id for m in ast.walk(x.value) if isinstance(m, ast.Name)} and x.lineno > changed.lineno for x in rets):
                    why = f"{fi.name} then changes that result [{norm_stmt(changed)[:80]}] before returning it"
                    loc_node = changed
                elif rets and not any((isinstance(x.value, ast.Name) and x.value.id == r) or
                                      (isinstance(x.value, ast.Tuple) and any(isinstance(e, ast.Name) and e.id == r for e in x.value.elts)) for x in rets):
                    why = f"{fi.name} returns {ast.unparse(rets[-1].value)[:60]}, not the value the callee wrote"
                    loc_node = rets[-1]
            else:
                continue
            if why is None:
                continue
            run.ob("R-SAVE-FWD", short(fi.qual), f"{short(callee.qual)}:{fparam}", False,
                   "a file written on behalf of a call holds the values that call returns",
                   f"{short(callee.qual)} writes its own result to the file named by {ast.unparse(arg)[:60]}; {why}",
                   witness=f"any call of {fi.name} with an output file: the file holds a value of the callee, the call returns another one", loc=fi.loc(loc_node), sound=True)
    return n


# --------------------------------------------------------------------------------------------------------------------
def uninit_pass(run: Run, pkg: Package, funcs: List[FunctionInfo]) -> int:
    n = 0
    for fi in funcs:
        par = parents_map(fi.node)
        for s in ast.walk(fi.node):
            if not (isinstance(s, ast.Assign) and len(s.targets) == 1 and isinstance(s.targets[0], ast.Name) and isinstance(s.value, ast.Call)
                    and isinstance(s.value.func, ast.Attribute) and s.value.func.attr in ("empty", "empty_like")):
                continue
            name = s.targets[0].id
            n += 1
            events = []      # (lineno, kind, node) in source order
            for m in ast.walk(fi.node):
                if isinstance(m, ast.Name) and m.id == name and getattr(m, "lineno", 0) > s.lineno:
                    p = par.get(m)
                    if isinstance(m.ctx, ast.Store):
                        events.append((m.lineno, "rebind", m))
                    elif isinstance(p, ast.Subscript) and p.value is m and isinstance(p.ctx, ast.Store):
                        gp = par.get(p)
                        events.append((m.lineno, "augstore" if isinstance(gp, ast.AugAssign) and gp.target is p else "store", p))
                    elif isinstance(p, ast.AugAssign) and p.target is m:
                        events.append((m.lineno, "augstore", p))
                    elif isinstance(p, ast.Attribute) and p.attr in ("fill",) and isinstance(par.get(p), ast.Call):
                        events.append((m.lineno, "fill", p))
                    elif isinstance(p, ast.Attribute) and p.attr in ("shape", "dtype", "ndim", "size"):
                        continue
                    else:
                        events.append((m.lineno, "read", m))
            events.sort(key=lambda e: e[0])
            partial_only = True
            for ln, kind, node in events:
                if kind in ("rebind", "fill"):
                    break
                if kind == "store":
                    idx = node.slice
                    whole = isinstance(idx, ast.Slice) and idx.lower is None and idx.upper is None or (isinstance(idx, ast.Constant) and idx.value is Ellipsis)
                    if whole:
                        break
                    masked = any(isinstance(x, ast.Compare) for x in ast.walk(idx)) or _mask_names(fi, idx)
                    guarded = any(isinstance(a, ast.If) for a in _ancestors(node, par, fi.node))
                    if not (masked or guarded):
                        partial_only = False
                    continue
                if kind in ("read", "augstore") and partial_only:
                    prior = [e for e in events if e[0] < ln and e[1] == "store"]
                    run.ob("R-UNINIT", short(fi.qual), f"{name}@{norm_stmt(_stmt_of(node, par))[:60]}", False,
                           "every element of a result array that is read has been assigned (np.empty returns whatever bytes the allocator recycles)",
                           f"{name} comes from {ast.unparse(s.value.func)}; " + ("no store precedes this read" if not prior else
                                                                                f"the {len(prior)} store(s) before this read are all partial (boolean mask or under a test)"),
                           witness="the elements skipped by the mask / test are read as left-over memory: repeated calls with identical inputs return different arrays",
                           loc=fi.loc(node), sound=True)
                    break
                if kind in ("read", "augstore"):
                    break
    return n


def _ancestors(node, par, stop):
    cur = node
    while cur in par and cur is not stop:
        cur = par[cur]
        yield cur


def _stmt_of(node, par):
    cur = node
    while cur in par and not isinstance(cur, ast.stmt):
        cur = par[cur]
    return cur


def _mask_names(fi: FunctionInfo, idx: ast.AST) -> bool:
    """index names bound to a comparison (boolean mask) somewhere in the function"""
    names = {m.id for m in ast.walk(idx) if isinstance(m, ast.Name)}
    for s in ast.walk(fi.node):
        if isinstance(s, ast.Assign) and isinstance(s.value, ast.Compare):
            for t in s.targets:
                if isinstance(t, ast.Name) and t.id in names:
                    return True
    return False


# --------------------------------------------------------------------------------------------------------------------
def statepath_pass(run: Run, pkg: Package, funcs: List[FunctionInfo]) -> int:
    """self.X = <local v> on some path; another return hands back a value computed from v without that store."""
    n = 0
    for fi in funcs:
        if fi.cls is None or fi.name == "__init__":
            continue
        stores = [(s, s.targets[0].attr, s.value.id) for s in ast.walk(fi.node)
                  if isinstance(s, ast.Assign) and len(s.targets) == 1 and is_self_attr(s.targets[0]) and isinstance(s.value, ast.Name)]
        if not stores:
            continue
        par = parents_map(fi.node)
        for st, attr, local in stores:
            readers = [m for m in fi.cls.methods.values() if m is not fi and m.name != "__init__" and any(is_self_attr(x, attr) and isinstance(x.ctx, ast.Load) for x in ast.walk(m.node))]
            if not readers:
                continue
            n += 1
            # the store must be at the top level of the function body (unconditional from there on)
            if par.get(st) is not fi.node:
                continue
            # local must be (re)computed before the store: first definition line
            defs = [d.lineno for d in ast.walk(fi.node) if isinstance(d, (ast.Assign, ast.AugAssign)) for t in (d.targets if isinstance(d, ast.Assign) else [d.target])
                    if (isinstance(t, ast.Name) and t.id == local) or (isinstance(t, ast.Subscript) and isinstance(t.value, ast.Name) and t.value.id == local)]
            if not defs:
                continue
            for r in ast.walk(fi.node):
                if isinstance(r, ast.Return) and r.lineno < st.lineno and r.lineno > min(defs):
                    # a return that precedes the store, after the local was computed; does what it returns depend on the local?
                    dep = _depends(fi, r, local)
                    if dep:
                        run.ob("R-STATE-PATH", short(fi.qual), f"self.{attr}", False,
                               "the field other methods read is stored on every path that computes a new one",
                               f"self.{attr} = {local} at line {st.lineno} is skipped by the return at line {r.lineno}, which hands back a value computed from the new {local}; "
                               f"{', '.join(short(m.qual) for m in readers[:3])} read self.{attr}",
                               witness=f"call {fi.name} on the path of line {st.lineno}, then on the path of line {r.lineno}, then {readers[0].name}(): it uses the field of the first call, "
                                       f"not the one just computed (on a fresh object: the constructor's placeholder)", loc=fi.loc(r), sound=True)
                        break
    return n


def _depends(fi: FunctionInfo, ret: ast.Return, local: str) -> bool:
    if ret.value is None:
        return False
    want = {m.id for m in ast.walk(ret.value) if isinstance(m, ast.Name)}
    seen = set()
    for _ in range(6):
        if local in want:
            return True
        new = set()
        for s in ast.walk(fi.node):
            if isinstance(s, ast.Assign) and s.lineno < ret.lineno:
                tn = {m.id for t in s.targets for m in ast.walk(t) if isinstance(m, ast.Name)}
                if tn & want:
                    new |= {m.id for m in ast.walk(s.value) if isinstance(m, ast.Name)}
            if isinstance(s, ast.AugAssign) and s.lineno < ret.lineno:
                tn = {m.id for m in ast.walk(s.target) if isinstance(m, ast.Name)}
                if tn & want:
                    new |= {m.id for m in ast.walk(s.value) if isinstance(m, ast.Name)}
        new -= seen
        if not new:
            break
        seen |= new
        want |= new
    return local in want


# --------------------------------------------------------------------------------------------------------------------
def labelcount_pass(run: Run, pkg: Package, funcs: List[FunctionInfo]) -> int:
    """R-LABELCOUNT: `for k in range(<number of distinct type labels>)` whose counter is then matched against the labels
    themselves (`particle_type - 1 == k`): the NUMBER of species present bounds a loop over species LABELS, so with labels
    {1, 3} (a 3 x 3 parameter table, species 2 absent) the particles of label 3 are never visited."""
    n = 0

    def resolves_to_count(fi, expr, depth=3):
        txt = ast.unparse(expr)
        if "unique" in txt and "particle_type" in txt and (".size" in txt or txt.startswith("len(") or ".shape[0]" in txt):
            return True
        if txt in ("len(self.typenumber)", "self.typenumber.size", "self.typenumber.shape[0]", "len(typenumber)"):
            return True
        if depth == 0:
            return False
        names = [m for m in ast.walk(expr) if isinstance(m, ast.Name)] if not isinstance(expr, ast.Name) else [expr]
        if isinstance(expr, ast.Name):
            for st in ast.walk(fi.node):
                if isinstance(st, ast.Assign) and any(isinstance(t, ast.Name) and t.id == expr.id for t in st.targets):
                    if resolves_to_count(fi, st.value, depth - 1):
                        return True
        if is_self_attr(expr) and fi.cls is not None:
            for m in fi.cls.methods.values():
                for st in ast.walk(m.node):
                    if isinstance(st, ast.Assign) and any(is_self_attr(t, expr.attr) for t in st.targets):
                        if resolves_to_count(m, st.value, depth - 1):
                            return True
        return False

    for fi in funcs:
        for loop in ast.walk(fi.node):
            if not (isinstance(loop, ast.For) and isinstance(loop.target, ast.Name) and isinstance(loop.iter, ast.Call) and isinstance(loop.iter.func, ast.Name)
                    and loop.iter.func.id == "range" and len(loop.iter.args) == 1):
                continue
            if not resolves_to_count(fi, loop.iter.args[0]):
                continue
            n += 1
            k = loop.target.id
            # locals derived from particle_type inside the function
            derived = {"particle_type"}
            for _ in range(3):
                for st in ast.walk(fi.node):
                    if isinstance(st, ast.Assign) and any(isinstance(m, (ast.Name, ast.Attribute)) and (getattr(m, "id", None) in derived or getattr(m, "attr", None) in derived) for m in ast.walk(st.value)):
                        derived |= {t.id for t in st.targets if isinstance(t, ast.Name)}
            for c in ast.walk(loop):
                if isinstance(c, ast.Compare) and len(c.ops) == 1 and isinstance(c.ops[0], ast.Eq):
                    sides = [c.left, c.comparators[0]]
                    has_k = [any(isinstance(m, ast.Name) and m.id == k for m in ast.walk(x)) for x in sides]
                    has_t = [any((isinstance(m, ast.Name) and m.id in derived) or (isinstance(m, ast.Attribute) and m.attr == "particle_type") for m in ast.walk(x)) for x in sides]
                    if (has_k[0] and has_t[1]) or (has_k[1] and has_t[0]):
                        run.ob("R-LABELCOUNT", short(fi.qual), f"{k}@{norm_stmt(c)[:60]}", False,
                               "a loop over species labels runs over the labels (or the rows of the parameter table), not over the number of species present",
                               f"for {k} in range({ast.unparse(loop.iter.args[0])[:50]}) - the count of distinct labels - and {ast.unparse(c)[:60]} selects particles by label",
                               witness="labels {1, 3} with a 3 x 3 parameter table (species 2 absent): two labels are counted, the loop visits label indices 0 and 1, "
                                       "particles of label 3 are never selected", loc=fi.loc(c), sound=True)
                        break
    return n


# --------------------------------------------------------------------------------------------------------------------
def reduceat_pass(run: Run, pkg: Package, funcs: List[FunctionInfo]) -> int:
    """R-REDUCEAT: numpy's documented contract - `ufunc.reduceat(a, idx)` returns a[idx[i]] (not the identity) for an EMPTY
    segment idx[i] >= idx[i+1].  Segment starts built as cumsum(counts) - counts have empty segments wherever a count is 0
    (a particle without neighbours), so the "sum over the segment" silently becomes the first value of the next segment."""
    n = 0
    for fi in funcs:
        for c in ast.walk(fi.node):
            if not (isinstance(c, ast.Call) and isinstance(c.func, ast.Attribute) and c.func.attr == "reduceat" and len(c.args) >= 2):
                continue
            n += 1
            idx = c.args[1]
            names = {m.id for m in ast.walk(idx) if isinstance(m, ast.Name)}
            from_cumsum = "cumsum" in ast.unparse(idx)
            for st in ast.walk(fi.node):
                if isinstance(st, ast.Assign) and any(isinstance(t, ast.Name) and t.id in names for t in st.targets) and "cumsum" in ast.unparse(st.value):
                    from_cumsum = True
            if not from_cumsum:
                continue
            # a correction for empty segments: some comparison of a count with 0 in the same function (mask / np.where)
            corrected = any(isinstance(x, ast.Compare) and any(isinstance(k, ast.Constant) and k.value == 0 for k in [x.left] + list(x.comparators)) for x in ast.walk(fi.node))
            if corrected:
                continue
            run.ob("R-REDUCEAT", short(fi.qual), f"reduceat@{norm_stmt(_stmt_of(c, parents_map(fi.node)))[:60]}", False,
                   "a segment sum over consecutive runs is 0 for an empty run",
                   f"{ast.unparse(c)[:90]}: segment starts from a cumulative sum of counts, no correction for counts equal to 0",
                   witness="counts (2, 0, 3): the middle segment is empty and reduceat returns the first value of the third run instead of 0 "
                           "(and raises IndexError when the empty run is the last one)", loc=fi.loc(c), sound=True)
    return n


# --------------------------------------------------------------------------------------------------------------------
def _local_def(fi: FunctionInfo, name: str) -> Optional[ast.AST]:
    """the single local assignment `name = <expr>` of the function (None when there is none or more than one)"""
    vals = [st.value for st in ast.walk(fi.node) if isinstance(st, ast.Assign) and len(st.targets) == 1 and isinstance(st.targets[0], ast.Name) and st.targets[0].id == name]
    return vals[0] if len(vals) == 1 else None


def _floor_quotient(fi: FunctionInfo, e: ast.AST, depth: int = 2) -> Optional[Tuple[ast.AST, ast.AST]]:
    """(A, B) when the expression is floor(A / B), possibly clamped from below: A // B, int(A / B), max(A // B, 1)"""
    if isinstance(e, ast.Name) and depth:
        d = _local_def(fi, e.id)
        return _floor_quotient(fi, d, depth - 1) if d is not None else None
    if isinstance(e, ast.BinOp) and isinstance(e.op, ast.FloorDiv):
        return e.left, e.right
    if isinstance(e, ast.Call) and isinstance(e.func, ast.Name) and e.func.id == "int" and len(e.args) == 1 and isinstance(e.args[0], ast.BinOp) and isinstance(e.args[0].op, ast.Div):
        return e.args[0].left, e.args[0].right
    if isinstance(e, ast.Call) and isinstance(e.func, ast.Name) and e.func.id == "max" and len(e.args) == 2:
        for a, b in ((e.args[0], e.args[1]), (e.args[1], e.args[0])):
            if isinstance(b, ast.Constant) and b.value in (0, 1):
                return _floor_quotient(fi, a, depth)
    return None


def blocktail_pass(run: Run, pkg: Package, funcs: List[FunctionInfo]) -> int:
    """R-BLOCKTAIL: a loop that treats an array of length A in blocks of B rows, `for n in range(A // B): X[n*B:(n+1)*B]`,
    visits floor(A / B) * B rows; unless a remainder is handled, the last A mod B rows are in no block.  Decided only when the
    loop count is literally the floor quotient of the length of the sliced array and the block size, the block size does not
    derive from that length, and nothing in the function looks at a remainder (`%`, a slice starting at count * B, ceil)."""
    n = 0
    for fi in funcs:
        for loop in ast.walk(fi.node):
            if not (isinstance(loop, ast.For) and isinstance(loop.target, ast.Name) and isinstance(loop.iter, ast.Call) and isinstance(loop.iter.func, ast.Name)
                    and loop.iter.func.id == "range" and len(loop.iter.args) == 1):
                continue
            q = _floor_quotient(fi, loop.iter.args[0])
            if q is None or not isinstance(q[1], ast.Name):
                continue
            A, B = q
            k, b = loop.target.id, q[1].id
            lo_forms = {f"{k} * {b}", f"{b} * {k}"}
            hi_forms = {f"({k} + 1) * {b}", f"{b} * ({k} + 1)", f"{k} * {b} + {b}", f"{b} * {k} + {b}", f"({k} * {b}) + {b}"}
            blocks = []        # names bound to slice(k*B, (k+1)*B) and direct subscripts
            for st in ast.walk(loop):
                lo = hi = None
                if isinstance(st, ast.Call) and isinstance(st.func, ast.Name) and st.func.id == "slice" and len(st.args) == 2:
                    lo, hi = st.args
                elif isinstance(st, ast.Slice) and st.lower is not None and st.upper is not None and st.step is None:
                    lo, hi = st.lower, st.upper
                if lo is not None and ast.unparse(lo) in lo_forms and ast.unparse(hi) in hi_forms:
                    blocks.append(st)
            if not blocks:
                continue
            n += 1
            # the arrays cut into blocks
            slice_names = {st.targets[0].id for st in ast.walk(loop) if isinstance(st, ast.Assign) and len(st.targets) == 1 and isinstance(st.targets[0], ast.Name)
                           and any(st.value is bl for bl in blocks)}
            cut = set()
            for sub in ast.walk(loop):
                if isinstance(sub, ast.Subscript) and isinstance(sub.value, ast.Name):
                    sl = sub.slice.elts[0] if isinstance(sub.slice, ast.Tuple) and sub.slice.elts else sub.slice
                    if any(sl is bl for bl in blocks) or (isinstance(sl, ast.Name) and sl.id in slice_names):
                        cut.add(sub.value.id)
            # A is the length of one of them
            a_txt = ast.unparse(A)
            if isinstance(A, ast.Name):
                d = _local_def(fi, A.id)
                a_txt = ast.unparse(d) if d is not None else a_txt
            lengths = {f"{x}.shape[0]" for x in cut} | {f"len({x})" for x in cut}
            if a_txt not in lengths:
                continue
            # the block size must not derive from that length; nothing may handle a remainder
            bd = _local_def(fi, b)
            a_names = {A.id} if isinstance(A, ast.Name) else set()
            if bd is not None and ({m.id for m in ast.walk(bd) if isinstance(m, ast.Name)} & (a_names | cut)):
                continue
            whole = ast.unparse(fi.node)
            if any(isinstance(x, ast.BinOp) and isinstance(x.op, ast.Mod) for x in ast.walk(fi.node)) or "ceil" in whole or "array_split" in whole or "divmod" in whole:
                continue
            cnt = ast.unparse(loop.iter.args[0])
            if any(isinstance(x, ast.Slice) and x.lower is not None and (cnt in ast.unparse(x.lower)) for x in ast.walk(fi.node)):
                continue
            run.ob("R-BLOCKTAIL", short(fi.qual), f"{k}@{norm_stmt(loop)[:60]}", False,
                   "a computation carried out block by block covers every row of the array",
                   f"for {k} in range({cnt}) with blocks [{k}*{b}, ({k}+1)*{b}) of {', '.join(sorted(cut))}; the loop count is floor({a_txt} / {b}) and no remainder is treated",
                   witness=f"{a_txt} = 2 * {b} + 1: two full blocks are visited, the last row is in no block", loc=fi.loc(loop), sound=True)
    return n


# --------------------------------------------------------------------------------------------------------------------
def genskip_pass(run: Run, pkg: Package, funcs: List[FunctionInfo]) -> int:
    """R-GENSKIP: a generator that walks `range(n)` and yields one item per index, but skips some indices (`continue` before
    the yield, or a yield under a test), while a consumer pairs the items with their position (`enumerate(gen(...))`,
    `zip(range(...), gen(...))`) and uses that position as an index: every item after a skipped one lands on the wrong index."""
    n = 0
    for fi in funcs:
        par = None
        for loop in ast.walk(fi.node):
            if not (isinstance(loop, ast.For) and isinstance(loop.iter, ast.Call) and isinstance(loop.iter.func, ast.Name) and loop.iter.func.id in ("enumerate", "zip")):
                continue
            it = loop.iter
            gens = [a for a in it.args if isinstance(a, ast.Call)]
            idx = None
            if it.func.id == "enumerate" and len(it.args) == 1 and isinstance(loop.target, ast.Tuple) and isinstance(loop.target.elts[0], ast.Name):
                idx = loop.target.elts[0].id
            elif it.func.id == "zip" and isinstance(loop.target, ast.Tuple):
                for a, t in zip(it.args, loop.target.elts):
                    if isinstance(a, ast.Call) and isinstance(a.func, ast.Name) and a.func.id == "range" and isinstance(t, ast.Name):
                        idx = t.id
            if idx is None:
                continue
            for gc in gens:
                g = resolve_callee(pkg, fi, gc)
                if g is None or not any(isinstance(y, ast.Yield) for y in ast.walk(g.node)):
                    continue
                n += 1
                gpar = parents_map(g.node)
                skipping = None
                for gl in ast.walk(g.node):
                    if not (isinstance(gl, ast.For) and isinstance(gl.iter, ast.Call) and isinstance(gl.iter.func, ast.Name) and gl.iter.func.id == "range"):
                        continue
                    ys = [y for y in ast.walk(gl) if isinstance(y, ast.Yield)]
                    if not ys:
                        continue
                    for c in ast.walk(gl):
                        if isinstance(c, ast.Continue) and c.lineno < min(y.lineno for y in ys):
                            anc = _ancestors(c, gpar, gl)
                            if any(isinstance(a, ast.If) for a in anc):
                                skipping = c
                    for y in ys:
                        anc = _ancestors(y, gpar, gl)
                        ifs = [a for a in anc if isinstance(a, ast.If)]
                        for a in ifs:
                            # a yield in one arm only
                            other = a.orelse if any(y in ast.walk(x) for x in a.body) else a.body
                            if not any(isinstance(z, ast.Yield) for x in other for z in ast.walk(x)):
                                skipping = a
                if skipping is None:
                    continue
                uses = [sub for sub in ast.walk(loop) if isinstance(sub, ast.Subscript) and any(isinstance(m, ast.Name) and m.id == idx for m in ast.walk(sub.slice))]
                if not uses:
                    continue
                run.ob("R-GENSKIP", short(fi.qual), f"{idx}@{norm_stmt(loop)[:60]}", False,
                       "items produced per index are paired with the index they were produced for",
                       f"{ast.unparse(it)[:70]}: {short(g.qual)} skips an index ({ast.unparse(skipping).splitlines()[0][:60]}) while the consumer uses the running position `{idx}` as index "
                       f"({ast.unparse(uses[0])[:40]})",
                       witness="an index for which the generator's test holds (e.g. a particle without neighbours): every later item is attributed to the index before its own",
                       loc=fi.loc(loop), sound=True)
    return n


# --------------------------------------------------------------------------------------------------------------------
def latebind_pass(run: Run, pkg: Package, funcs: List[FunctionInfo], modules=()) -> int:
    """R-LATEBIND: a lambda (or nested def) created inside a loop / comprehension that reads the loop variable as a free variable
    and is STORED (dictionary / list entry, attribute) for later use: Python closures capture the variable, not its value, so
    after the loop every stored function sees the last value.  Binding through a default argument (`lambda x, _l=l: ...`) or
    functools.partial is the correct idiom and is not matched; a function used only inside the iteration that creates it is not
    stored and not matched."""
    n = 0
    roots = [(fi, fi.node) for fi in funcs] + [(m, m.tree) for m in modules]
    seen = set()
    for fi, root in roots:
        par = parents_map(root)
        for loop in ast.walk(root):
            if isinstance(loop, (ast.For, ast.comprehension)):
                tgt = {m.id for m in ast.walk(loop.target) if isinstance(m, ast.Name)}
                if isinstance(loop, ast.For):
                    body_nodes = [x for st in loop.body for x in ast.walk(st)]
                else:
                    owner = par.get(loop)
                    body_nodes = [x for x in ast.walk(owner)] if owner is not None else []
            else:
                continue
            for lam in body_nodes:
                if not isinstance(lam, (ast.Lambda, ast.FunctionDef)) or id(lam) in seen:
                    continue
                a = lam.args
                bound = {x.arg for x in a.args + a.kwonlyargs + a.posonlyargs} | ({a.vararg.arg} if a.vararg else set()) | ({a.kwarg.arg} if a.kwarg else set())
                inner = lam.body if isinstance(lam, ast.Lambda) else ast.Module(body=lam.body, type_ignores=[])
                free = {m.id for m in ast.walk(inner) if isinstance(m, ast.Name) and isinstance(m.ctx, ast.Load)} - bound
                # names assigned inside a def are locals
                if isinstance(lam, ast.FunctionDef):
                    free -= {m.id for m in ast.walk(inner) if isinstance(m, ast.Name) and isinstance(m.ctx, ast.Store)}
                late = sorted(free & tgt)
                if not late:
                    continue
                n += 1
                # stored?
                p_ = par.get(lam)
                stored = False
                if isinstance(lam, ast.Lambda):
                    if isinstance(p_, ast.Assign) and any(isinstance(t, (ast.Subscript, ast.Attribute)) for t in p_.targets):
                        stored = True
                    elif isinstance(p_, ast.DictComp) and p_.value is lam:
                        stored = True
                    elif isinstance(p_, ast.ListComp) and p_.elt is lam:
                        stored = True
                    elif isinstance(p_, ast.Dict):
                        stored = True
                    elif isinstance(p_, ast.Call) and isinstance(p_.func, ast.Attribute) and p_.func.attr in ("append", "setdefault", "update", "insert"):
                        stored = True
                else:
                    nm = lam.name
                    for st in body_nodes:
                        if isinstance(st, ast.Assign) and isinstance(st.value, ast.Name) and st.value.id == nm and any(isinstance(t, (ast.Subscript, ast.Attribute)) for t in st.targets):
                            stored = True
                        if isinstance(st, ast.Call) and isinstance(st.func, ast.Attribute) and st.func.attr in ("append", "setdefault") and any(isinstance(x, ast.Name) and x.id == nm for x in st.args):
                            stored = True
                if not stored:
                    continue
                seen.add(id(lam))
                where = short(fi.qual) if isinstance(fi, FunctionInfo) else f"{short(fi.name)} (module level)"
                loc = fi.loc(lam) if isinstance(fi, FunctionInfo) else f"{fi.relpath}:{lam.lineno}"
                run.ob("R-LATEBIND", where, f"{','.join(late)}@{norm_stmt(_stmt_of(lam, par))[:60]}", False,
                       "a function stored per iteration computes with the value the loop variable had when it was stored",
                       f"{ast.unparse(lam)[:80]} reads the loop variable {late} as a free variable and is stored for later use",
                       witness=f"after the loop every stored function sees the last value of {late[0]}: all entries compute the same thing as the last one", loc=loc, sound=True)
    return n


# --------------------------------------------------------------------------------------------------------------------
def csvheader_pass(run: Run, pkg: Package, funcs: List[FunctionInfo]) -> int:
    """R-CSVHEADER: pandas `DataFrame.to_csv(header=<list>)` writes the list as ALIASES of the columns in their existing order - it
    does not select or reorder.  When the table was created with a literal column list, both lists are evaluated (constant
    expressions of the extracted terms only) and compared: a different order puts every value under another column's name in
    the file while the returned table is untouched.  A header that cannot be evaluated is undecided."""
    from ..vg import Interp, strip_alloc
    from ..concrete import ev as cev
    n = 0
    for fi in funcs:
        if not any(isinstance(c, ast.Call) and isinstance(c.func, ast.Attribute) and c.func.attr == "to_csv" and any(k.arg == "header" for k in c.keywords) for c in ast.walk(fi.node)):
            continue
        try:
            it = Interp(pkg, fi)
        except Exception:  # noqa
            continue
        for e in it.events:
            if not (e.kind == "call" and e.data["call"][1] == ".to_csv"):
                continue
            c = e.data["call"]
            kws = dict(c[3])
            if "header" not in kws:
                continue
            h = kws["header"]
            if h[0] == "const" and isinstance(h[1], bool):
                continue
            n += 1
            recv = strip_alloc(c[2][0]) if c[2] else None
            cols = None
            if recv is not None and recv[0] == "call" and recv[1] == "pandas.DataFrame":
                cols = dict(recv[3]).get("columns")
            verdict, detail, wit = None, "header aliases or column list not constant", None
            try:
                hv = list(cev(h, {}))
                cv = list(cev(cols, {})) if cols is not None else None
                if cv is not None:
                    if hv == cv:
                        verdict, detail = True, f"aliases equal the column names {cv[:4]}..."
                    elif sorted(map(str, hv)) == sorted(map(str, cv)):
                        k = next(i for i, (a_, b_) in enumerate(zip(hv, cv)) if a_ != b_)
                        verdict = False
                        detail = f"columns are {cv}, the header aliases are {hv}"
                        wit = (f"to_csv(header=...) relabels, it does not reorder: file column {k} is labelled '{hv[k]}' but holds the values of '{cv[k]}' "
                               f"({sum(a_ != b_ for a_, b_ in zip(hv, cv))} of {len(cv)} columns mislabelled); the returned table keeps the right names")
            except Exception:  # noqa
                pass
            node = it.node_of(e) if hasattr(it, "node_of") else None
            run.ob("R-CSVHEADER", short(fi.qual), f"header@{show_short(h)}", verdict, "the file's column labels are the names of the columns whose values they head",
                   detail, witness=wit, loc=fi.loc(node) if node is not None else fi.loc(), sound=True)
    return n


def show_short(t) -> str:
    from ..vg import show
    return show(t)[:50]


# --------------------------------------------------------------------------------------------------------------------
GLOBAL_SETTERS = {"seterr": "numpy floating-point error handling", "seterrcall": "numpy floating-point error callback", "chdir": "the working directory",
                  "simplefilter": "the warnings filter", "filterwarnings": "the warnings filter", "setrecursionlimit": "the recursion limit"}


def globalstate_pass(run: Run, pkg: Package, funcs: List[FunctionInfo]) -> int:
    """R-GLOBALSTATE: a routine that changes process-wide state which decides what LATER computations return or raise
    (np.seterr, warnings turned into errors, os.chdir ...) restores it on every path that leaves the routine.  The scoped forms
    (`with np.errstate(...)`, `with warnings.catch_warnings()`) are the correct idiom and are not matched.  Reported: a setter
    with no later restoring call of the same function, or a `return` between the setter and the restore that is not covered by
    a try/finally.  (np.set_printoptions changes how arrays print, not what routines return, and is not in the table.)"""
    n = 0
    for fi in funcs:
        par = None
        calls = [c for c in ast.walk(fi.node) if isinstance(c, ast.Call) and isinstance(c.func, ast.Attribute) and c.func.attr in GLOBAL_SETTERS
                 and isinstance(c.func.value, ast.Name) and c.func.value.id in ("np", "numpy", "os", "warnings", "sys")]
        if not calls:
            continue
        par = parents_map(fi.node)
        by_fn: Dict[str, List[ast.Call]] = {}
        for c in calls:
            # inside `with warnings.catch_warnings():` the filter change is scoped
            if c.func.attr in ("simplefilter", "filterwarnings") and any(isinstance(a, ast.With) and "catch_warnings" in ast.unparse(a.items[0].context_expr) for a in _ancestors(c, par, fi.node)):
                continue
            if c.func.attr in ("simplefilter", "filterwarnings") and not (c.args and isinstance(c.args[0], ast.Constant) and c.args[0].value == "error"):
                continue          # only "error" changes what later code returns (it raises instead)
            by_fn.setdefault(c.func.attr, []).append(c)
        for name, cs in by_fn.items():
            n += 1
            cs = sorted(cs, key=lambda c: (c.lineno, c.col_offset))
            first, last = cs[0], cs[-1]
            what = GLOBAL_SETTERS[name]
            if len(cs) == 1:
                run.ob("R-GLOBALSTATE", short(fi.qual), f"{name}@{norm_stmt(_stmt_of(first, par))[:60]}", False,
                       "process-wide state that decides what later computations return is restored before the routine returns",
                       f"{ast.unparse(first)[:80]} changes {what} for the whole process and is never undone in this routine",
                       witness="run an analysis whose normal result contains a NaN / division by zero, call this routine, run the same analysis again with the same inputs: "
                               "it now raises (or reads / writes relative paths elsewhere) instead of repeating its result", loc=fi.loc(first), sound=True)
                continue
            in_finally = any(isinstance(a, ast.Try) and any(last in ast.walk(x) for x in a.finalbody) and any(first in ast.walk(x) for x in a.body + [a])
                             for a in _ancestors(last, par, fi.node)) or \
                any(isinstance(t, ast.Try) and any(last in ast.walk(x) for x in t.finalbody) and t.lineno >= first.lineno for t in ast.walk(fi.node))
            leaks = [r for r in ast.walk(fi.node) if isinstance(r, (ast.Return, ast.Raise)) and first.lineno < r.lineno < last.lineno
                     and not any(isinstance(a, ast.ExceptHandler) for a in _ancestors(r, par, fi.node))]
            if leaks and not in_finally:
                r = leaks[0]
                run.ob("R-GLOBALSTATE", short(fi.qual), f"{name}@{norm_stmt(r)[:60]}", False,
                       "process-wide state that decides what later computations return is restored on every path that leaves the routine",
                       f"{ast.unparse(first)[:60]} (line {first.lineno}) is undone by {ast.unparse(last)[:50]} (line {last.lineno}), but `{norm_stmt(r)[:50]}` at line {r.lineno} leaves in between",
                       witness=f"the call that takes the path through line {r.lineno} leaves {what} changed: a later analysis with the same inputs raises instead of repeating its result",
                       loc=fi.loc(r), sound=True)
            else:
                run.ob("R-GLOBALSTATE", short(fi.qual), f"{name}@restore", True, "process-wide state is restored on every path", f"{ast.unparse(last)[:60]}", loc=fi.loc(last))
    return n


# --------------------------------------------------------------------------------------------------------------------
def binside_pass(run: Run, pkg: Package, funcs: List[FunctionInfo]) -> int:
    """R-BINSIDE: a histogram re-implemented with `np.searchsorted(edges, x) - 1` (or `np.digitize`) and `np.bincount` / `np.add.at`
    follows np.histogram's convention - bins [e_k, e_k+1), the value ON an edge belongs to the upper bin - only with
    side="right" (digitize: right=False).  With side="left" (numpy's default) a value exactly on an edge is counted one bin lower
    and a value equal to the first edge gets index -1.  Decided from numpy's documented contract; matched only where the index
    feeds a counting call in the same function."""
    n = 0
    for fi in funcs:
        src_calls = [c for c in ast.walk(fi.node) if isinstance(c, ast.Call) and isinstance(c.func, ast.Attribute) and c.func.attr in ("searchsorted", "digitize")]
        if not src_calls:
            continue
        counting = [c for c in ast.walk(fi.node) if isinstance(c, ast.Call) and isinstance(c.func, ast.Attribute) and (c.func.attr == "bincount" or (c.func.attr == "at" and "add" in ast.unparse(c.func)))]
        if not counting:
            continue
        par = parents_map(fi.node)
        for c in src_calls:
            n += 1
            kws = {k.arg: k.value for k in c.keywords}
            if c.func.attr == "searchsorted":
                side = kws.get("side", c.args[2] if len(c.args) > 2 else None)
                left = side is None or (isinstance(side, ast.Constant) and side.value == "left")
                minus1 = isinstance(par.get(c), ast.BinOp) and isinstance(par[c].op, ast.Sub) and isinstance(par[c].right, ast.Constant) and par[c].right.value == 1
                bad = left and minus1
                how = 'side="left"' if side is not None else "the default side (left)"
            else:
                right = kws.get("right", c.args[2] if len(c.args) > 2 else None)
                bad = isinstance(right, ast.Constant) and right.value is True
                how = "right=True"
            if not bad:
                continue
            run.ob("R-BINSIDE", short(fi.qual), f"{c.func.attr}@{norm_stmt(_stmt_of(c, par))[:60]}", False,
                   "a pair on a bin edge is counted in the bin that starts at that edge (the convention of np.histogram, which the tables are defined with)",
                   f"{ast.unparse(c)[:90]} with {how} feeds {ast.unparse(counting[0].func)}: bins become (e_k, e_k+1]",
                   witness="a distance exactly equal to an inner bin edge (lattice configurations, constructed pairs) is counted one bin lower than np.histogram counts it; "
                           "a value equal to the first edge gets index -1", loc=fi.loc(c), sound=True)
    return n


# --------------------------------------------------------------------------------------------------------------------
def savepath_pass(run: Run, pkg: Package, funcs: List[FunctionInfo]) -> int:
    """R-SAVE-PATH: a routine that writes its result to a file named by one of its parameters does so on every path that returns
    a result.  A `return <value>` that precedes the first save site (an early exit / fast path) hands back a value without
    writing the requested file - a file left over from an earlier call then disagrees with what was returned."""
    n = 0
    for fi in funcs:
        params = set(fi.params)
        saves = []
        for c in ast.walk(fi.node):
            if isinstance(c, ast.Call) and isinstance(c.func, ast.Attribute) and c.func.attr in ("save", "savetxt", "to_csv") and c.args:
                names = {m.id for m in ast.walk(c.args[0]) if isinstance(m, ast.Name)} & params
                if names:
                    saves.append((c, names))
        if not saves:
            continue
        n += 1
        first = min(c.lineno for c, _ in saves)
        fparams = set().union(*[nm for _, nm in saves])
        par = parents_map(fi.node)
        for r in ast.walk(fi.node):
            if not (isinstance(r, ast.Return) and r.value is not None and not isinstance(r.value, ast.Constant) and r.lineno < first):
                continue
            # an exit taken because no file was requested is fine
            guarded = False
            for a in _ancestors(r, par, fi.node):
                if isinstance(a, ast.If) and {m.id for m in ast.walk(a.test) if isinstance(m, ast.Name)} & fparams:
                    guarded = True
            if guarded:
                continue
            run.ob("R-SAVE-PATH", short(fi.qual), f"return@{norm_stmt(r)[:60]}", False,
                   "when an output file is requested it is written on every path that returns a result",
                   f"return at line {r.lineno} precedes the first write to the file named by {sorted(fparams)} (line {first})",
                   witness=f"a call taking this path with {sorted(fparams)[0]} set returns {ast.unparse(r.value)[:40]} and writes nothing: a file of the same name from an earlier call "
                           f"keeps its old content", loc=fi.loc(r), sound=True)
    return n


# --------------------------------------------------------------------------------------------------------------------
def dictorder_pass(run: Run, pkg: Package, funcs: List[FunctionInfo]) -> int:
    """R-DICTORDER: the values of a dictionary keyed by type id (masses, diameters, ...) turned into a positional array
    (`np.array(list(d.values()))`, `np.fromiter(d.values(), ...)`) carry the dictionary's INSERTION order.  Looking entries up by
    `type - 1`, or pairing them with separately sorted keys, silently assumes the caller wrote the keys in ascending order."""
    n = 0
    for fi in funcs:
        ann = fi.param_annotations()
        dflt = fi.defaults()
        dict_names = {p for p in fi.params if "dict" in (ann.get(p) or "").lower() or isinstance(dflt.get(p), ast.Dict)}
        dict_attrs = set()
        if fi.cls is not None and "__init__" in fi.cls.methods:
            init = fi.cls.methods["__init__"]
            a2, d2 = init.param_annotations(), init.defaults()
            ip = {p for p in init.params if "dict" in (a2.get(p) or "").lower() or isinstance(d2.get(p), ast.Dict)}
            for st in ast.walk(init.node):
                if isinstance(st, ast.Assign) and isinstance(st.value, ast.Name) and st.value.id in ip:
                    dict_attrs |= {t.attr for t in st.targets if is_self_attr(t)}
        par = parents_map(fi.node)
        for c in ast.walk(fi.node):
            if not (isinstance(c, ast.Call) and isinstance(c.func, ast.Attribute) and c.func.attr == "values" and not c.args):
                continue
            base = c.func.value
            if not ((isinstance(base, ast.Name) and base.id in dict_names) or (is_self_attr(base) and base.attr in dict_attrs)):
                continue
            n += 1
            anc = list(_ancestors(c, par, fi.node))
            wrappers = [a for a in anc if isinstance(a, ast.Call) and isinstance(a.func, (ast.Name, ast.Attribute))]
            names = [w.func.id if isinstance(w.func, ast.Name) else w.func.attr for w in wrappers]
            if any(nm in ("sorted", "zip", "dict", "max", "min", "sum", "set", "len", "all", "any") for nm in names[:3]):
                continue            # order-free reductions, or paired with the keys in the same order
            if not any(nm in ("array", "asarray", "fromiter", "list", "tuple") for nm in names[:3]):
                continue
            run.ob("R-DICTORDER", short(fi.qual), f"{ast.unparse(base)}.values()@{norm_stmt(_stmt_of(c, par))[:60]}", False,
                   "entries of a dictionary keyed by type id are looked up by key",
                   f"{ast.unparse(base)}.values() is turned into a positional array: position k holds the k-th INSERTED value, not the value of type k + 1",
                   witness=f"{ast.unparse(base)} = {{2: a, 1: b}} (same mapping as {{1: b, 2: a}}): type 1 receives a and type 2 receives b", loc=fi.loc(c), sound=True)
    return n


# --------------------------------------------------------------------------------------------------------------------
def falsy_pass(run: Run, pkg: Package, funcs: List[FunctionInfo]) -> int:
    """R-FALSY: `p = p or <default>` (or `if not p: p = <default>`) treats every falsy argument as "not given".  When a call site
    inside the package passes a falsy constant (0, 0.0, False, "") for p on purpose, the callee silently replaces it."""
    n = 0
    all_funcs = pkg.all_functions()
    for fi in funcs:
        params = [p for p in fi.params if p not in ("self", "cls")]
        sites = []
        for s in ast.walk(fi.node):
            if isinstance(s, ast.Assign) and len(s.targets) == 1 and isinstance(s.targets[0], ast.Name) and s.targets[0].id in params \
                    and isinstance(s.value, ast.BoolOp) and isinstance(s.value.op, ast.Or) and isinstance(s.value.values[0], ast.Name) and s.value.values[0].id == s.targets[0].id:
                sites.append((s.targets[0].id, s, ast.unparse(s.value.values[1])))
            if isinstance(s, ast.If) and isinstance(s.test, ast.UnaryOp) and isinstance(s.test.op, ast.Not) and isinstance(s.test.operand, ast.Name) and s.test.operand.id in params \
                    and len(s.body) == 1 and isinstance(s.body[0], ast.Assign) and any(isinstance(t, ast.Name) and t.id == s.test.operand.id for t in s.body[0].targets):
                sites.append((s.test.operand.id, s, ast.unparse(s.body[0].value)))
        for p, node, dflt in sites:
            n += 1
            for caller in all_funcs:
                for call in ast.walk(caller.node):
                    if not isinstance(call, ast.Call) or resolve_callee(pkg, caller, call) is not fi:
                        continue
                    arg = None
                    for k in call.keywords:
                        if k.arg == p:
                            arg = k.value
                    if arg is None and p in params and params.index(p) < len(call.args):
                        arg = call.args[params.index(p)]
                    if isinstance(arg, ast.Constant) and arg.value is not None and not arg.value:
                        run.ob("R-FALSY", short(fi.qual), f"{p}@{short(caller.qual)}", False,
                               "an argument given explicitly is used as given",
                               f"{short(caller.qual)} passes {p}={arg.value!r}, but {fi.name} replaces every falsy {p} by {dflt} [{norm_stmt(node)[:70]}]",
                               witness=f"{p}={arg.value!r} is falsy: the callee computes with {dflt} instead (as if the argument had been omitted)", loc=caller.loc(call), sound=True)
    return n


# --------------------------------------------------------------------------------------------------------------------
def usecols_pass(run: Run, pkg: Package, funcs: List[FunctionInfo]) -> int:
    """pandas' documented contract: `usecols` selects a SET of columns - element order is ignored and the columns come back in
    file order.  A caller-ordered list handed to usecols whose result is then used positionally permutes the columns."""
    n = 0
    for fi in funcs:
        params = set(fi.params)
        for s in ast.walk(fi.node):
            if not (isinstance(s, ast.Assign) and len(s.targets) == 1):
                continue
            call = s.value
            positional_now = False
            if isinstance(call, ast.Attribute) and call.attr == "values" and isinstance(call.value, ast.Call):
                call, positional_now = call.value, True
            if not isinstance(call, ast.Call):
                continue
            # allow a trailing .values / .to_numpy() on the read
            inner = call
            while isinstance(inner, ast.Call) and isinstance(inner.func, ast.Attribute) and inner.func.attr in ("to_numpy",) and isinstance(inner.func.value, ast.Call):
                inner, positional_now = inner.func.value, True
            if not (isinstance(inner.func, ast.Attribute) and inner.func.attr in ("read_csv", "read_table", "read_fwf")):
                continue
            uc = [k.value for k in inner.keywords if k.arg == "usecols"]
            if not uc:
                continue
            n += 1
            u = uc[0]
            lit = isinstance(u, (ast.List, ast.Tuple)) and all(isinstance(e, ast.Constant) for e in u.elts)
            if lit and [e.value for e in u.elts] == sorted(e.value for e in u.elts):
                continue
            from_param = any(isinstance(m, ast.Name) and (m.id in params or _derived_from_params(fi, m.id, params)) for m in ast.walk(u))
            if not (from_param or lit):
                continue
            tgt = s.targets[0]
            name = tgt.id if isinstance(tgt, ast.Name) else None
            reordered = False
            positional = positional_now
            if name and not positional_now:
                for m in ast.walk(fi.node):
                    if isinstance(m, ast.Subscript) and isinstance(m.value, ast.Name) and m.value.id == name and not isinstance(m.slice, ast.Constant):
                        reordered = True
                    if isinstance(m, ast.Attribute) and isinstance(m.value, ast.Name) and m.value.id == name:
                        if m.attr in ("reindex", "loc"):
                            reordered = True
                        if m.attr in ("values", "to_numpy", "iloc"):
                            positional = True
            if positional and not reordered:
                run.ob("R-LIBORDER", short(fi.qual), f"usecols@{norm_stmt(s)[:60]}", False,
                       "columns selected with usecols are re-ordered as requested before they are used by position",
                       f"usecols={ast.unparse(u)[:60]} follows the caller's order, but pandas ignores the order of usecols and returns the columns in file order; the table is then used positionally",
                       witness="requested columns [7, 5]: the result holds column 5 first, then column 7 (ascending lists are unaffected)", loc=fi.loc(s), sound=True)
    return n


def _derived_from_params(fi: FunctionInfo, name: str, params: Set[str], depth: int = 3) -> bool:
    if depth == 0:
        return False
    for s in ast.walk(fi.node):
        if isinstance(s, ast.Assign) and any(isinstance(t, ast.Name) and t.id == name for t in s.targets):
            for m in ast.walk(s.value):
                if isinstance(m, ast.Name) and (m.id in params or (m.id != name and _derived_from_params(fi, m.id, params, depth - 1))):
                    return True
    return False


# --------------------------------------------------------------------------------------------------------------------
def state_pass(run: Run, pkg: Package, everything: bool = False, mask_forward_only: bool = False, full_for: Tuple[str, ...] = ()) -> None:
    """mask_forward_only: the check's analysed functions are call sites spread over the whole package (C02: every caller of
    remove_pbc, C07: every reader of positions); of the shared rules only the forwarding of the periodicity mask concerns that
    property there - anything else found in those functions belongs to the properties that anchor them.  `full_for` names
    functions that do get every rule (C02: remove_pbc itself)."""
    if mask_forward_only:
        funcs = []
        for fq in sorted(run.functions):
            try:
                funcs.append(pkg.func(fq))
            except Exception:  # noqa
                continue
        sub = Run(run.pid, run.level)
        n_fw = forward_pass(sub, pkg, funcs)
        for o in sub.obligations:
            if o["key"].endswith(":ppp"):
                run.ob(o["rule"], o["function"], o["key"], False, o["what"], o["detail"], witness=o["witness"], loc=o["loc"], sound=True)
        run.extra["state_rules"] = {"functions": len(funcs), "forwardable_options": n_fw, "scope": "periodicity-mask forwarding only"}
        if full_for:
            keep = set(run.functions)
            run.functions = {f for f in run.functions if f in full_for}
            try:
                state_pass(run, pkg)
            finally:
                run.functions = keep | run.functions
        return
    # the shared rules speak for a property only inside the files that property is anchored in (properties.jsonl: anchors.files);
    # a consumer elsewhere that a check happens to look at (call sites, file-handle protocols) is decided by its own property
    anchor_files = None
    try:
        import json, os
        here = os.path.dirname(os.path.dirname(os.path.dirname(os.path.abspath(__file__))))
        for ln in open(os.path.join(here, "properties.jsonl"), "r", encoding="utf-8"):
            d = json.loads(ln)
            if d.get("id") == run.pid:
                anchor_files = set(d.get("anchors", {}).get("files", [])) or None
    except Exception:  # noqa
        anchor_files = None
    if everything:
        funcs = pkg.all_functions()
    else:
        funcs = []
        seen = set()
        for fq in sorted(run.functions):
            try:
                fi = pkg.func(fq)
            except Exception:  # noqa
                continue
            if fi.qual not in seen and (anchor_files is None or fi.relpath in anchor_files):
                seen.add(fi.qual)
                funcs.append(fi)
    if not everything:
        # helpers introduced later (not among the functions the rule tables were written for) that the analysed functions call,
        # transitively, are part of what those functions compute; long-standing routines are separate units decided under the
        # properties that anchor them
        from ..vg import known_functions
        known = known_functions()
        seen = {f.qual for f in funcs}
        work = list(funcs)
        while work:
            f = work.pop()
            for call in ast.walk(f.node):
                if isinstance(call, ast.Call):
                    g = resolve_callee(pkg, f, call)
                    if g is not None and g.qual not in seen and g.qual not in known and len(seen) < 400:
                        seen.add(g.qual)
                        funcs.append(g)
                        work.append(g)
    # rules about state, repeated calls and what is written to files (the subject of C18, which runs them package-wide) ...
    counts = {
        "oneshot_bindings": oneshot_pass(run, pkg, funcs),
        "self_updates": selfupdate_pass(run, pkg, funcs),
        "grown_lists": accum_pass(run, pkg, funcs),
        "delegated_saves": savefwd_pass(run, pkg, funcs),
        "empty_allocations": uninit_pass(run, pkg, funcs),
        "stored_fields": statepath_pass(run, pkg, funcs),
        "saving_routines": savepath_pass(run, pkg, funcs),
    }
    if everything:
        # what a requested file holds beside the returned values, and what a call leaves behind for OTHER routines: only C18 speaks of these
        counts.update({
            "csv_header_aliases": csvheader_pass(run, pkg, funcs),
            "process_state_setters": globalstate_pass(run, pkg, funcs),
        })
    if not everything:
        # ... and rules about the value a single call computes: they speak for the property that anchors the function only
        counts.update({
            "forwardable_options": forward_pass(run, pkg, funcs),
            "usecols_reads": usecols_pass(run, pkg, funcs),
            "falsy_defaults": falsy_pass(run, pkg, funcs),
            "dict_value_arrays": dictorder_pass(run, pkg, funcs),
            "label_count_loops": labelcount_pass(run, pkg, funcs),
            "reduceat_calls": reduceat_pass(run, pkg, funcs),
            "block_loops": blocktail_pass(run, pkg, funcs),
            "rebinned_histograms": binside_pass(run, pkg, funcs),
            "stored_closures": latebind_pass(run, pkg, funcs, modules=[m for m in pkg.modules.values() if anchor_files and m.relpath in anchor_files]),
            "indexed_generators": genskip_pass(run, pkg, funcs),
        })
    run.extra["state_rules"] = {"functions": len(funcs), **counts}
