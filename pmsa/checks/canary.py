"""Tiny positive examples for rules whose expected instance count on a healthy tree is zero.

A synthetic package is written to a temp directory (outside /repo and /verif), analysed with the same
engines, and the rule must match exactly the seeded constructs.  A miss is an ANALYSIS-ERROR (the rule
has gone blind), never a property violation.  Run in the thorough tier.
"""
from __future__ import annotations

import os
import shutil
import tempfile

from ..model import Package
from ..report import Run

SRC = '''
from dataclasses import dataclass
import numpy as np


@dataclass(frozen=True)
class Rec:
    a: int
    arr: object


def mut_param(x):
    x[0] = 1


def mut_alias(s):
    p = s.positions
    q = p[1:]
    q += 1


def mut_via_callee(s):
    mut_param(s.positions.T)


def mut_sort(x):
    x.sort()


def frozen_store():
    r = Rec(1, None)
    r.a = 2


def fresh_ok(x, m):
    y = x.copy()
    y[0] = 1
    z = x[m > 0]
    z += 1
    w = x + 1
    w -= 2
    return y


def scalar_ok(n: int, name: str):
    n += 1
    name += ".csv"
    return n, name
'''


def run_canaries(run: Run, pid: str) -> None:
    tmp = tempfile.mkdtemp(prefix="pmsa-canary-")
    try:
        os.makedirs(os.path.join(tmp, "PyMatterSim"))
        with open(os.path.join(tmp, "PyMatterSim", "__init__.py"), "w") as f:
            f.write("")
        with open(os.path.join(tmp, "PyMatterSim", "canary.py"), "w") as f:
            f.write(SRC)
        pkg = Package(tmp)
        if pid == "C18":
            from ..effects import Effects
            from .c18 import types_of
            ef = Effects(pkg)

            def ext(fn):
                return [s for s in ef.sites.get(f"PyMatterSim.canary.{fn}", []) if any(r[0] in ("param", "ctor", "global") for r in s["roots"])]
            for fn, want in [("mut_param", 1), ("mut_alias", 1), ("mut_via_callee", 1), ("mut_sort", 1), ("fresh_ok", 0), ("scalar_ok", 0)]:
                got = len(ext(fn))
                run.ob("R-CANARY", "canary." + fn, f"R-EFFECT fires {want}x", True if got == want else None,
                       f"effect rule reports {want} input-mutating site(s) in the synthetic function {fn}", f"reported {got}",
                       nontrivial=True)
            it = ef.it("PyMatterSim.canary.frozen_store")
            hit = False
            for s in ef.sites.get("PyMatterSim.canary.frozen_store", []):
                if s["how"] == "attribute store":
                    tys = types_of(pkg, it, s["target"])
                    hit = any(pkg.classes[t].frozen_dataclass for t in tys if t in pkg.classes)
            run.ob("R-CANARY", "canary.frozen_store", "R-FROZEN fires", True if hit else None,
                   "frozen-dataclass rule matches the synthetic attribute store", f"matched={hit}")
    finally:
        shutil.rmtree(tmp, ignore_errors=True)
