"""C03 - g(r): every total and partial column equals the normalised pair histogram.

R-SEL     species-pair -> column classification, exhaustively for K = 2..5: every ordered pair (ta, tb)
          makes exactly one partial column's selector true and it is gr{min}{max}; the total is unmasked;
          declared columns = filled columns.
R-ALG     normalisation of every column, bin grid (bins, range, r = r_hi - rdelta/2, maxbin), ideal-shell factor.
R-ALIGN   distance slice and type slice carry the same particle index sets; each unordered pair once.
R-PBC     the pair difference is minimum-imaged with the same snapshot's cell and the instance's mask.
R-DISPATCH getresults routes K distinct species to the K-ary method (K > 5 -> total only).
R-SAVE    the CSV is written from the returned frame after the last normalisation.
"""
from __future__ import annotations

import sympy as sp

from .common import *  # noqa
from .grlib import *  # noqa

CLS = "static.gr.gr"
METHODS = {1: "unary", 2: "binary", 3: "ternary", 4: "quarternary", 5: "quinary"}

SN = ("sym", "snapshots")
F0 = ("sub", ("attr", SN, "snapshots"), C(0))
T_ = ("attr", SN, "nsnapshots")
N_ = ("attr", F0, "nparticle")
L0 = ("attr", F0, "boxlength")
V_ = ("call", "numpy.prod", (L0,), ())
UNIQ = ("call", "numpy.unique", (("attr", F0, "particle_type"),), (("return_counts", C(True)),))
TYPECOUNT = ("elem", UNIQ, 1)
TYPENUMBER = ("elem", UNIQ, 0)
D_ = ("sub", ("attr", ("attr", F0, "positions"), "shape"), C(1))
LMIN = ("call", ".min", (L0,), ())

sT, sN, sV, sd, sF, sdel, sLmin, sc, rhi, rlo = sp.symbols("T N V d F_d rdelta L_min c r_hi r_lo", positive=True)
sNk = {k: sp.Symbol(f"N_{k}", positive=True) for k in range(1, 7)}
SCALARS = {T_: sT, N_: sN, V_: sV, D_: sd, LMIN: sLmin, ("sym", "rdelta"): sdel,
           ("call", "PyMatterSim.utils.funcs.nidealfac", (D_,), ()): sF}


def make_atom_of(df_term, edges_ok):
    def atom_of(t):
        if t in SCALARS:
            return SCALARS[t]
        if t[0] == "sub" and is_const(t[2]) and isinstance(t[2][1], int):
            if t[1] == TYPECOUNT and 0 <= t[2][1] < 6:
                return sNk[t[2][1] + 1]
            if t[1] in SCALARS:          # scalar[k] produced by distributing a subscript
                return SCALARS[t[1]]
        if t[0] == "sub" and t[1] in SCALARS and t[2][0] == "slice":
            return SCALARS[t[1]]
        if t[0] == "sub" and t[1] in df_term and is_const(t[2]):
            return sc
        if t[0] == "sub" and t[1][0] == "elem" and t[1][2] == 1 and t[1][1][0] == "call" and t[1][1][1] == "numpy.histogram":
            if edges_ok(t[1][1]):
                if t[2] == ("slice", C(1), NONE, NONE):
                    return rhi
                if t[2] == ("slice", NONE, C(-1), NONE):
                    return rlo
        return None
    return atom_of


def run(run: Run, pkg: Package) -> None:
    run.explanation = (
        "For gr.unary..quinary: the species-pair selectors read from the np.histogram call sites are evaluated on every ordered "
        "pair of species ids (finite, exhaustive for K=2..5: 54 pairs x 34 partial columns); the normalisation statement of "
        "every column is reduced (through __init__) to a monomial in (count, V, N, N_a, T, shell volume) and compared with the "
        "definition; bin grid, pair-loop domain, slice alignment, minimum-image call, dispatch on K and CSV write are checked "
        "structurally.")
    run.extra["exhaustive"] = True
    attrs = init_attrs(pkg, CLS)
    fq_init = short(pkg.cls(CLS).methods["__init__"].qual)
    init_loc = pkg.cls(CLS).methods["__init__"].loc()

    def ex(t):
        return push_sub(expand_self(t, attrs))

    # ---- constructor-level quantities
    noat = make_atom_of((), lambda c: False)
    maxbin = attrs.get("maxbin")
    if maxbin is None:
        raise AnalysisError("gr.__init__ no longer defines self.maxbin")
    tr = S.Translator(noat, True)
    got = tr.tr(ex(maxbin))
    ref = S.PyInt(sLmin / (2 * sdel))
    ok, how = S.decide_equal(got, ref)
    if ok is False and tr.atoms:
        ok = None
    fd = float_floordiv(ex(maxbin))
    if fd is not None and ok is not True:
        ok, how = False, ("float floor division: L_min = 10.0, rdelta = 0.1 gives 10.0 // 0.2 == 49.0 (the binary value of 0.2 lies above 1/5), i.e. 49 bins where int(L_min / 2 / rdelta) = 50: "
                          "the last bin is silently dropped whenever L_min / (2 rdelta) is a whole number and rdelta is not a binary fraction")
    run.ob("R-ALG", fq_init, "maxbin", ok, "number of bins is int(L_min / (2 rdelta))", f"code: {sp.sstr(got)[:120]}; {how}",
           witness=None if ok else how, loc=init_loc, sound=True)
    for name, refexpr, what in [("rhototal", sN / sV, "total density N/V"), ("boxvolume", sV, "volume = prod(boxlength of frame 0)"),
                                ("nparticle", sN, "N of frame 0"), ("nsnapshots", sT, "number of frames"), ("ndim", sd, "dimension from positions.shape[1]")]:
        if name in attrs:
            tr = S.Translator(noat, True)
            g = tr.tr(ex(attrs[name]))
            ok, how = S.decide_equal(g, refexpr)
            if ok is False and tr.atoms:
                ok = None
            run.ob("R-ALG", fq_init, name, ok, f"self.{name} is the {what}", f"code: {sp.sstr(g)[:120]}; {how}",
                   witness=None if ok else how, loc=init_loc, sound=True)
    # nidealfac table
    check_dim_table(run, pkg, "utils.funcs.nidealfac", {3: sp.Rational(4, 3), 2: sp.Integer(1)},
                    "ideal-shell prefactor: 4/3 (3D), 1 (2D) so that nidealfac*pi*(r_hi^d - r_lo^d) is the shell volume / area")

    for K, m in METHODS.items():
        analyse_method(run, pkg, K, m, attrs, ex)
    run.minimum("R-SEL", 54 + 10)
    run.minimum("R-ALG", 39 + 5)
    check_dispatch(run, pkg, attrs)


def check_dim_table(run, pkg, qual, table, what):
    it = interp(pkg, qual)
    fq = short(it.fi.qual)
    p = ("sym", it.fi.params[0])
    for dim, val in table.items():
        def leaf(c, dim=dim):
            if c[0] == "cmp" and c[1] == "==" and c[2] == p and is_const(c[3]):
                return c[3][1] == dim
            return None
        sel = [r for r in it.returns if guard_eval(r.guards, lambda c: eval_bool(c, leaf)) is True]
        if len(sel) != 1:
            run.ob("R-DISPATCH", fq, f"d={dim}", None, what, f"{len(sel)} returns selected", loc=it.fi.loc())
            continue
        ok, how = S.decide_equal(S.to_sympy(sel[0].data["value"]), val)
        run.ob("R-DISPATCH", fq, f"d={dim}", ok, f"{what}: value for d={dim} is {val}", f"code returns {show(sel[0].data['value'])}",
               witness=None if ok else f"{fq}({dim}) = {show(sel[0].data['value'])}", loc=loc_of(it, sel[0]), sound=True)
    # other dimensions must not silently return a number

    def leaf_other(c):
        if c[0] == "cmp" and c[1] == "==" and c[2] == p and is_const(c[3]):
            return False
        return None
    sel = [r for r in it.returns if guard_eval(r.guards, lambda c: eval_bool(c, leaf_other)) is True]
    run.ob("R-DISPATCH", fq, "d=other", True if ((not sel) and not it.falls_through) else None, "dimensions other than 2, 3 are rejected",
           "a value is returned" if sel else ("falls through" if it.falls_through else "raises"),
           witness=None if not sel and not it.falls_through else "d=4", loc=it.fi.loc())


def analyse_method(run, pkg, K, m, attrs, ex):
    it = interp(pkg, f"{CLS}.{m}")
    fi = it.fi
    fq = short(fi.qual)
    if len(it.returns) != 1 or it.falls_through:
        raise AnalysisError(f"{fq}: expected a single return")
    df = it.returns[0].data["value"]
    if not (df[0] == "call" and df[1] == "pandas.DataFrame"):
        raise AnalysisError(f"{fq}: returned value is not the result frame constructed in the method: {show(df)[:80]}")
    cols = kw(df, "columns")
    if cols is None or cols[0] != "list" or not all(is_const(c) for c in cols[1]):
        raise AnalysisError(f"{fq}: result frame columns are not a literal list")
    colnames = [c[1] for c in cols[1]]
    want_cols = ["r", "gr"] + [f"gr{a}{a}" for a in range(1, K + 1) if K > 1] + \
                [f"gr{a}{b}" for a in range(1, K + 1) for b in range(a + 1, K + 1)]
    okc = True if set(colnames) == set(want_cols) else (False if set(want_cols) - set(colnames) else None)     # literal column list compared with the K(K+1)/2 partials
    run.ob("R-SEL", fq, "declared-columns", okc, f"{K}-species result declares r, gr and all {K*(K+1)//2 if K>1 else 0} partial columns",
           f"declared {colnames}", witness=None if okc else f"missing {sorted(set(want_cols)-set(colnames))} extra {sorted(set(colnames)-set(want_cols))}",
           loc=fi.loc(), sound=True)
    idx = kw(df, "index")
    ok_idx = eqv(ex(idx), ex(("call", "builtins.range", (attrs["maxbin"],), ()))) if idx is not None else None
    run.ob("R-ALG", fq, "rows", ok_idx, "one row per bin: index = range(maxbin)", f"index = {show(idx)[:80] if idx else None}",
           witness=None if ok_idx else "row count differs from bin count", loc=fi.loc(), sound=True)

    # "like pair" decided by comparing particle NUMBERS: two different species with equal counts are then treated as one species
    seen_cnt = set()
    for e_ in it.events:
        for v_ in e_.data.values():
            if not isinstance(v_, tuple):
                continue
            for x in walk(v_):
                if x[0] == "phi" and x[1][0] == "cmp" and x[1][1] in ("==", "!=") and x[1][2] != x[1][3]:
                    a_, b_ = ex(x[1][2]), ex(x[1][3])
                    cnt = lambda t: any(y[0] == "attr" and y[2] == "typecount" for y in walk(t)) or \
                        any(y[0] == "elem" and y[2] == 1 and y[1][0] == "call" and y[1][1] == "numpy.unique" for y in walk(t))
                    if cnt(x[1][2]) and cnt(x[1][3]) or (cnt(a_) and cnt(b_)):
                        k_ = show(x[1])[:80]
                        if k_ in seen_cnt:
                            continue
                        seen_cnt.add(k_)
                        run.ob("R-SEL", fq, f"like-pair-by-count@{k_[:50]}", False, "whether a column is a like pair (factor 2) or a cross pair (factor 1) depends on the species, not on their particle numbers",
                               f"the choice between {show(x[2])[:20]} and {show(x[3])[:20]} is made by {k_}",
                               witness="an equimolar mixture (N_a = N_b for two different species a, b): the cross column g_ab gets the like-pair factor and is doubled",
                               loc=loc_of(it, e_), sound=True)
    acc, post = {}, {}
    for ev in stores(it):
        tg = ev.data["target"]
        if tg[0] == "sub" and tg[1] == df and is_const(tg[2]):
            (acc if ev.loops else post).setdefault(tg[2][1], []).append(ev)
    # every write to the frame has a literal column name (otherwise "never written" cannot be concluded)
    const_keys_only = all(is_const(e_.data["target"][2]) for e_ in stores(it) if e_.data["target"][0] == "sub" and e_.data["target"][1] == df)
    # ---------------- loop structure
    loops = sorted({l for evs in acc.values() for e in evs for l in e.loops})
    if len(loops) != 2:
        raise AnalysisError(f"{fq}: expected accumulation inside a frame loop and a particle loop, found loops {loops}")
    Lf, Lp = it.loops[loops[0]], it.loops[loops[1]]
    snap = Lf.target
    ivar = Lp.target
    ok_f = eqv(ex(Lf.iter), ("attr", SN, "snapshots"))
    run.ob("R-LOOPDOM", fq, "frames", ok_f, "outer loop visits every snapshot of the trajectory", f"iterates {show(ex(Lf.iter))[:80]}",
           witness=None if ok_f else "frames skipped or foreign list", loc=fi.loc(Lf.node), sound=True)
    pit = ex(Lp.iter)
    ok_p = pit in (("call", "builtins.range", (("bin", "-", N_, C(1)),), ()), ("call", "builtins.range", (N_,), ()))
    if not ok_p and pit[0] == "call" and pit[1] == "builtins.range":
        a = pit[2]
        if len(a) == 1 and a[0] in (("bin", "-", ("attr", snap, "nparticle"), C(1)), ("attr", snap, "nparticle")):
            ok_p = True
    okp_ = True if ok_p else None
    if not ok_p and pit[0] == "call" and pit[1] == "builtins.range" and len(pit[2]) == 1:
        # range(N + c) with an integer c other than 0 / -1: a centre is skipped or the index overruns
        Nsym = sp.Symbol("N", integer=True)
        trp = S.Translator(lambda t: Nsym if t in (N_, ("attr", snap, "nparticle")) else None)
        try:
            dlt = sp.expand(trp.tr(pit[2][0]) - Nsym)
            if not trp.atoms and dlt.is_Integer and dlt not in (0, -1):
                okp_ = False
        except Exception:  # noqa
            pass
    run.ob("R-LOOPDOM", fq, "centres", okp_,
           "centre index i runs over range(N-1) (with j > i: every unordered pair once)", f"iterates {show(pit)[:80]}",
           witness=None if ok_p else f"i in {show(pit)[:60]}", loc=fi.loc(Lp.node), sound=True)

    # species must be read from the frame whose pairs are being counted
    foreign = set()
    for ev_ in stores(it):
        if ev_.loops and ev_.data["target"][1] == df:
            for x in walk(ev_.data["value"]):
                if x[0] == "sub" and x[1] != ("attr", snap, "particle_type"):
                    bx = ex(x[1])
                    if bx[0] == "attr" and bx[2] == "particle_type" and bx[1] != snap:
                        foreign.add(x[1])
    if K > 1:
        # definite only for a fixed frame of the trajectory (constant index) while the pairs come from the loop's frame
        fixed_foreign = [x for x in foreign if (lambda bx: bx[1][0] == "sub" and is_const(bx[1][2]) and not any(y[0] in ("loopvar", "mu", "elem") for y in walk(bx[1])))(ex(x))]
        run.ob("R-SEL", fq, "type-source", True if not foreign else (False if fixed_foreign else None), "species ids in the selectors are read from the frame being processed",
               ", ".join(show(ex(x))[:60] for x in foreign) if foreign else show(("attr", snap, "particle_type"))[:50],
               witness=None if not foreign else "two frames in which particles exchange species at fixed composition: frame 1's pairs are sorted into the columns of frame 0's species",
               loc=fi.loc(), sound=True)
    type_of = make_type_of(snap, ivar, also=tuple(foreign))
    want_bins = ex(attrs["maxbin"])
    want_range = ("tuple", (C(0), ("bin", "*", want_bins, ("sym", "rdelta"))))

    def edges_ok(call):
        return ex(kw(call, "bins", 1) or NONE) == want_bins and range_ok(ex(kw(call, "range", 2) or NONE))

    def range_tri(r):
        if r == want_range:
            return True
        if r[0] == "tuple" and len(r[1]) == 2:
            return tri(eqv(r[1][0], C(0), C(0.0), same=True), S.decide_equal(S.to_sympy(r[1][1]), S.to_sympy(want_range[1][1]))[0])
        return None

    def range_ok(r):
        if r == want_range:
            return True
        if r[0] == "tuple" and len(r[1]) == 2 and r[1][0] in (C(0), C(0.0)):
            ok, _ = S.decide_equal(S.to_sympy(r[1][1]), S.to_sympy(want_range[1][1]))
            return bool(ok)
        return False

    # ---------------- accumulation sites
    masks = {}
    for col, evs in acc.items():
        for ev in evs:
            key = f"{col}@{key_of(ev)[:60]}"
            v = ev.data["value"]
            if ev.data["op"] != "+" or not (v[0] == "elem" and v[2] == 0 and v[1][0] == "call" and v[1][1] == "numpy.histogram"):
                run.ob("R-SEL", fq, key, None, f"column {col} accumulates histogram counts", f"statement not understood: {key_of(ev)[:100]}",
                       loc=loc_of(it, ev))
                continue
            hi = hist_info(v[1], weights_as_mask=True)
            okb = eqv(ex(hi["bins"] or NONE), want_bins)
            run.ob("R-ALG", fq, f"{col}:bins", okb, f"histogram for {col} uses maxbin bins", f"bins = {show(hi['bins'])[:60] if hi['bins'] else None}",
                   witness=None if okb else "bin count differs from the row count / other columns", loc=loc_of(it, ev), sound=True)
            okr = range_tri(ex(hi["range"] or NONE))
            run.ob("R-ALG", fq, f"{col}:range", okr, f"histogram for {col} spans (0, maxbin*rdelta)",
                   f"range = {show(hi['range'])[:80] if hi['range'] else None}",
                   witness=None if okr else "bin edges differ from r_k = k*rdelta", loc=loc_of(it, ev), sound=True)
            if hi["weights"] is not None:
                run.ob("R-SEL", fq, f"{col}:weights", None, f"column {col} counts pairs (no weights)", show(hi["weights"])[:80], loc=loc_of(it, ev))
            # distance provenance
            inner = is_rowwise_norm(hi["data"]) if hi["data"] is not None else None
            pa = pbc_args(inner) if inner is not None else None
            pdiff = pair_difference(pa[0]) if pa else None
            if not pdiff:
                run.ob("R-PBC", fq, f"{col}:distance", None if inner is not None or hi["data"] is None else None,
                       "histogrammed quantity is |minimum image of r_j - r_i|",
                       f"not recognised: {show(hi['data'])[:100] if hi['data'] else None}", loc=loc_of(it, ev))
            else:
                kinds = {index_kind(pdiff["left"], ivar), index_kind(pdiff["right"], ivar)}
                known = all(k_ in ("i", "after_i", "all") for k_ in kinds)
                ok_al = tri(eqv(pdiff["snap"], snap), True if kinds == {"i", "after_i"} else (False if known else None))
                run.ob("R-ALIGN", fq, f"{col}:pairs", ok_al, "distances are between centre i and particles j > i of the same frame",
                       f"difference of positions[{show(pdiff['left'])}] and positions[{show(pdiff['right'])}] of {show(pdiff['snap'])}",
                       witness=None if ok_al else "pair set is not {(i, j): j > i}", loc=loc_of(it, ev), sound=True)
                ok_h = eqv(ex(pa[1]), ("attr", snap, "hmatrix"))
                run.ob("R-PBC", fq, f"{col}:cell", ok_h, "minimum image uses the cell matrix of the same snapshot",
                       f"hmatrix argument {show(pa[1])[:60]}", witness=None if ok_h else "cell of another frame / object", loc=loc_of(it, ev), sound=True)
                ok_m = eqv(ex(pa[2]), ("sym", "ppp")) if pa[2] is not None else False
                run.ob("R-PBC", fq, f"{col}:mask", ok_m, "minimum image uses the instance's periodicity mask",
                       f"ppp argument {show(pa[2])[:60] if pa[2] else 'default'}", witness=None if ok_m else "mask not forwarded", loc=loc_of(it, ev), sound=True)
            if inner is None and hi["mask"] is None:
                # the histogrammed data is not recognised as the bare distance array: a selection may be hidden in it
                masks.setdefault(col, []).append((("unknown", "selection hidden in " + show(hi["data"])[:50] if hi["data"] else "?"), ev))
            else:
                masks.setdefault(col, []).append((hi["mask"], ev))
    # total unmasked
    for mk, ev in masks.get("gr", []):
        unk = mk is not None and mk[0] == "unknown"
        run.ob("R-SEL", fq, "gr:unmasked", True if (mk is None and not unk) else None, "the total column counts every pair", f"mask {show(mk)[:80] if mk else None}",
               witness=None if (mk is None or unk) else "total restricted by a selector", loc=loc_of(it, ev))
    if "gr" not in masks:
        run.ob("R-SEL", fq, "gr:unmasked", False if const_keys_only and "gr" not in post else None, "the total column is accumulated", "no accumulation found", witness="gr never filled", loc=fi.loc(), sound=True)
    # ---------------- exhaustive pair classification
    partial = [c for c in want_cols if c not in ("r", "gr")]
    misaligned = {}
    if K > 1:
        for c in partial:
            if c not in masks:
                run.ob("R-SEL", fq, f"{c}:filled", False if const_keys_only else None, f"partial column {c} is accumulated", "no accumulation site", witness=f"{c} stays 0",
                       loc=fi.loc(), sound=True)     # the only writes to the frame are the literal-key stores, none of them fills this column
        for ta in range(1, K + 1):
            for tb in range(1, K + 1):
                hit = []
                undec = None
                for c, lst in masks.items():
                    if c in ("r", "gr"):
                        continue
                    for mk, ev in lst:
                        if mk is None:
                            hit.append(c)
                            continue
                        try:
                            if eval_pair(mk, ta, tb, type_of, ivar):
                                hit.append(c)
                        except Undecidable as e:
                            undec = f"{c}: {e}"
                        except Misaligned as e:
                            misaligned[c] = (str(e), ev)
                want = f"gr{min(ta, tb)}{max(ta, tb)}"
                key = f"K={K} pair ({ta},{tb})"
                if misaligned:
                    continue
                if undec or not const_keys_only:
                    # a column written under a computed name (loop over column names) is not in the table of selectors: what it
                    # selects is unknown, so "lands in no column" cannot be concluded
                    run.ob("R-SEL", fq, key, None, f"species pair ({ta},{tb}) lands in exactly {want}", undec or "columns are also written under computed names", loc=fi.loc())
                else:
                    ok = hit == [want]
                    run.ob("R-SEL", fq, key, ok, f"centre species {ta}, neighbour species {tb} is counted in exactly {want}",
                           f"selected columns: {hit}", witness=None if ok else f"type_i={ta}, type_j={tb} -> {hit or 'no column'}", loc=fi.loc(), sound=True)   # finite evaluation of every selector on this species pair
        # the same enumeration with UNSIGNED type ids (HOOMD / GSD frames carry uint32 ids; the readers hand them on as they
        # are): differences wrap modulo 2**32, so a selector built on |t_j - t_i| needs a signed operand
        if not misaligned and const_keys_only:
            from .grlib import TV
            bad_u = []
            for ta in range(1, K + 1):
                for tb in range(1, K + 1):
                    hit = []
                    try:
                        for c, lst in masks.items():
                            if c in ("r", "gr"):
                                continue
                            for mk, ev in lst:
                                if mk is None or eval_pair(mk, TV(ta, "u"), TV(tb, "u"), type_of, ivar):
                                    hit.append(c)
                    except (Undecidable, Misaligned):
                        bad_u = None
                        break
                    if hit != [f"gr{min(ta, tb)}{max(ta, tb)}"]:
                        bad_u.append((ta, tb, hit))
                if bad_u is None:
                    break
            if bad_u is None:
                run.ob("R-SEL", fq, f"K={K} unsigned ids", None, "species pairs are classified identically when the type ids are unsigned integers", "selector not evaluable", loc=fi.loc())
            else:
                run.ob("R-SEL", fq, f"K={K} unsigned ids", not bad_u, "species pairs are classified identically when the type ids are unsigned integers (uint32 ids of HOOMD/GSD frames)",
                       "" if not bad_u else f"{len(bad_u)} of {K * K} ordered pairs misclassified",
                       witness=None if not bad_u else f"uint32 ids: type_i={bad_u[0][0]}, type_j={bad_u[0][1]} -> {bad_u[0][2] or 'no column'} (t_j - t_i wraps to 2**32 - {abs(bad_u[0][0] - bad_u[0][1])})",
                       loc=fi.loc(), sound=True)
        for c, (w, ev) in misaligned.items():
            run.ob("R-ALIGN", fq, f"{c}:types", False, "species ids in the selector belong to the same particles as the distances", w,
                   witness=w, loc=loc_of(it, ev), sound=True)
    # ---------------- normalisation
    last_post_seq = -1
    for col in want_cols:
        evs = post.get(col, [])
        if len(evs) != 1:
            run.ob("R-ALG", fq, f"{col}:norm", None, f"column {col} is normalised exactly once after the loops", f"{len(evs)} assignments", loc=fi.loc())
            continue
        ev = evs[0]
        last_post_seq = max(last_post_seq, ev.seq)
        atom_of = make_atom_of((df, ex(df)), edges_ok)
        nideal = sF * sp.pi * (rhi ** sd - rlo ** sd)
        if col == "r":
            ref = rhi - sdel / 2
            what = "r is the bin centre r_hi - rdelta/2"
        elif col == "gr":
            ref = sc * 2 * sV / (sN ** 2 * sT * nideal)
            what = "total g(r) = 2 c V / (N^2 T shell)"
        else:
            a, b = int(col[2]), int(col[3])
            if a == b:
                ref = sc * 2 * sV / (sNk[a] ** 2 * sT * nideal)
                what = f"g_{a}{a} = 2 c V / (N_{a}^2 T shell)"
            else:
                ref = sc * sV / (sNk[a] * sNk[b] * sT * nideal)
                what = f"g_{a}{b} = c V / (N_{a} N_{b} T shell)"
        if ev.data["op"] is not None:
            run.ob("R-ALG", fq, f"{col}:norm", None, what, "augmented assignment form not in the idiom table", loc=loc_of(it, ev))
            continue
        from ..vg import inline_calls
        val = ex(inline_calls(pkg, ev.data["value"]))      # look through small normalisation helpers
        # the count read must be of the same column
        reads = {x[2][1] for x in walk(val) if x[0] == "sub" and x[1] in (df, ex(df)) and is_const(x[2])}
        if col != "r" and reads != {col}:
            run.ob("R-ALG", fq, f"{col}:norm", False if (reads and reads <= set(want_cols)) else None, what, f"normalises counts read from {sorted(reads)}",
                   witness=f"{col} computed from the counts of column(s) {sorted(reads)}", loc=loc_of(it, ev), sound=True)
            continue
        # uniform bins (bins / range verified above): r_lo = r_hi - rdelta
        check_algebra(run, "R-ALG", it, f"{col}:norm", what, val, ref, atom_of, loc_of(it, ev), positive=True,
                      prep=lambda e_: sp.simplify(e_.subs(rlo, rhi - sdel)))
    # ---------------- save
    saves = [e for e in calls(it, ".to_csv")]
    for e in saves:
        call = e.data["call"]
        ok = call[2][0] == df and len(call[2]) >= 2 and ex(call[2][1]) == ("sym", "outputfile") and e.seq > last_post_seq
        early = call[2][0] == df and e.seq < last_post_seq and not e.loops
        ok = True if ok else (False if early else None)       # the returned frame itself is written while normalisations are still to come
        run.ob("R-SAVE", fq, "csv", ok, "the CSV is written from the returned frame, to outputfile, after normalisation",
               f"{show(call)[:100]}", witness=None if ok else "file content differs from returned values", loc=loc_of(it, e), sound=True)
    if not saves:
        run.ob("R-SAVE", fq, "csv", None, "outputfile request is honoured", "no to_csv call", loc=fi.loc())


def check_dispatch(run, pkg, attrs):
    it = interp(pkg, f"{CLS}.getresults")
    fq = short(it.fi.qual)
    nk = ("call", "builtins.len", (("attr", ("sym", "self"), "typenumber"),), ())
    tn = attrs.get("typenumber")
    ok_tn = eqv(tn, TYPENUMBER)
    run.ob("R-DISPATCH", short(pkg.cls(CLS).methods["__init__"].qual), "typenumber", ok_tn,
           "species are the distinct type ids of frame 0", f"typenumber = {show(tn)[:100] if tn else None}",
           witness=None if ok_tn else "species count taken from something else", sound=True)
    for K in range(1, 8):
        def leaf(c, K=K):
            if c[0] == "cmp" and is_const(c[3]) and expand_back(c[2]) == nk:
                b = c[3][1]
                return {"==": K == b, "!=": K != b, ">": K > b, ">=": K >= b, "<": K < b, "<=": K <= b}.get(c[1])
            return None

        def expand_back(t):
            return t
        sel = [r for r in it.returns if guard_eval(r.guards, lambda c: eval_bool(c, leaf)) is True]
        und = [r for r in it.returns if guard_eval(r.guards, lambda c: eval_bool(c, leaf)) is None]
        key = f"K={K}"
        want = METHODS.get(K, "unary")
        if und:
            run.ob("R-DISPATCH", fq, key, None, f"{K} species select one method", "guard not decidable", loc=it.fi.loc())
            continue
        if not sel:
            run.ob("R-DISPATCH", fq, key, False, f"{K} species are dispatched to gr.{want}", "falls through: returns None",
                   witness=f"{K} distinct type ids", loc=it.fi.loc(), sound=True)      # every guard decided for this K, no return selected
            continue
        val = sel[0].data["value"]
        ok = val[0] == "call" and val[1] == pkg.cls(CLS).methods[want].qual
        others = {pkg.cls(CLS).methods[m_].qual for m_ in METHODS.values() if m_ != want}
        ok = True if ok else (False if (val[0] == "call" and val[1] in others) else None)
        run.ob("R-DISPATCH", fq, key, ok, f"{K} species are dispatched to gr.{want}" + (" (total only)" if K > 5 else ""),
               f"returns {show(val)[:80]}", witness=None if ok else f"{K} distinct type ids -> {show(val)[:60]}", loc=loc_of(it, sel[0]), sound=True)
    run.minimum("R-DISPATCH", 7)
