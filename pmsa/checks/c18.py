"""C18 - analyses are pure: inputs are never modified, repeated calls agree, files hold what is returned.

R-EFFECT   for every function of the package: no mutator (subscript store, in-place operator on an array alias,
           in-place method, out=, shuffle..., or a callee whose summary mutates that parameter) targets an object
           that may alias something reachable from a parameter, a constructor argument or a module global.
R-FROZEN   no attribute store on a value that may be an instance of a frozen dataclass.
R-AMBIENT  print-option dependent formatting is dominated by a write of that state in the same function; no RNG /
           clock / unordered-set iteration feeds results; no function writes module globals.
R-SAVE     every np.save / np.savetxt / to_csv call is well-formed (path string first for numpy, frame.to_csv(path)),
           a file requested through the function's own output-path parameter holds an object that is returned, and
           that object is not modified between the save and the return.
"""
from __future__ import annotations

from .common import *  # noqa
from ..effects import Effects, SCALAR_ANNOTATIONS, index_is_basic
from ..vg import Interp, strip_alloc

EXTERNAL = ("param", "ctor", "global", "state")     # state: arrays cached on the instance by another method / the constructor

# file-only side outputs requested through a bare path parameter (function, path parameter): reason
SAVE_EXCEPTIONS = {
    ("static.boo.boo_3d.sij_ql_Ql", "outputqlQl"): "documented second output (per-particle bond counts): written to file only, the call returns the per-bond s_ij table",
    ("neighbors.voropp_neighbors.indicehis", "outputfile"): "writer-only routine, returns None",
}
TEMP_FILES = {"dumpused", "temp"}    # scratch inputs for the external voro++ program (outside every anchor)


def run(run: Run, pkg: Package) -> None:
    run.explanation = (
        "Interprocedural may-alias + effect analysis over all functions of the package: every mutation site is listed with the "
        "abstract objects its target may alias; a site whose target may alias a parameter / constructor argument / global is a "
        "violation (reported with the alias chain). Attribute stores are checked against frozen dataclasses, ambient-state "
        "readers against dominating writers, and every save site for argument roles, identity with a returned object and "
        "absence of later modification.")
    run.assumptions += [
        "third-party calls return fresh objects and do not mutate their arguments, except the tabled view-returning and "
        "mutating functions in pmsa/effects.py",
        "boolean / integer-array (advanced) indexing on a read yields a copy; basic indexing, .T, .real, .values, reshape, "
        "ravel, asarray yield views",
        "augmented assignment on a name annotated int/float/str/bool rebinds an immutable scalar",
    ]
    ef = Effects(pkg)
    n_funcs = 0
    for fi in pkg.all_functions():
        n_funcs += 1
        q = fi.qual
        fq = short(q)
        it = ef.it(q)
        run.functions.add(fq)
        sites = ef.sites.get(q, [])
        seen_keys = {}
        for s in sites:
            ev = s["ev"]
            base_key = f"{s['how'].split(' at ')[0][:40]}: {key_of(ev)[:90]}"
            seen_keys[base_key] = seen_keys.get(base_key, 0) + 1
            key = base_key if seen_keys[base_key] == 1 else f"{base_key} #{seen_keys[base_key]}"
            ext = sorted(r for r in s["roots"] if r[0] in EXTERNAL)
            if s["how"] == "attribute store":
                # R-FROZEN
                tys = types_of(pkg, it, s["target"])
                frozen = [t for t in tys if t in pkg.classes and pkg.classes[t].frozen_dataclass]
                ok = not frozen
                # definite when every possible type of the target is a frozen dataclass
                ok = True if ok else (False if (tys and all(t in pkg.classes and pkg.classes[t].frozen_dataclass for t in tys)) else None)
                run.ob("R-FROZEN", fq, key, ok, "attribute store does not target a frozen dataclass instance",
                       f"target {show(s['target'])[:80]} may be an instance of {[short(t) for t in frozen]}" if frozen else
                       f"target types {[short(t) for t in sorted(tys)] or 'not a package dataclass'}",
                       witness=None if ok else f"{show(s['target'])[:60]}.{s.get('attr')} = ... raises FrozenInstanceError",
                       loc=loc_of(it, ev), sound=True)
            ok = not ext
            private = fi.name.startswith("_") and not fi.name.startswith("__")
            if not ok and private and all(r[0] == "param" for r in ext):
                # a private helper writing into an object it was handed: the effect belongs to its call sites, where the summary
                # "mutates its parameter" is applied to whatever the caller passes (a fresh local there is not a violation)
                run.ob("R-EFFECT", fq, key, True, f"{s['how']} of a private helper on its own parameter is judged at the helper's call sites",
                       f"target {show(s['target'])[:80]} aliases {ext}; propagated to callers through the mutation summary", loc=loc_of(it, ev), nontrivial=False)
                continue
            if not ok:
                # the may-alias answer proves absence; a violation needs the alias to be reached through views only
                dext = sorted(r for r in ef.roots_definite(it, s["target"], own=True) if r[0] in EXTERNAL)
                ok = False if dext else None
            run.ob("R-EFFECT", fq, key, ok, f"{s['how']} does not write memory reachable from the function's inputs",
                   f"target {show(s['target'])[:100]} may alias {ext}" if ext else f"target {show(s['target'])[:70]} is local/fresh",
                   witness=None if ok else f"{fq}: {key_of(ev)[:100]} modifies {', '.join(f'{a}:{b}' for a, b in ext)}",
                   loc=loc_of(it, ev), sound=True)
        if not sites:
            run.ob("R-EFFECT", fq, "no-mutators", True, "function contains no mutating construct", nontrivial=False, loc=fi.loc())
        check_ambient(run, pkg, it)
        check_saves(run, pkg, ef, fi)
        check_memo(run, pkg, it)
        check_memoised(run, pkg, fi)
    run.minimum("R-EFFECT", 300)
    run.minimum("R-SAVE", 55)
    run.extra["functions_total"] = n_funcs
    run.extra["mutation_sites"] = sum(len(v) for v in ef.sites.values())
    run.extra["summaries"] = {"returns_alias": {short(k): sorted(v) for k, v in ef.returns_alias.items() if v},
                              "mutates": {short(k): v for k, v in ef.mutates.items() if v}}
    if run.tier == "thorough":
        from .canary import run_canaries
        run_canaries(run, "C18")


# ------------------------------------------------------------------ R-STATE: results must not depend on the call history
def check_memo(run: Run, pkg: Package, it: Interp) -> None:
    """A method that takes an instance attribute as a cached value (`x = self.A if <test on self.A> else <computed>`) and also
    stores self.A itself must store exactly what the non-cached arm computes; otherwise a later call continues from a value
    of a different kind than the first call and "repeated calls agree regardless of what was computed in between" fails."""
    fi = it.fi
    if fi.cls is None or fi.name == "__init__" or not fi.params:
        return
    fq = short(fi.qual)
    selfsym = ("sym", fi.params[0])
    stores_ = {}
    for ev in it.events:
        if ev.kind == "store" and ev.data["target"][0] == "attr" and ev.data["target"][1] == selfsym and ev.data.get("op") is None:
            stores_.setdefault(ev.data["target"][2], []).append(ev)
    if not stores_:
        return
    seen = set()
    for ev in it.events:
        for v in ev.data.values():
            if not isinstance(v, tuple):
                continue
            for x in walk(v):
                if x[0] != "phi" or x in seen:
                    continue
                seen.add(x)
                for attr, sts in stores_.items():
                    A = ("attr", selfsym, attr)
                    if A not in list(walk(x[1])):
                        continue
                    cached, fresh = (x[2], x[3]) if x[2] == A else ((x[3], x[2]) if x[3] == A else (None, None))
                    if cached is None or A in list(walk(fresh)):
                        continue
                    for st in sts:
                        X = st.data["value"]
                        if st.seq < ev.seq and x not in list(walk(X)):
                            continue
                        Xf = subst(X, lambda y: fresh if y == x else None)      # what a first (non-cached) call stores
                        same = strip_alloc(Xf) == strip_alloc(fresh)
                        ok = True if same else (False if (fresh in list(walk(Xf)) or strip_alloc(fresh) in list(walk(strip_alloc(Xf)))) else None)
                        run.ob("R-STATE", fq, f"memo self.{attr}", ok, f"self.{attr}, reused by later calls in place of the value computed here, is stored as exactly that value",
                               f"reused for {show(fresh)[:70]}; stored: {show(Xf)[:110]}",
                               witness=None if ok else (f"a first call stores self.{attr} = {show(Xf)[:120]}; the next call takes the cached branch and treats it as {show(fresh)[:60]}: "
                                                        f"the result of {fi.name}() depends on which calls were made before"), loc=loc_of(it, st), sound=True)


# ------------------------------------------------------------------ types (for R-FROZEN)
def _ann_types(pkg: Package, text: str):
    out_obj, out_elem = set(), set()
    for ci in pkg.classes.values():
        nm = ci.qual.rsplit(".", 1)[1]
        if nm in text.replace("[", " ").replace("]", " ").replace(",", " ").split():
            if f"List[{nm}]" in text or f"list[{nm}]" in text:
                out_elem.add(ci.qual)
            else:
                out_obj.add(ci.qual)
    return out_obj, out_elem


def _field_ann(pkg: Package, clsq: str, field: str) -> str:
    import ast as _ast
    ci = pkg.classes[clsq]
    for item in ci.node.body:
        if isinstance(item, _ast.AnnAssign) and isinstance(item.target, _ast.Name) and item.target.id == field:
            return _ast.unparse(item.annotation)
    return ""


def types_of(pkg: Package, it: Interp, t: Term, seen=None) -> set:
    seen = seen if seen is not None else set()
    k = t[0]
    if k == "call" and isinstance(t[1], str):
        if t[1] in pkg.classes:
            return {t[1]}
        if t[1] in ("dataclasses.replace", "copy.copy", "copy.deepcopy") and t[2]:
            return types_of(pkg, it, t[2][0], seen)
        return set()
    if k == "sym":
        ann = it.fi.param_annotations().get(t[1], "")
        return _ann_types(pkg, ann)[0]
    if k in ("sub",):
        return elem_types(pkg, it, t[1], seen)
    if k == "loopvar":
        li = it.loops.get(t[1])
        if li is None or li.iter is None:
            return set()
        itr = li.iter
        if itr[0] == "call" and itr[1] == "builtins.enumerate" and itr[2]:
            return set()
        return elem_types(pkg, it, itr, seen)
    if k == "elem":
        if t[1][0] == "loopvar":
            li = it.loops.get(t[1][1])
            if li is not None and li.iter is not None and li.iter[0] == "call" and li.iter[1] == "builtins.enumerate" and li.iter[2] and t[2] == 1:
                return elem_types(pkg, it, li.iter[2][0], seen)
        return set()
    if k == "phi":
        return types_of(pkg, it, t[2], seen) | types_of(pkg, it, t[3], seen)
    if k == "mu":
        key = ("mu", t[1], t[2])
        if key in seen:
            return set()
        seen.add(key)
        out = types_of(pkg, it, t[3], seen) if t[3] is not None else set()
        for ev in it.events:
            if ev.kind == "assign" and ev.data["name"] == t[2] and t[1] in ev.loops:
                out |= types_of(pkg, it, ev.data["value"], seen)
        return out
    if k == "attr":
        out = set()
        for ty in types_of(pkg, it, t[1], seen):
            ann = _field_ann(pkg, ty, t[2])
            out |= _ann_types(pkg, ann)[0]
        if it.selfname is not None and t[1] == ("sym", it.selfname) and it.fi.cls is not None:
            attrs = init_attrs(pkg, it.fi.cls.qual)
            if t[2] in attrs and "__init__" in it.fi.cls.methods:
                init_it = interp(pkg, it.fi.cls.methods["__init__"].qual)
                out |= types_of(pkg, init_it, attrs[t[2]], seen)
        return out
    return set()


def elem_types(pkg: Package, it: Interp, t: Term, seen=None) -> set:
    seen = seen if seen is not None else set()
    k = t[0]
    if k in ("list", "tuple", "set"):
        out = set()
        for x in t[1]:
            out |= types_of(pkg, it, x, seen)
        return out
    if k == "appended":
        return elem_types(pkg, it, t[1], seen) | types_of(pkg, it, t[2], seen)
    if k == "phi":
        return elem_types(pkg, it, t[2], seen) | elem_types(pkg, it, t[3], seen)
    if k == "mu":
        key = ("mu-e", t[1], t[2])
        if key in seen:
            return set()
        seen.add(key)
        out = elem_types(pkg, it, t[3], seen) if t[3] is not None else set()
        for ev in it.events:
            if ev.kind == "assign" and ev.data["name"] == t[2] and t[1] in ev.loops:
                out |= elem_types(pkg, it, ev.data["value"], seen)
        return out
    if k == "sym":
        ann = it.fi.param_annotations().get(t[1], "")
        return _ann_types(pkg, ann)[1]
    if k == "attr":
        out = set()
        for ty in types_of(pkg, it, t[1], seen):
            ann = _field_ann(pkg, ty, t[2])
            out |= _ann_types(pkg, ann)[1]
        if it.selfname is not None and t[1] == ("sym", it.selfname) and it.fi.cls is not None:
            attrs = init_attrs(pkg, it.fi.cls.qual)
            if t[2] in attrs and "__init__" in it.fi.cls.methods:
                init_it = interp(pkg, it.fi.cls.methods["__init__"].qual)
                out |= elem_types(pkg, init_it, attrs[t[2]], seen)
        return out
    if k == "call" and t[1] in ("builtins.list", "builtins.tuple", "builtins.sorted", "builtins.reversed") and t[2]:
        return elem_types(pkg, it, t[2][0], seen)
    if k == "comp":
        return types_of(pkg, it, t[2], seen) if isinstance(t[2], tuple) and t[2] and isinstance(t[2][0], str) else set()
    return set()


# ------------------------------------------------------------------ R-AMBIENT
PRINT_READERS = {"numpy.array2string", "numpy.array_str", "numpy.array_repr"}
NONDET = ("numpy.random.", "random.", "uuid.", "secrets.")
CLOCKS = {"time.time", "time.perf_counter", "time.monotonic", "time.process_time", "datetime.datetime.now", "datetime.datetime.today",
          "os.getpid", "os.urandom"}


MEMO_DECORATORS = ("lru_cache", "cache", "cached_property", "memoize", "memoized")
FILE_READERS = ("builtins.open", "numpy.loadtxt", "numpy.genfromtxt", "numpy.load", "numpy.fromfile", "pandas.read_csv", "pandas.read_table", "gsd.hoomd.open", "mdtraj.load")


def memo_decorator(fi) -> Optional[str]:
    import ast as _ast
    for d in fi.node.decorator_list:
        txt = _ast.unparse(d.func if isinstance(d, _ast.Call) else d)
        if txt.rsplit(".", 1)[-1] in MEMO_DECORATORS:
            return txt
    return None


def reads_files(pkg: Package, fi, depth=0, seen=None) -> Optional[str]:
    """a file-reading call reachable from the function (through analysed callees)"""
    seen = seen if seen is not None else set()
    if fi.qual in seen or depth > 4:
        return None
    seen.add(fi.qual)
    it = interp(pkg, fi.qual)
    for ev in it.events:
        if ev.kind in ("call", "with"):
            c = ev.data["call"] if ev.kind == "call" else ev.data["value"]
            if c[0] == "call" and isinstance(c[1], str):
                if c[1] in FILE_READERS:
                    return c[1]
                if c[1] in pkg.functions:
                    r = reads_files(pkg, pkg.functions[c[1]], depth + 1, seen)
                    if r:
                        return r
    return None


def check_memoised(run: Run, pkg: Package, fi) -> None:
    """A result cache keyed on the arguments makes a call's outcome depend on what was computed before whenever the arguments do
    not determine the result: a file name does not determine the file's content, and a cached mutable result is shared with
    every earlier caller."""
    dec = memo_decorator(fi)
    if dec is None:
        return
    fq = short(fi.qual)
    rd = reads_files(pkg, fi)
    run.ob("R-AMBIENT", fq, f"memoised: @{dec}", False if rd else None, "no result cache on a routine whose result is not a function of its arguments alone",
           f"@{dec} on a routine that reads files through {rd}" if rd else f"@{dec}: cached results are shared between calls",
           witness=(f"{fi.name}(path) is called, the file at `path` is rewritten (or the returned arrays are edited), {fi.name}(path) is called again: the second call returns the first "
                    f"call's objects - stale frame count, timesteps, coordinates") if rd else None, loc=fi.loc(), sound=True)


def check_ambient(run: Run, pkg: Package, it: Interp) -> None:
    fq = short(it.fi.qual)
    setters = [e for e in it.events if e.kind == "call" and e.data["call"][1] == "numpy.set_printoptions"]
    for ev in it.events:
        if ev.kind == "global":
            run.ob("R-AMBIENT", fq, f"global {ev.data['names']}", False, "no function rebinds module globals", key_of(ev),
                   witness=f"global {ev.data['names']}", loc=loc_of(it, ev), sound=True)
        if ev.kind != "call":
            continue
        call = ev.data["call"]
        f = call[1]
        if not isinstance(f, str):
            continue
        if f in PRINT_READERS:
            def good(s):
                c = s.data["call"]
                th, lw = kw(c, "threshold"), kw(c, "linewidth")
                inf = (("mod", "numpy.inf"), ("mod", "sys.maxsize"), ("mod", "numpy.Inf"), ("mod", "math.inf"))
                return (s.seq < ev.seq and th in inf and lw in inf and set(s.loops) <= set(ev.loops)
                        and all(g in ev.guards for g in s.guards))
            ok = any(good(s) for s in setters)
            # explicit per-call options are an accepted alternative
            if not ok and kw(call, "threshold") is not None and (kw(call, "max_line_width") is not None):
                ok = True
            if not ok and not setters:
                okp = False        # the formatter reads numpy's global print options and nothing in the routine sets them
            else:
                okp = True if ok else None
            run.ob("R-AMBIENT", fq, f"{f.rsplit('.', 1)[1]}: {key_of(ev)[:70]}", okp,
                   "array formatting that depends on numpy's print options is preceded by set_printoptions(threshold=inf, linewidth=inf)",
                   "dominating writer found" if ok else "no dominating np.set_printoptions(threshold=np.inf, linewidth=np.inf)",
                   witness=None if ok else "with default print options rows longer than 75 characters wrap and >1000 elements are elided ('...')",
                   loc=loc_of(it, ev), sound=True)
        if f.startswith(NONDET):
            run.ob("R-AMBIENT", fq, f"nondeterminism: {key_of(ev)[:70]}", False, "no random source is used by an analysis", f,
                   witness=f"{f} makes repeated calls disagree", loc=loc_of(it, ev), sound=not any(x[0] == "call" and x[1] in ("numpy.random.seed", "random.seed", "numpy.random.default_rng", "numpy.random.RandomState") for e_ in it.events for v_ in e_.data.values() if isinstance(v_, tuple) for x in walk(v_)))
        if f in CLOCKS:
            res = ev.data["result"]
            bad = None
            for e2 in it.events:
                if e2.kind in ("return", "store") and any(x == res for x in walk(e2.data["value"])):
                    bad = e2
                if e2.kind == "call" and e2.data["call"][1] in ("numpy.save", "numpy.savetxt", ".to_csv", ".write") and \
                        any(x == res for a in e2.data["call"][2] for x in walk(a)):
                    bad = e2
            run.ob("R-AMBIENT", fq, f"clock: {key_of(ev)[:70]}", bad is None, "clock readings do not flow into results or files",
                   "only used for logging" if bad is None else f"flows into {key_of(bad)[:80]}",
                   witness=None if bad is None else "result depends on wall-clock time", loc=loc_of(it, ev), sound=True)
    for lid, li in it.loops.items():
        if li.kind == "for" and li.iter is not None:
            itr = li.iter
            if itr[0] == "set" or (itr[0] == "call" and itr[1] == "builtins.set") or (itr[0] == "comp" and itr[1] == "set"):
                run.ob("R-AMBIENT", fq, f"set-iteration: {norm_stmt(li.node)[:60]}", None,
                       "iteration order over a set does not feed results", "set iteration found; order dependence not decided",
                       loc=it.fi.loc(li.node))


# ------------------------------------------------------------------ R-SAVE
SAVE_FUNCS = {"numpy.save": ("path", "data"), "numpy.savetxt": ("path", "data"), ".to_csv": ("data", "path"),
              "numpy.savez": ("path", "data"), ".to_pickle": ("data", "path")}


def stringish(it: Interp, t: Term, attrs) -> Optional[bool]:
    """True: string-typed path.  False: array / frame valued.  None: unknown."""
    k = t[0]
    if k == "const":
        return isinstance(t[1], str)
    if k == "fstr":
        return True
    if k == "sym":
        ann = it.fi.param_annotations().get(t[1], "")
        if ann.split("[")[0].strip() == "str":
            return True
        if "NDArray" in ann or "ndarray" in ann or "DataFrame" in ann or "np.array" in ann:
            return False
        return None
    if k == "bin" and t[1] == "+":
        a, b = stringish(it, t[2], attrs), stringish(it, t[3], attrs)
        if a is True or b is True:
            return True
        if a is False or b is False:
            return False
        return None
    if k == "bin":
        return False
    if k == "phi":
        a, b = stringish(it, t[2], attrs), stringish(it, t[3], attrs)
        return a if a == b else (a if b is None else (b if a is None else None))
    if k == "sub":
        return stringish(it, t[1], attrs)      # outputfile[:-4]
    if k == "attr":
        if it.selfname is not None and t[1] == ("sym", it.selfname) and t[2] in attrs and it.fi.cls is not None:
            init_it = interp(it.pkg, it.fi.cls.methods["__init__"].qual)
            return stringish(init_it, strip_alloc(attrs[t[2]]), {})
        if t[2] == "name":
            return True
        if t[2] in ("values", "T", "real", "imag"):
            return False
        return None
    if k == "call":
        f = t[1]
        if isinstance(f, str):
            if f in (".join", ".format", ".replace", ".strip", ".lower") and t[2]:
                return stringish(it, t[2][0], attrs)       # str.join vs DataFrame.join: decided by the receiver
            if f in ("builtins.str", "os.path.join"):
                return True
            if f.startswith("numpy.") or f.startswith("pandas.") or f.startswith("PyMatterSim."):
                return False
            if f in (".reset_index", ".mean", ".round", ".groupby", ".astype", ".copy", ".reshape", ".sum"):
                return False
        return None
    if k in ("mu",):
        return stringish(it, t[3], attrs) if t[3] is not None else None
    if k in ("list", "tuple", "dict"):
        return False
    return None


def components(t: Term, out=None):
    """Objects exposed by a returned value: the value, tuple/list members, phi alternatives, dict values."""
    out = out if out is not None else []
    out.append(t)
    if t[0] in ("tuple", "list"):
        for x in t[1]:
            components(x, out)
    elif t[0] == "phi":
        components(t[2], out)
        components(t[3], out)
    elif t[0] == "dict":
        for _, v in t[1]:
            components(v, out)
    elif t[0] == "appended":
        components(t[2], out)
    elif t[0] == "mu" and t[3] is not None:
        components(t[3], out)
    return out


def strip_views(t: Term) -> Term:
    while True:
        if t[0] == "attr" and t[2] in ("values", "real", "T"):
            t = t[1]
        elif t[0] == "sub" and index_is_basic(t[2], set()) is True:
            t = t[1]
        else:
            return t


def derived_from_param(p: Term) -> bool:
    """<path parameter> + '<suffix>' (or an f-string / conditional of such)"""
    if p[0] == "bin" and p[1] == "+":
        return any(x[0] == "sym" for x in (p[2], p[3])) and any(x[0] == "const" and isinstance(x[1], str) for x in (p[2], p[3]))
    if p[0] == "fstr":
        return any(isinstance(x, tuple) and x and x[0] == "fmt" and x[1][0] == "sym" for x in p[1])
    if p[0] == "phi":
        return derived_from_param(p[2]) or derived_from_param(p[3])
    return False


def check_saves(run: Run, pkg: Package, ef: Effects, fi) -> None:
    plain = ef.it(fi.qual)
    if not any(e.kind == "call" and e.data["call"][1] in SAVE_FUNCS for e in plain.events):
        return
    it = Interp(pkg, fi, track_alloc=True)
    fq = short(fi.qual)
    attrs = ef.class_attrs(fi)
    rets = []
    for r in it.returns:
        rets.extend(components(r.data["value"]))
    # objects stored on self are also handed back to the caller
    ret_objs = [strip_views(x) for x in rets]
    returns_none = all(r.data["value"] == NONE for r in it.returns) or not it.returns
    for ev in it.events:
        if ev.kind != "call" or ev.data["call"][1] not in SAVE_FUNCS:
            continue
        call = ev.data["call"]
        f = call[1]
        roles = SAVE_FUNCS[f]
        if len(call[2]) < 2:
            kws = dict(call[3])
            pa = kws.get("file") or kws.get("fname") or kws.get("path_or_buf")
            da = kws.get("arr") or kws.get("X")
            if f == ".to_csv":
                da = call[2][0] if call[2] else None
            if pa is None or da is None:
                run.ob("R-SAVE", fq, f"args: {key_of(ev)[:70]}", None, "save call has a path and a data argument", "arguments not understood",
                       loc=loc_of(it, ev))
                continue
            path, data = pa, da
        else:
            path = call[2][roles.index("path")]
            data = call[2][roles.index("data")]
        key = f"{f}: {show(strip_alloc(path))[:60]}"
        ps, ds = stringish(it, strip_alloc(path), attrs), stringish(it, strip_alloc(data), attrs)
        ok = None
        if ps is True and ds is not True:
            ok = True
        if ps is False or ds is True:
            ok = False
        run.ob("R-SAVE", fq, f"roles {key}", ok, f"{f.lstrip('.')} receives the file path in the path slot and the data in the data slot",
               f"path slot: {show(strip_alloc(path))[:60]} ; data slot: {show(strip_alloc(data))[:60]}",
               witness=None if ok is not False else f"{f}({show(strip_alloc(call[2][0]))[:40]}, {show(strip_alloc(call[2][1]))[:40]}) has its arguments swapped: "
               "raises TypeError / writes to a file named after the data", loc=loc_of(it, ev), sound=True)     # the slot types are decided (string-valued vs array-valued terms)
        # primary output: path is one of the function's own path parameters (possibly with a suffix fixed up)
        p0 = strip_alloc(path)
        prim = None
        cand = [p0]
        if p0[0] == "phi":
            cand = [p0[2], p0[3]]
        for c in cand:
            if c[0] == "sym":
                prim = c[1]
            elif c[0] == "attr" and it.selfname and c[1] == ("sym", it.selfname) and c[2] in attrs and strip_alloc(attrs[c[2]])[0] == "sym":
                prim = strip_alloc(attrs[c[2]])[1]
        if p0[0] == "const" and p0[1] in TEMP_FILES:
            run.ob("R-SAVE", fq, f"identity {key}", True, "scratch input file of the external tessellation program", nontrivial=False,
                   loc=loc_of(it, ev))
            continue
        if prim is None or returns_none:
            # derived paths (outputfile + suffix) are side outputs; writer-only routines return nothing
            later = later_mutation(it, ev, data)
            # a file named <own path parameter> + suffix whose content is returned rescaled / shifted by constants: the same
            # quantity is handed back in another unit than the one written
            resc = None
            if later is None and not returns_none and derived_from_param(p0):
                d0_ = strip_views(data)
                sg_ = {(c, pol) for c, pol in ev.guards}
                for r in it.returns:
                    if r.seq < ev.seq or r.data["value"] == NONE or any((c, not pol) in sg_ for c, pol in r.guards):
                        continue
                    for comp_ in components(r.data["value"]):
                        rv_ = strip_views(comp_)
                        if rv_ != d0_ and any(x == d0_ for x in walk(rv_)):
                            try:
                                import sympy as _sp
                                X_ = _sp.Symbol("X_saved")
                                full_ = strip_alloc(data)
                                e_ = S.to_sympy(strip_alloc(rv_), lambda y: X_ if y in (full_, strip_alloc(d0_)) else None)
                                if e_.free_symbols == {X_} and _sp.Poly(e_, X_).degree() == 1 and _sp.simplify(e_ - X_) != 0:
                                    resc = (r, _sp.sstr(e_))
                            except Exception:  # noqa
                                pass
            if resc is not None:
                run.ob("R-SAVE", fq, f"identity {key}", False, "the file written under the caller's output name holds the values the call returns",
                       f"saved: {show(strip_alloc(data))[:60]} ; returned: {resc[1].replace('X_saved', '<saved>')}",
                       witness=f"the call returns {resc[1].replace('X_saved', '<saved array>')} but the file holds <saved array>", loc=loc_of(it, ev), sound=True)
                continue
            run.ob("R-SAVE", fq, f"identity {key}", later is None, "side output / writer-only: saved object is not modified afterwards",
                   "no later store" if later is None else f"modified by {key_of(later)[:80]} after being saved",
                   witness=None if later is None else "file content differs from the final values", loc=loc_of(it, ev), sound=True)
            continue
        if (fq, prim) in SAVE_EXCEPTIONS:
            run.ob("R-SAVE", fq, f"identity {key}", True, f"tabled exception: {SAVE_EXCEPTIONS[(fq, prim)]}", loc=loc_of(it, ev))
            continue
        d0 = strip_views(data)
        same = any(d0 == r for r in ret_objs)
        # every return that can execute after the save (guards compatible with the save's) must hand back the saved object
        bad_ret = None
        if same:
            sg = {(c, pol) for c, pol in ev.guards}
            for r in it.returns:
                if r.seq < ev.seq or r.data["value"] == NONE:
                    continue
                if any((c, not pol) in sg for c, pol in r.guards):
                    continue
                if not any(d0 == strip_views(x) for x in components(r.data["value"])):
                    bad_ret = r
                    break
            if bad_ret is not None:
                same = False
        if not same and it.returns:
            # the saved object may be stored on self and returned by value later: accept attr state
            pass
        later = later_mutation(it, ev, data)
        ok2 = same and later is None
        # definite: the saved object is changed in place afterwards, or a return that follows the save hands back another object
        # built in this function; "not among the returned objects" alone is a form the rule may not know
        ok2_ = True if ok2 else (False if (later is not None or bad_ret is not None) else None)
        if ok2_ is None and not same and len(it.returns) >= 1:
            # the returned value is computed FROM the saved object and is a different quantity (arithmetic difference over the
            # same constructs, or a reduction of it): the file holds an intermediate / an input, not the result
            for r in it.returns:
                if r.seq < ev.seq or r.data["value"] == NONE:
                    continue
                for comp_ in components(r.data["value"]):
                    rv_ = strip_views(comp_)
                    if rv_ != d0 and any(x == d0 for x in walk(rv_)):
                        from .common import eqv as _eqv
                        diff_ = _eqv(strip_alloc(rv_), strip_alloc(d0))
                        reduced = any(x[0] == "call" and isinstance(x[1], str) and x[1] in (".sum", "numpy.sum", ".mean", "numpy.mean", ".max", ".min", "numpy.linalg.norm", "numpy.trace")
                                      and any(y == d0 for y in walk(x)) for x in walk(rv_))
                        if diff_ is False or (diff_ is None and reduced):
                            ok2_ = False
                            bad_ret = r
        run.ob("R-SAVE", fq, f"identity {key}", ok2_ if (same or ret_objs or later is not None or ok2_ is False) else None,
               f"the file requested through '{prim}' holds an object that the call returns, unmodified after the save",
               ("saved object is returned" if same else f"saved {show(strip_alloc(d0))[:70]} is not among the returned objects")
               + ("" if later is None else f"; modified afterwards by {key_of(later)[:70]}"),
               witness=None if ok2 else (f"file '{prim}' holds {show(strip_alloc(d0))[:60]} but the call returns "
                                         f"{show(strip_alloc((bad_ret or it.returns[0]).data['value']))[:60]}"
                                         + (f" (return at line {bad_ret.lineno})" if bad_ret is not None else "") if not same else
                                         f"object written at line {ev.lineno} is changed at line {later.lineno} before it is returned"),
               loc=loc_of(it, ev), sound=True)


def later_mutation(it: Interp, save_ev: Event, data: Term) -> Optional[Event]:
    obj = strip_views(data)
    for e in it.events:
        if e.seq <= save_ev.seq:
            continue
        if e.kind == "store" and e.data["target"][0] == "sub" and strip_views(e.data["target"][1]) == obj:
            return e
        if e.kind == "aug" and not e.data.get("rebind") and strip_views(e.data["old"]) == obj:
            return e
    return None
