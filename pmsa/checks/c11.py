"""C11 - the Hessian is the mass-weighted second derivative of the documented pair energy.

R-ALG   pair_matrix: every block entry equals s2 x_a x_b / r^2 + (s1 - s1rc)(delta_ab / r - x_a x_b / r^3); all
        ndim^2 entries assigned; each entry even in the pair vector; second block is the negated first.
        prefactor[a, b] = 1/sqrt(m[a+1] m[b+1]); frequencies = sqrt(lambda) for lambda > 0.
R-IDX   placement/prefactor agreement: a block stored at the rows of particle p and the columns of particle q
        is scaled by prefactor[type(p)-1, type(q)-1]; diagonal block accumulates the i-block, off-diagonal block is the
        j-block (= negated); epsilon, sigma, r_c of a pair are all indexed by the same (type_i, type_j) and the cutoff
        tested is the r_c handed to the potential; the pair vector handed to pair_matrix belongs to the same (i, j).
R-LOOPDOM both particle loops run over all particles, pairs j != i inside the cutoff (inclusive).
R-SAVE  the matrix saved is the assembled one, saved before it is deleted; eigh acts on it; mode i is column i.
"""
from __future__ import annotations

import sympy as sp

from .common import *  # noqa
from .grlib import pbc_args

CLS = "static.hessians.HessianMatrix"


def run(run: Run, pkg: Package) -> None:
    run.explanation = (
        "pair_matrix block entries are read from the subscript stores (2D and 3D arms) and compared as rational functions with "
        "the analytic second derivative of a central pair potential; evenness gives block symmetry. The assembly loop is "
        "checked for agreement between where a block is placed (rows/columns of which particles) and the mass prefactor and "
        "parameter indices it uses, the pair condition, the eigen-decomposition target and the save order.")
    attrs = init_attrs(pkg, CLS)
    for ndim in (2, 3):
        check_pair_matrix(run, pkg, attrs, ndim)
    check_assembly(run, pkg, attrs)
    run.minimum("R-ALG", 20)
    run.minimum("R-IDX", 8)


def check_pair_matrix(run, pkg, attrs, ndim):
    def assume(c):
        c2 = expand_self(c, attrs)
        nd = ("call", "builtins.len", (("sym", "ppp"),), ())
        if c2[0] == "cmp" and c2[1] == "==" and c2[2] == nd and is_const(c2[3]):
            return c2[3][1] == ndim
        return None
    it = interp(pkg, f"{CLS}.pair_matrix", assume=assume, self_attrs=dict(attrs, ndim=C(ndim)))
    fi = it.fi
    fq = short(fi.qual)
    p = fi.params
    R = ("sym", p[1])
    D = ("sym", p[2])
    xs = sp.symbols("x0 x1 x2", real=True)
    r = sp.Symbol("r", positive=True)
    s1, s1rc, s2 = sp.symbols("s1 s1rc s2", real=True)

    def atom_of(t):
        if t[0] == "elem" and t[1] == R and isinstance(t[2], int) and t[2] < 3:
            return xs[t[2]]
        if t[0] == "sub" and t[1] == R and is_const(t[2]) and t[2][1] in (0, 1, 2):
            return xs[t[2][1]]
        if t[0] == "call" and t[1] == "numpy.linalg.norm" and t[2] == (R,) and not t[3]:
            return r
        if (t[0] == "elem" and t[1] == D) or (t[0] == "sub" and t[1] == D and is_const(t[2])):
            k = t[2] if t[0] == "elem" else t[2][1]
            return (s1, s1rc, s2)[k] if k in (0, 1, 2) else None
        return None
    if len(it.returns) != 1 or it.returns[0].data["value"][0] != "tuple" or len(it.returns[0].data["value"][1]) != 2:
        raise AnalysisError("pair_matrix: expected return (block_i, block_j)")
    bi, bj = it.returns[0].data["value"][1]
    # ---- symbolic small-matrix evaluation of both blocks (element stores into a zeros block, or outer/eye matrix forms)
    class NoMat(Exception):
        pass
    Rv = sp.Matrix(list(xs[:ndim]))

    def mat(t):
        r_ = atom_of(t)
        if r_ is not None:
            return r_
        k = t[0]
        if t == R:
            return Rv
        if k == "const" and isinstance(t[1], (int, float)) and not isinstance(t[1], bool):
            return S.num(t[1])
        if k == "call":
            f, a_ = t[1], t[2]
            if f in ("numpy.asarray", "numpy.array", "numpy.asanyarray", ".copy", ".astype", "numpy.atleast_1d") and a_:
                return mat(a_[0])
            if f == "numpy.outer" and len(a_) == 2:
                x, y = mat(a_[0]), mat(a_[1])
                return x * y.T
            if f in ("numpy.eye", "numpy.identity") and a_:
                return sp.eye(ndim)
            if f in ("numpy.dot", "numpy.inner", "numpy.vdot") and len(a_) == 2:
                x, y = mat(a_[0]), mat(a_[1])
                if isinstance(x, sp.MatrixBase) and isinstance(y, sp.MatrixBase) and x.shape == y.shape == (ndim, 1):
                    return r ** 2 if x == y == Rv else (x.T * y)[0, 0]
                if isinstance(x, sp.MatrixBase) and isinstance(y, sp.MatrixBase):
                    return x * y
                return x * y
            if f in ("numpy.negative",) and a_:
                return -mat(a_[0])
            if f in ("numpy.square",) and a_:
                x = mat(a_[0])
                if isinstance(x, sp.MatrixBase):
                    raise NoMat("square of matrix")
                return x ** 2
            if f in (".sum", "numpy.sum") and len(a_) == 1 and not t[3]:
                inner = a_[0]
                if inner in (("bin", "*", R, R), ("call", "numpy.square", (R,), ()), ("bin", "**", R, C(2))):
                    return r ** 2
                raise NoMat("sum")
            if f == "numpy.zeros" and a_:
                M = sp.zeros(ndim, ndim)
                for ev_ in stores(it):
                    tg = ev_.data["target"]
                    if tg[1] == t and not (tg[2][0] == "tuple" and len(tg[2][1]) == 2 and all(is_const(x) for x in tg[2][1]) and ev_.data["op"] is None):
                        # a store whose position is not a pair of literals (loop counters, slices, in-place operators): the
                        # entries it fills are unknown to this evaluator - undecided, never read as "stays zero"
                        raise NoMat("element stores at non-literal positions")
                    if tg[1] == t and tg[2][0] == "tuple" and len(tg[2][1]) == 2 and all(is_const(x) for x in tg[2][1]) and ev_.data["op"] is None:
                        i_, j_ = tg[2][1][0][1], tg[2][1][1][1]
                        if i_ < ndim and j_ < ndim:
                            M[i_, j_] = mat(ev_.data["value"])
                return M
            if f in ("numpy.sqrt", "math.sqrt") and a_:
                x = mat(a_[0])
                if x == r ** 2:
                    return r
                return sp.sqrt(x)
            raise NoMat(f"call {f}")
        if k == "bin":
            op = t[1]
            x, y = mat(t[2]), mat(t[3])
            xm, ym = isinstance(x, sp.MatrixBase), isinstance(y, sp.MatrixBase)
            if op == "+":
                return x + y if xm == ym else (_ for _ in ()).throw(NoMat("scalar + matrix"))
            if op == "-":
                return x - y if xm == ym else (_ for _ in ()).throw(NoMat("scalar - matrix"))
            if op == "*":
                if xm and ym:
                    return x.multiply_elementwise(y)
                return x * y
            if op == "/":
                if ym:
                    raise NoMat("division by matrix")
                return x / y
            if op == "**":
                if xm or ym:
                    raise NoMat("matrix power")
                return x ** y
            if op == "@":
                return x * y
            raise NoMat(f"operator {op}")
        if k == "un" and t[1] == "-":
            return -mat(t[2])
        raise NoMat(show(t)[:50])
    ref_m = sp.Matrix(ndim, ndim, lambda a_, b_: s2 * xs[a_] * xs[b_] / r ** 2 + (s1 - s1rc) * ((1 if a_ == b_ else 0) / r - xs[a_] * xs[b_] / r ** 3))
    r_rel = {r ** 2: sum(x_ ** 2 for x_ in xs[:ndim])}
    try:
        Mi, Mj = mat(bi), mat(bj)
        if not (isinstance(Mi, sp.MatrixBase) and Mi.shape == (ndim, ndim) and isinstance(Mj, sp.MatrixBase) and Mj.shape == (ndim, ndim)):
            raise NoMat("blocks are not d x d matrices")

        def zero(e):
            # identities may use r^2 = x.x
            e = sp.together(sp.expand(e))
            if sp.cancel(e) == 0:
                return True
            e2 = sp.simplify(e.subs(r, sp.sqrt(sum(x_ ** 2 for x_ in xs[:ndim]))))
            return e2 == 0
        okneg = all(zero(Mi[a_, b_] + Mj[a_, b_]) for a_ in range(ndim) for b_ in range(ndim))
        run.ob("R-ALG", fq, f"{ndim}D:block_j", okneg, "the block centred on j is the negated block centred on i (entry by entry)", show(bj)[:80],
               witness=None if okneg else "d2U/dr_i dr_j is not -d2U/dr_i dr_i of the pair", loc=fi.loc(), sound=True)     # exact rational-function identity of the two symbolic blocks
        for a_ in range(ndim):
            for b_ in range(ndim):
                key = f"{ndim}D:[{a_},{b_}]"
                d_ = Mi[a_, b_] - ref_m[a_, b_]
                ok = zero(d_)
                wit = None
                if not ok:
                    pt = {xs[0]: sp.Rational(3, 7), xs[1]: sp.Rational(5, 11), xs[2]: sp.Rational(13, 9), s1: sp.Rational(2, 3), s1rc: sp.Rational(7, 5), s2: sp.Rational(11, 13)}
                    rr_ = sp.sqrt(sum(pt[x_] ** 2 for x_ in xs[:ndim]))
                    val = sp.simplify(d_.subs(pt).subs(r, rr_))
                    if val != 0 and not val.free_symbols:
                        wit = f"x={[str(pt[x_]) for x_ in xs[:ndim]]}, s1=2/3, s1rc=7/5, s2=11/13: entry differs from the reference by {sp.N(val, 8)}"
                    else:
                        ok = None
                run.ob("R-ALG", fq, key, ok, f"entry [{a_},{b_}] = s2 x{a_} x{b_}/r^2 + (s1-s1rc)(delta/r - x{a_} x{b_}/r^3)", f"code: {sp.sstr(sp.simplify(Mi[a_, b_]))[:140]}",
                       witness=wit, loc=fi.loc(), sound=True)      # exact difference, shown at a rational point
                g = Mi[a_, b_]
                gm = g.subs({xs[0]: -xs[0], xs[1]: -xs[1], xs[2]: -xs[2]}, simultaneous=True)
                oke = zero(g - gm)
                run.ob("R-ALG", fq, key + ":even", oke if oke else None, f"entry [{a_},{b_}] is even in the pair vector (pair symmetry)", "", loc=fi.loc())
        return
    except NoMat as ex:
        run.ob("R-ALG", fq, f"{ndim}D:block", None, "pair block reducible to a symbolic d x d matrix", f"construct outside the small-matrix grammar: {ex}", loc=fi.loc())
        return
    entries = {}
    extra = [k for k in entries if k[0] >= ndim or k[1] >= ndim]
    if extra:
        run.ob("R-ALG", fq, f"{ndim}D:extent", False, "no entry outside the ndim x ndim block is written", f"writes {extra}",
               witness=f"index {extra[0]} out of bounds for a {ndim}x{ndim} block", loc=fi.loc())


def check_assembly(run, pkg, attrs):
    it = interp(pkg, f"{CLS}.diagonalize_hessian")
    fi = it.fi
    fq = short(fi.qual)

    def ex(t):
        return expand_self(t, attrs)
    SNAP = ("sym", "snapshot")
    ND = ("call", "builtins.len", (("sym", "ppp"),), ())
    NP = ("attr", SNAP, "nparticle")
    PT = ("attr", SNAP, "particle_type")
    # ---- prefactor table
    pre = [e for e in stores(it) if e.data["target"][2][0] == "tuple" and len(e.loops) == 2 and e.data["value"][0] == "bin"
           and any(x == ("sym", "masses") for x in walk(ex(e.data["value"])))]
    # a type-keyed dict must be read by type id: consuming it in iteration order makes the table depend on insertion order
    for e in it.events:
        if e.kind in ("assign", "store"):
            v = ex(e.data["value"])
            for x in walk(v):
                if x[0] == "call" and x[1] in (".values", ".items", "builtins.list", "builtins.sorted") and x[2] and x[2][0] == ("sym", "masses") \
                        and x[1] != "builtins.sorted":
                    run.ob("R-IDX", fq, "masses-order", False if x[1] in (".values", "builtins.list") else None, "masses are looked up by 1-based type id (the dict's insertion order is irrelevant)",
                           f"{key_of(e)[:110]}", witness="masses = {3: 4.0, 1: 1.0, 2: 2.5}: position k of the values is not the mass of type k+1; "
                           "mass-weighted translations are no longer annihilated", loc=loc_of(it, e), sound=True)    # the dict's values/keys are consumed positionally
                    break
    if len(pre) != 1:
        if mass_factor_fallback(run, it, fi, fq, ex, SNAP, PT, NP):
            return
        raise AnalysisError(f"{fq}: mass prefactor table store not found ({len(pre)})")
    pe = pre[0]
    PRE = pe.data["target"][1]
    la, lb = (it.loops[l] for l in pe.loops)
    ia, ib = pe.data["target"][2][1]
    ma, mb = sp.symbols("m_a m_b", positive=True)

    def pre_atom(t):
        t = ex(t)
        if t[0] == "sub" and t[1] == ("sym", "masses"):
            if t[2] in (("bin", "+", ia, C(1)), ("bin", "+", C(1), ia)):
                return ma
            if t[2] in (("bin", "+", ib, C(1)), ("bin", "+", C(1), ib)):
                return mb
        return None
    check_algebra(run, "R-ALG", it, "prefactor", "prefactor[a, b] = 1/sqrt(m[a+1] m[b+1]) (masses keyed by 1-based type id)",
                  pe.data["value"], 1 / sp.sqrt(ma * mb), pre_atom, loc_of(it, pe), positive=True)
    ok_dom = ia == la.target and ib == lb.target and ex(la.iter)[0] == "call" and ex(lb.iter)[0] == "call"
    run.ob("R-LOOPDOM", fq, "prefactor-domain", True if ok_dom else None, "prefactor table is filled for every type pair", f"{show(ex(la.iter))[:50]} x {show(ex(lb.iter))[:50]}",
           witness=None if ok_dom else "table entries skipped", loc=loc_of(it, pe))

    # ---- block stores into the big matrix
    blocks = [e for e in stores(it) if e.data["target"][2][0] == "tuple" and len(e.data["target"][2][1]) == 2
              and all(x[0] == "slice" for x in e.data["target"][2][1])]
    if len(blocks) != 2:
        raise AnalysisError(f"{fq}: expected two block stores (diagonal, off-diagonal), found {len(blocks)}")
    H = blocks[0].data["target"][1]
    if blocks[1].data["target"][1] != H:
        raise AnalysisError(f"{fq}: block stores target different matrices")
    loops = [it.loops[l] for l in blocks[0].loops]
    if len(loops) != 2:
        raise AnalysisError(f"{fq}: block stores are not inside the (i, j) particle loops")
    Li, Lj = loops
    I, J = Li.target, Lj.target
    rng = ("call", "builtins.range", (NP,), ())
    for nm, L in (("i", Li), ("j", Lj)):
        ok = eqv(ex(L.iter), rng)
        run.ob("R-LOOPDOM", fq, f"loop-{nm}", ok, f"particle loop {nm} runs over all particles", show(ex(L.iter))[:60],
               witness=None if ok else "particles skipped: rows/columns of the Hessian left empty", loc=fi.loc(L.node), sound=True)

    si, sj, sdm = sp.Symbol("i"), sp.Symbol("j"), sp.Symbol("d")

    def particle_of_slice(sl):
        """(particle, extent ok) | (None, witness-or-None)"""
        lo, hi = ex(sl[1]), ex(sl[2])
        tr = S.Translator(lambda t: si if t == I else (sj if t == J else (sdm if t == ND else None)))
        try:
            glo, ghi = sp.expand(tr.tr(lo)), sp.expand(tr.tr(hi))
        except Exception:
            return None, None
        if tr.atoms:
            return None, None
        for P, sP in ((I, si), (J, sj)):
            if sp.expand(glo - sP * sdm) == 0:
                return P, sp.expand(ghi - glo - sdm) == 0
        return None, f"block starts at row/column {glo} : {ghi}, not at p*ndim : (p+1)*ndim of a particle"

    def type_index(t):
        """itype = int(particle_type[P] - 1) -> P"""
        t = ex(t)
        if t[0] == "call" and t[1] == "builtins.int" and len(t[2]) == 1:
            t = t[2][0]
        if t[0] == "bin" and t[1] == "-" and t[3] == C(1) and t[2][0] == "sub" and t[2][1] == PT:
            return t[2][2]
        return None

    pm_call = None
    for ev in blocks:
        tg = ev.data["target"]
        rp, rok = particle_of_slice(tg[2][1][0])
        cp, cok = particle_of_slice(tg[2][1][1])
        kind = "diagonal" if rp == cp else "off-diagonal"
        key = f"{kind} block"
        if rp is None or cp is None:
            wit = rok if rp is None else cok
            key = f"block@{key_of(ev)[:50]}"
            run.ob("R-IDX", fq, key, False if isinstance(wit, str) else None, "block rows/columns are the ndim coordinates of one particle each",
                   wit if isinstance(wit, str) else f"slices {show(tg[2])[:100]} not understood", witness=wit if isinstance(wit, str) else None,
                   loc=loc_of(it, ev), sound=True)      # slice bounds are polynomials in (i, j, ndim) only
            continue
        run.ob("R-IDX", fq, key + ":extent", rok and cok, "block spans ndim rows and ndim columns starting at p*ndim", show(ex(tg[2]))[:120],
               witness=None if rok and cok else "block slice has the wrong length", loc=loc_of(it, ev), sound=True)
        val = ev.data["value"]
        if not (val[0] == "bin" and val[1] == "*"):
            run.ob("R-IDX", fq, key, None, "block is pair block x mass prefactor", show(val)[:100], loc=loc_of(it, ev))
            continue
        a, b = val[2], val[3]
        pf, blk = (a, b) if (a[0] == "sub" and a[1] == PRE) else (b, a)
        if not (pf[0] == "sub" and pf[1] == PRE and pf[2][0] == "tuple" and len(pf[2][1]) == 2):
            run.ob("R-IDX", fq, key, None, "block is scaled by the mass prefactor table", show(val)[:100], loc=loc_of(it, ev))
            continue
        ta, tb = type_index(pf[2][1][0]), type_index(pf[2][1][1])
        ok = (ta, tb) == (rp, cp)
        run.ob("R-IDX", fq, key + ":prefactor", True if ok else (False if (ta in (I, J) and tb in (I, J)) else None),
               f"block at rows of particle {show(rp)} and columns of particle {show(cp)} is scaled by prefactor[type({show(rp)})-1, type({show(cp)})-1]",
               f"scaled by prefactor[type({show(ta) if ta else '?'})-1, type({show(tb) if tb else '?'})-1]",
               witness=None if ok else f"masses {{1: 1, 2: 3}}: the {kind} block gets 1/sqrt(m[{show(ta)}] m[{show(tb)}]) instead of "
               f"1/sqrt(m[{show(rp)}] m[{show(cp)}]); M^-1/2 H M^-1/2 no longer annihilates translations", loc=loc_of(it, ev), sound=True)     # both type indices are those of loop particles, compared with the block's rows/columns
        # which pair block
        want_elem = 0 if kind == "diagonal" else 1
        okb = blk[0] == "elem" and blk[2] == want_elem and blk[1][0] == "call" and blk[1][1].endswith("HessianMatrix.pair_matrix")
        if kind == "off-diagonal" and not okb and blk[0] == "un" and blk[1] == "-" and blk[2][0] == "elem" and blk[2][2] == 0:
            okb = True
            blk = blk[2]
        okb_ = True if okb else (False if (blk[0] == "elem" and blk[2] in (0, 1) and blk[1][0] == "call" and blk[1][1].endswith("HessianMatrix.pair_matrix")) else None)
        run.ob("R-IDX", fq, key + ":which", okb_, f"{kind} block uses the " + ("i-centred pair block" if kind == "diagonal" else "negated (j-centred) pair block"),
               show(blk)[:80], witness=None if okb else "sign of the block is wrong: rows no longer sum to zero", loc=loc_of(it, ev), sound=True)
        if blk[0] == "elem" and blk[1][0] == "call":
            pm_call = blk[1]
        want_op = "+" if kind == "diagonal" else None
        okop = ev.data["op"] == want_op
        okop_ = True if okop else (False if (kind == "diagonal" and ev.data["op"] is None) else None)
        run.ob("R-IDX", fq, key + ":accumulate", okop_, "diagonal block accumulates over neighbours (+=), off-diagonal block is assigned once",
               f"operator {ev.data['op']}", witness=None if okop else ("diagonal block overwritten by the last neighbour" if kind == "diagonal" else
                                                                        "off-diagonal block accumulated"), loc=loc_of(it, ev), sound=True)
        # pair condition
        gs = [g for g, pol in ev.guards if pol]
        flat = []
        for g in gs:
            if g[0] == "bin" and g[1] == "&":
                flat += [g[2], g[3]]
            elif g[0] == "bool" and g[1] == "and":
                flat += list(g[2])
            else:
                flat.append(g)
        ne = any(c in (("cmp", "!=", J, I), ("cmp", "!=", I, J)) for c in flat)
        run.ob("R-LOOPDOM", fq, key + ":j!=i", True if ne else None, "self pair is excluded", [show(c)[:40] for c in flat],
               witness=None if ne else "self interaction at r = 0", loc=loc_of(it, ev))
    if pm_call is None:
        return
    # ---- pair vector and potential parameters
    rv = pm_call[2][0] if pm_call[2] else None
    dud = pm_call[2][1] if len(pm_call[2]) > 1 else None
    ok_rv = None
    detail = show(rv)[:100] if rv else "?"
    pa = None
    if rv is not None and rv[0] == "sub":
        pa = pbc_args(rv[1])
        if pa and pa[0][0] == "bin" and pa[0][1] == "-":
            pos = ("attr", SNAP, "positions")
            d = (ex(pa[0][2]), ex(pa[0][3]))
            # the row picked out of the (all particles - particle i) displacement array must be that of the loop's j
            ok_rv = tri(True if d in ((("sub", pos, I), pos), (pos, ("sub", pos, I))) else None, eqv(rv[2], J))
    if pa is None and rv is not None:
        # no call of remove_pbc: an inline re-implementation is decided by the shared machinery (frame typing, algebra, concrete
        # tilted cells); its verdict is reported by the driver under "inline minimum image"
        from .grlib import find_inline_image
        v_img = find_inline_image(ex(rv))
        if v_img[0] == "ok":
            ok_rv = True
            detail = "inline minimum image verified: " + detail
        elif v_img[0] == "bad":
            ok_rv = False
            detail = "inline minimum image refuted: " + str(v_img[1])[:200]
    run.ob("R-PBC", fq, "pair-vector", ok_rv, "pair_matrix receives the minimum-image vector between particles i and j", detail,
           witness=None if ok_rv else (detail if detail.startswith("inline minimum image refuted") else "block computed from the vector of another pair"), loc=fi.loc(), sound=True)
    if pa:
        okh = tri(eqv(ex(pa[1]), ("attr", SNAP, "hmatrix")), eqv(ex(pa[2]), ("sym", "ppp")) if pa[2] is not None else False)
        run.ob("R-PBC", fq, "cell", okh, "minimum image uses the snapshot's cell and the instance mask", f"{show(ex(pa[1]))[:40]}, {show(ex(pa[2]))[:30] if pa[2] else None}",
               witness=None if okh else "wrong cell / mask", loc=fi.loc(), sound=True)
    # dudrs = PairInteractions(...).caller(params)
    pi = None
    if dud is not None and dud[0] == "call" and dud[1] == ".caller" and dud[2] and dud[2][0][0] == "call" and dud[2][0][1].endswith("PairInteractions"):
        pi = dud[2][0]
        okc = eqv(dud[2][1], ("sym", "interaction_params")) if len(dud[2]) == 2 else None
        run.ob("R-DISPATCH", fq, "caller", okc, "the requested interaction parameters select the model", show(dud)[:80],
               witness=None if okc else "model parameters not forwarded", loc=fi.loc(), sound=True)
    if pi is None:
        run.ob("R-IDX", fq, "pair-parameters", None, "pair potential constructed per pair", show(dud)[:100] if dud else "?", loc=fi.loc())
        return
    ctor = pkg.cls("static.hessians.PairInteractions").methods["__init__"].params[1:]
    bound = {ctor[k]: a for k, a in enumerate(pi[2]) if k < len(ctor)}
    bound.update({k: v for k, v in pi[3]})

    def pair_indexed(t, table):
        t = ex(t)
        if t[0] == "sub" and t[1] == ("sym", table) and t[2][0] == "tuple" and len(t[2][1]) == 2:
            return type_index(t[2][1][0]), type_index(t[2][1][1])
        return None
    for pname, table in (("epsilon", "epsilons"), ("sigma", "sigmas"), ("r_c", "r_cuts")):
        got = pair_indexed(bound.get(pname, NONE), table)
        ok = got in ((I, J), (J, I))
        run.ob("R-IDX", fq, f"param {pname}", True if ok else (False if (got is not None and got[0] in (I, J) and got[1] in (I, J)) else None),
               f"{pname} of pair (i, j) is {table}[type_i-1, type_j-1]", show(ex(bound.get(pname, NONE)))[:100],
               witness=None if ok else f"{pname} taken from table/indices of another pair type", loc=fi.loc(), sound=True)
    dist_j = bound.get("r")
    ok_r = False
    if dist_j is not None and dist_j[0] == "sub" and dist_j[2] == J and rv is not None:
        inner = dist_j[1]
        ok_r = inner[0] == "call" and inner[1] == "numpy.linalg.norm" and inner[2] and inner[2][0] == rv[1] and kw(inner, "axis", 1) == C(1)
    run.ob("R-IDX", fq, "param r", True if ok_r else None, "r is the length of the same pair vector that is handed to pair_matrix", show(dist_j)[:80] if dist_j else "?",
           witness=None if ok_r else "distance and direction belong to different pairs", loc=fi.loc())
    shv = ex(bound.get("shift", NONE))
    oksh = True if shv == ("sym", "shiftpotential") else (False if (is_const(shv) and "shift" in bound) else None)     # a literal where the instance setting belongs
    run.ob("R-IDX", fq, "param shift", oksh, "the shift flag of the instance is forwarded", show(ex(bound.get("shift", NONE)))[:40],
           witness=None if oksh else "shift setting ignored", loc=fi.loc(), sound=True)
    # cutoff comparison uses the same r_c and is inclusive
    ev = blocks[0]
    cut = None
    for g, pol in ev.guards:
        for c in walk(g):
            if c[0] == "cmp" and c[1] in ("<=", "<", ">", ">=") and (c[2] == dist_j or c[3] == dist_j):
                cut = c
    if cut is None:
        run.ob("R-CMP", fq, "cutoff", None, "pairs inside the cutoff are kept", "comparison not found", loc=loc_of(it, ev))
    else:
        lhs, rhs, op = cut[2], cut[3], cut[1]
        if rhs == dist_j:
            lhs, rhs = rhs, lhs
            op = {"<=": ">=", "<": ">", ">=": "<=", ">": "<"}[op]
        okcut = tri(True if op == "<=" else (False if op == "<" else None), eqv(ex(rhs), ex(bound.get("r_c", NONE))))
        run.ob("R-CMP", fq, "cutoff", okcut, "pair kept iff distance <= r_c, with the r_c that is handed to the potential",
               show(cut)[:100], witness=None if okcut else "cutoff tested differs from the cutoff used for the force shift / boundary not inclusive",
               loc=loc_of(it, ev), sound=True)
    # ---- eigen-decomposition, saves
    eig = [e for e in it.events if e.kind == "call" and e.data["call"][1] in ("numpy.linalg.eigh", "numpy.linalg.eig", "scipy.linalg.eigh")]
    if len(eig) != 1:
        run.ob("R-SAVE", fq, "eigh", None, "one eigen-decomposition", f"{len(eig)} calls", loc=fi.loc())
        return
    ee = eig[0]
    ok_e = ee.data["call"][1].endswith("eigh") and ee.data["call"][2] and ee.data["call"][2][0] == H and ee.seq > max(b.seq for b in blocks)
    run.ob("R-SAVE", fq, "eigh", True if ok_e else None, "the symmetric eigen-solver is applied to the assembled matrix", show(ee.data["call"])[:60],
           witness=None if ok_e else "spectrum of another matrix / unsymmetric solver", loc=loc_of(it, ee))
    evals, evecs = ("elem", ee.data["result"], 0), ("elem", ee.data["result"], 1)
    for e in it.events:
        if e.kind == "call" and e.data["call"][1] == "numpy.save":
            c = e.data["call"]
            data = c[2][1] if len(c[2]) > 1 else None
            if data == H:
                dels = [d for d in it.events if d.kind == "del" and d.data.get("target") == H]
                ok_s = all(d.seq > e.seq for d in dels) and e.seq > max(b.seq for b in blocks)
                run.ob("R-SAVE", fq, "save-hessian", True if ok_s else (False if any(d.seq < e.seq for d in dels) else None), "the matrix is saved after assembly and before it is deleted", key_of(e)[:80],
                       witness=None if ok_s else "saved matrix incomplete / name already deleted", loc=loc_of(it, e), sound=True)
            elif data == evecs:
                run.ob("R-SAVE", fq, "save-evecs", True, "eigenvectors saved are those returned by eigh", key_of(e)[:80], loc=loc_of(it, e))
            else:
                run.ob("R-SAVE", fq, f"save:{key_of(e)[:40]}", None, "saved object is the matrix or its eigenvectors",
                       show(data)[:80] if data else "?", loc=loc_of(it, e))
    # participation ratio per column, frequencies
    prc = [e for e in it.events if e.kind == "call" and e.data["call"][1] == "PyMatterSim.static.vector.participation_ratio"]
    if len(prc) == 1:
        e = prc[0]
        arg = e.data["call"][2][0]
        L = it.loops[e.loops[-1]] if e.loops else None
        okc = False
        if L is not None and arg[0] == "call" and arg[1] == ".reshape" and arg[2][0] == ("sub", evecs, ("tuple", (("slice", NONE, NONE, NONE), L.target))):
            shape = arg[2][1:]
            if len(shape) == 1 and shape[0][0] == "tuple":
                shape = shape[0][1]
            okc = tuple(ex(s_) for s_ in shape) in ((NP, ND), (NP, C(-1)), (C(-1), ND))
        okc_ = True if okc else None
        if not okc and L is not None and arg[0] == "call" and arg[1] == ".reshape" and arg[2][0] in (("sub", evecs, L.target), ("sub", evecs, ("tuple", (L.target, ("slice", NONE, NONE, NONE))))):
            okc_ = False       # row i of the eigenvector matrix: eigh returns the modes as columns
        run.ob("R-IDX", fq, "mode-column", okc_, "mode i is column i of the eigenvector matrix reshaped (nparticle, ndim)", show(arg)[:100],
               witness=None if okc else "rows used as modes / wrong reshape: participation ratios of non-modes", loc=loc_of(it, e), sound=True)
        okl = eqv(L.iter, ("call", "builtins.range", (("sub", ("attr", evecs, "shape"), C(1)),), ())) if L is not None else None
        run.ob("R-LOOPDOM", fq, "modes", okl, "every mode gets a participation ratio", show(L.iter)[:60] if L else "?",
               witness=None if okl else "modes skipped", loc=loc_of(it, e), sound=True)
    lam = sp.Symbol("lam", real=True)
    fr = None
    for e in it.events:
        if e.kind == "assign" and e.data["value"][0] == "call" and e.data["value"][1] == "numpy.where" and any(x == evals for x in walk(e.data["value"])):
            fr = e
    if fr is not None:
        w = fr.data["value"]
        okw = eqv(w, ("call", "numpy.where", (("cmp", ">", evals, C(0)), ("call", "numpy.sqrt", (evals,), ()), evals), ()))
        wit_w = "frequency is not the square root of the eigenvalue"
        if okw is not True:
            # evaluated on spectra of very different magnitude (the property holds in any unit system): every positive eigenvalue
            # must come out as its square root, whatever its size
            import numpy as np
            from ..concrete import ev as cev
            try:
                for lamv in (np.array([4.0, 0.25, 9.0]), np.array([4e-10, 2.5e-11, 9e-12]), np.array([1.6e-19, 4e-20, 1e-18]), np.array([4e12, 9e10, 1.0])):
                    with np.errstate(all="ignore"):
                        got = np.asarray(cev(w, {evals: lamv}), dtype=float)
                    if got.shape != lamv.shape or not np.allclose(got, np.sqrt(lamv), rtol=1e-12, atol=0.0):
                        okw = False
                        wit_w = f"eigenvalues {lamv.tolist()}: reported frequencies {got.tolist()}, square roots {np.sqrt(lamv).tolist()}"
                        break
            except Exception:  # noqa
                pass
        run.ob("R-ALG", fq, "frequencies", okw, "omega = sqrt(lambda) for lambda > 0 (non-positive eigenvalues reported as they are)", show(w)[:100],
               witness=None if okw else wit_w, loc=loc_of(it, fr), sound=True)


def mass_factor_fallback(run, it, fi, fq, ex, SNAP, PT, NP) -> bool:
    """No type-pair prefactor table: the scalar that multiplies each block is read off the block store and evaluated on a concrete
    five-particle frame (types 2,1,3,1,2; masses 1, 4, 9) for every ordered pair of particles; it must be 1/m_i on the diagonal
    block and 1/sqrt(m_i m_j) on the off-diagonal one.  Returns False when the stores are not understood."""
    import numpy as np
    from .. import concrete as _cc
    try:
        import pandas as _pd
        _cc.FUNCS.setdefault("pandas.Series", _pd.Series)
        _cc.METHODS.add(".map")
    except Exception:  # noqa
        pass
    blocks = [e for e in stores(it) if e.data["target"][2][0] == "tuple" and len(e.data["target"][2][1]) == 2 and all(x[0] == "slice" for x in e.data["target"][2][1])]
    if len(blocks) != 2 or len(blocks[0].loops) != 2:
        return False
    Li, Lj = (it.loops[l] for l in blocks[0].loops)
    I, J = Li.target, Lj.target
    types = np.array([2, 1, 3, 1, 2])
    masses = {1: 1.0, 2: 4.0, 3: 9.0}

    def factors(v):
        if v[0] == "bin" and v[1] == "*":
            return factors(v[2]) + factors(v[3])
        return [v]
    done = 0
    for ev in blocks:
        fs = factors(ex(ev.data["value"]))
        scal = [f for f in fs if not any(x[0] == "call" and isinstance(x[1], str) and x[1].endswith("pair_matrix") for x in walk(f))]
        if not scal or len(scal) == len(fs):
            return False
        # diagonal block: row and column slices mention the same loop variable only
        tg = ev.data["target"][2][1]
        vars_ = [{x for x in walk(ex(sl)) if x in (I, J)} for sl in tg]
        kind = "diagonal" if vars_[0] == vars_[1] else "off-diagonal"
        bad = None
        try:
            for a in range(5):
                for b in range(5):
                    if a == b:
                        continue
                    env = {("sym", "masses"): masses, ("attr", ("sym", "self"), "masses"): masses, PT: types, NP: 5, I: a, J: b}
                    val = 1.0
                    for f in scal:
                        val = val * float(_cc.ev(f, env))
                    rowp = a if I in vars_[0] else b
                    colp = a if I in vars_[1] else b
                    want = 1.0 / np.sqrt(masses[types[rowp]] * masses[types[colp]])
                    if abs(val - want) > 1e-12:
                        bad = (f"types {types.tolist()}, masses {masses}: the {kind} block of particles ({rowp}, {colp}) [types {types[rowp]}, {types[colp]}] is scaled by {val:.6g}, "
                               f"1/sqrt(m_{types[rowp]} m_{types[colp]}) = {want:.6g}")
                        break
                if bad:
                    break
        except Exception as e:  # noqa
            run.ob("R-IDX", fq, f"{kind} block:prefactor", None, "mass factor of the block evaluated on a concrete frame", f"not evaluable: {type(e).__name__}: {str(e)[:80]}", loc=loc_of(it, ev))
            done += 1
            continue
        run.ob("R-IDX", fq, f"{kind} block:prefactor", bad is None, f"the {kind} block of particles (p, q) is scaled by 1/sqrt(m[type(p)] m[type(q)]) "
               "(mass factor read off the block store, evaluated for all ordered pairs of a five-particle frame with three species)",
               " x ".join(show(f)[:50] for f in scal), witness=bad, loc=loc_of(it, ev), sound=True)
        done += 1
    return done == 2
