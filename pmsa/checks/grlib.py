"""Shared analysis of the pair-correlation family (gr.* methods, conditional_gr)."""
from __future__ import annotations

from typing import Any, Dict, List, Optional, Tuple

import sympy as sp

from .common import *  # noqa


class Undecidable(Exception):
    pass


# ------------------------------------------------------------------ inline minimum-image expressions
_PKG = None
INLINE_IMAGES: Dict[Term, Tuple] = {}      # term -> ("ok", (R, H, M)) | ("bad", witness) | ("unknown", reason)


def set_package(pkg) -> None:
    global _PKG
    _PKG = pkg
    INLINE_IMAGES.clear()


def _inline(t: Term) -> Term:
    if _PKG is None:
        return t
    from ..vg import inline_calls
    if any(x[0] == "call" and isinstance(x[1], str) and x[1] in _PKG.functions and x[1] != REMOVE_PBC_Q for x in walk(t)):
        return inline_calls(_PKG, t)
    return t


REMOVE_PBC_Q = "PyMatterSim.utils.pbc.remove_pbc"


_PROBES: Dict[Term, Tuple] = {}


def lift_transformed_difference(t: Term) -> Term:
    """g(P)[a] - g(P)[b], with P a snapshot's positions and g a row-wise linear map of the coordinates (products with the cell
    matrix or its inverse, solves, transposes), is g(P[a] - P[b]).  The rewrite is applied only when the map is built from
    those operations alone AND commutes with row selection on a concrete array (guard against a transposed intermediate)."""
    from . import c02
    import numpy as np

    def pos_atoms(z):
        return [y for y in walk(z) if y[0] == "attr" and y[2] == "positions"]

    def linear_in(A, P):
        """every path from A down to P passes only row-wise linear operations"""
        if A == P:
            return True
        k = A[0]
        if k == "attr" and A[2] == "T":
            return linear_in(A[1], P)
        if k == "call" and A[1] in ("numpy.dot", "numpy.matmul", ".dot", "numpy.linalg.solve", "numpy.transpose", ".transpose", "numpy.asarray", "numpy.array", ".copy") and not [kk for kk, _ in A[3] if kk != "@"]:
            with_p = [x for x in A[2] if P in list(walk(x))]
            return len(with_p) == 1 and linear_in(with_p[0], P)
        if k == "bin" and A[1] == "@":
            with_p = [x for x in (A[2], A[3]) if P in list(walk(x))]
            return len(with_p) == 1 and linear_in(with_p[0], P)
        if k == "bin" and A[1] in ("*", "/"):
            if P in list(walk(A[3])):
                return A[1] == "*" and P not in list(walk(A[2])) and linear_in(A[3], P)
            return linear_in(A[2], P)
        return False
    for x in walk(t):
        if not (x[0] == "bin" and x[1] == "-"):
            continue
        # g(P)[a] - g(P)[b], or one side the whole array: g(P)[a] - g(P)  /  g(P) - g(P)[b]
        if x[2][0] == "sub" and x[3][0] == "sub" and x[2][1] == x[3][1]:
            A, ia, ib = x[2][1], x[2][2], x[3][2]
        elif x[2][0] == "sub" and x[2][1] == x[3]:
            A, ia, ib = x[3], x[2][2], None
        elif x[3][0] == "sub" and x[3][1] == x[2]:
            A, ia, ib = x[2], None, x[3][2]
        else:
            continue
        ps = pos_atoms(A)
        if (A[0] == "attr" and A[2] == "positions") or len(set(ps)) != 1:
            continue
        P = ps[0]
        if not linear_in(A, P):
            continue
        Hs = [y for y in walk(A) if y[0] == "attr" and y[2] == "hmatrix"]
        # concrete guard: the map commutes with row selection
        try:
            rng = np.random.default_rng(7)
            ok = True
            for d in (2, 3):
                Hm = np.tril(rng.uniform(-1.5, 1.5, (d, d)))
                Hm[np.diag_indices(d)] = rng.uniform(2.0, 4.0, d)
                Pm = rng.uniform(-5, 5, (5, d))
                env = {P: Pm}
                for h in Hs:
                    env[h] = Hm
                full = c02.eval_np(A, env)
                env2 = dict(env)
                env2[P] = Pm[1:3]
                part = c02.eval_np(A, env2)
                if np.shape(full) != (5, d) or not np.allclose(full[1:3], part):
                    ok = False
            if not ok:
                continue
        except Exception:  # noqa
            continue
        R = ("bin", "-", ("sub", P, ia) if ia is not None else P, ("sub", P, ib) if ib is not None else P)
        gR = subst(A, lambda y: R if y == P else None)
        return subst(t, lambda y: gR if y == x else None)
    return t


def inline_image(t: Term, record: bool = True):
    """Is `t` an inline re-implementation of the minimum image  R - (mask (.) nearest(R H^-1)) H ?  The roles are read from
    the term (R: the difference of positions, H: a snapshot's hmatrix, mask: ppp) and the expression is decided with the
    frame-type system and the non-commutative algebra of the C02 check; on failure the extracted term is evaluated on concrete
    cells and masks to obtain a witness."""
    if t in INLINE_IMAGES:
        return INLINE_IMAGES[t]
    if not record and t in _PROBES:
        return _PROBES[t]
    from . import c02
    res = ("unknown", "no roles")
    t0 = t
    try:
        t = lift_transformed_difference(t)
    except Exception:  # noqa
        t = t0
    while t[0] == "sub" and t[2][0] in ("loopvar", "cvar"):
        t = t[1]            # one row of the imaged array picked by a loop variable: the array is what is decided
    try:
        def pos_atom(z):
            while True:
                if z[0] == "sub":
                    z = z[1]
                elif z[0] == "call" and z[1] in ("numpy.delete", "numpy.array", "numpy.asarray", ".copy") and z[2]:
                    z = z[2][0]
                else:
                    break
            return z[0] == "attr" and z[2] == "positions"
        def grid_atom(z):
            # a point of an explicitly allocated grid (gaussian blurring: grid point - particle positions)
            while z[0] == "sub":
                z = z[1]
            return z[0] == "call" and z[1] in ("numpy.zeros", "numpy.empty")
        diffs = []
        for x in walk(t):
            if x[0] == "bin" and x[1] == "-" and x not in diffs and \
                    ((pos_atom(x[2]) and pos_atom(x[3])) or (grid_atom(x[2]) and pos_atom(x[3])) or (pos_atom(x[2]) and grid_atom(x[3]))):
                diffs.append(x)
        if len(diffs) > 1:
            diffs = []          # several distinct displacement terms: roles ambiguous
        Hs_ = []
        for x in walk(t):
            if x[0] == "attr" and x[2] == "hmatrix" and x not in Hs_:
                Hs_.append(x)
        Ms_ = []
        for x in walk(t):
            if (x == ("sym", "ppp") or (x[0] == "attr" and x[2] == "ppp")) and x not in Ms_:
                Ms_.append(x)
        # a mask cut to the dimension (ppp[:ndim], ppp[:len(ngrids)]) is the mask
        sliced = [x for x in walk(t) if x[0] == "sub" and x[1] in Ms_ and x[2][0] == "slice"]
        if len(Ms_) == 1 and sliced and len(set(sliced)) == 1:
            Ms_ = [sliced[0]]
        uses_round = any(x[0] == "call" and x[1] in c02.NEAREST + tuple(c02.DIRECTED) for x in walk(t)) if hasattr(c02, "DIRECTED") else False
        Ls_ = []
        for x in walk(t):
            if x[0] == "attr" and x[2] == "boxlength" and x not in Ls_:
                Ls_.append(x)
        if len(diffs) == 1 and not Hs_ and len(Ls_) == 1 and uses_round:
            # a per-axis wrap with the box lengths: exact for orthogonal cells only
            M = Ms_[0] if Ms_ else ("sym", "<no-mask>")
            wit = c02.numeric_witness(t, diffs[0], ("sym", "<H>"), M, lengths=Ls_[0])
            if wit:
                res = ("bad", "displacements are wrapped axis by axis with the box lengths, which ignores the tilt of a triclinic cell; " + wit)
            else:
                res = ("unknown", "per-axis wrap with box lengths: no differing cell found")
        elif len(diffs) >= 1 and len(Hs_) == 1 and uses_round:
            R, H = diffs[0], Hs_[0]
            M = Ms_[0] if Ms_ else ("sym", "<no-mask>")
            try:
                r_, c_, tags = c02.frame_type(t, R, H, M, [])
                typed = (r_, c_) == ("Pt", "Cart") and "Nearest:Frac" in tags and not [x for x in tags if x.startswith("Directed")] and ("Masked" in tags or "Where" in tags)
                clash = None
            except c02.Clash as e:
                typed, clash = False, str(e)
            except c02.Unknown as e:
                typed, clash = None, None
            alg = None
            try:
                got = sp.expand(c02.nc(t, R, H, M))
                ref = c02.Rs - c02.Had(c02.Ms, c02.Rint(c02.Rs * c02.Hs ** -1)) * c02.Hs
                d = sp.expand(got - ref).subs(c02.Hs ** -1 * c02.Hs, 1)
                alg = sp.simplify(d) == 0
            except Exception:  # noqa
                alg = None
            if alg is True and typed is not False:
                res = ("ok", (R, H, M if Ms_ else None))
            else:
                wit = c02.numeric_witness(t, R, H, M, lengths=Ls_[0] if len(Ls_) == 1 else None)
                if wit:
                    res = ("bad", (clash + " ; " if clash else "") + wit)
                elif clash:
                    res = ("unknown", "frame-type clash without a numeric witness: " + clash)
                else:
                    res = ("unknown", "inline minimum image not reducible to R - (m (.) nearest(R H^-1)) H and no differing cell found")
    except Exception as e:  # noqa
        res = ("unknown", f"{type(e).__name__}: {e}")
    if record or res[0] == "ok":
        INLINE_IMAGES[t0] = res
    else:
        _PROBES[t0] = res
    return res


_IMG_CALLS = {"numpy.dot", "numpy.matmul", ".dot", "numpy.linalg.solve", "numpy.linalg.inv", "numpy.rint", "numpy.round", "numpy.around", "numpy.floor",
              "numpy.ceil", "numpy.trunc", "numpy.fix", "numpy.where", "numpy.transpose", ".transpose", "numpy.asarray", "numpy.array", ".copy", "numpy.abs",
              "numpy.sign", ".astype", "numpy.mod", "numpy.remainder", "numpy.fmod", "numpy.atleast_2d", ".reshape", "numpy.diag", "numpy.select"}


def image_grammar(x: Term) -> bool:
    """`x` is a function of coordinates, cell data, the periodicity mask and constants only, built from the operations an
    (inline) minimum image consists of - i.e. it could be a displacement vector in some frame, not yet a metric quantity."""
    k = x[0]
    if k in ("const", "mod", "builtin", "loopvar", "cvar", "slice"):
        return all(image_grammar(y) for y in x[1:] if isinstance(y, tuple) and y and isinstance(y[0], str)) if k == "slice" else True
    if k == "sym":
        # roots: a snapshot / instance / trajectory, the mask, a cell handed in as a parameter; any other parameter is foreign data
        return x[1] in ("ppp", "hmatrix", "boxlength", "snapshot", "snapshots", "self", "positions", "pos", "cell", "box") or x[1].startswith("snapshot")
    if k == "attr":
        return x[2] in ("positions", "hmatrix", "boxlength", "boxbounds", "T", "ppp", "shape", "nparticle", "ndim", "snapshots") and image_grammar(x[1])
    if k in ("sub", "elem"):
        z = x
        while z[0] in ("sub", "elem"):
            z = z[1]
        if z[0] == "call" and z[1] in ("numpy.zeros", "numpy.empty"):
            return True                 # a point of an explicitly allocated array (grid of the Gaussian blurring): an opaque coordinate
        return image_grammar(x[1])      # the index may be anything (neighbour tables, loop counters)
    if k == "bin":
        return x[1] in ("+", "-", "*", "/", "@", "%", "//") and image_grammar(x[2]) and image_grammar(x[3])
    if k == "un":
        return image_grammar(x[2])
    if k == "cmp":
        return image_grammar(x[2]) and image_grammar(x[3])
    if k in ("tuple", "list"):
        return all(image_grammar(y) for y in x[1])
    if k == "phi":
        return all(image_grammar(y) for y in x[1:])
    if k == "call":
        return isinstance(x[1], str) and x[1] in _IMG_CALLS and all(image_grammar(y) for y in x[2]) and all(image_grammar(v) for kk, v in x[3] if kk != "@")
    return False


def image_candidates(t: Term) -> List[Term]:
    """Sub-terms that contain a rounding of coordinates and are closed under the image grammar, outermost first.  Only an
    OUTERMOST candidate can be judged wrong: an inner one is an intermediate (e.g. the wrapped fractional vector) and differs
    from the Cartesian reference by construction."""
    ROUND = ("numpy.rint", "numpy.round", "numpy.around")
    cands = []

    def visit(x, inside):
        if not (isinstance(x, tuple) and x and isinstance(x[0], str)):
            if isinstance(x, tuple):
                for y in x:
                    visit(y, inside)
            return
        is_c = (not inside) and x[0] in ("bin", "call", "attr", "sub") and image_grammar(x) and \
            any(y[0] == "call" and y[1] in ROUND for y in walk(x)) and any(y[0] == "attr" and y[2] == "positions" for y in walk(x))
        if is_c:
            cands.append(x)
        for y in x[1:]:
            visit(y, inside or is_c)
    visit(t, False)
    return cands


def image_rows_witness(t: Term) -> Optional[str]:
    """Witness generator for an inline minimum image fed with pre-processed coordinates (wrapped / folded scaled coordinates): the
    candidate is evaluated on concrete frames whose particles lie partly outside the primary cell, for a fully periodic mask
    and for masks with one open axis.  Every returned row must be the minimum image of SOME pair of particles: a position
    difference up to whole cell vectors of periodic axes only, with periodic fractional components within [-1/2, 1/2].
    Returns a description of the first row that is not, or None (nothing found / not evaluable)."""
    import numpy as np
    from ..concrete import ev as cev
    pos_terms = sorted({x for x in walk(t) if x[0] == "attr" and x[2] == "positions"}, key=str)
    if len(pos_terms) != 1:
        return None
    cell_terms = sorted({x for x in walk(t) if x[0] == "attr" and x[2] in ("hmatrix", "boxlength")}, key=str)
    masks = [x for x in walk(t) if x == ("sym", "ppp") or (x[0] == "attr" and x[2] == "ppp")]
    if not masks:
        return None
    free = sorted({x for x in walk(t) if x[0] in ("loopvar", "cvar")}, key=str)
    rng = np.random.default_rng(11)
    for dim, Hm in ((3, np.diag([3.0, 4.0, 5.0])), (2, np.array([[3.0, 0.0], [1.2, 4.0]]))):
        P = rng.uniform(-0.9, 1.9, (6, dim)) @ Hm
        Hinv = np.linalg.inv(Hm)
        for open_axis in [None] + list(range(dim)):
            mask = np.ones(dim, dtype=int)
            if open_axis is not None:
                mask[open_axis] = 0
            env = {pos_terms[0]: P, masks[0]: mask}
            for c_ in cell_terms:
                env[c_] = Hm if c_[2] == "hmatrix" else np.diag(Hm).copy()
            for v in free:
                env[v] = 1
            # rows picked through a neighbour table / file: any set of other particles
            for x in walk(t):
                if x[0] == "sub" and x[2] not in env and any(y[0] == "call" and isinstance(y[1], str) and (y[1].startswith("PyMatterSim.") or y[1] == "builtins.open") for y in walk(x[2])):
                    env[x[2]] = np.array([0, 2, 3, 4, 5])
            try:
                got = np.atleast_2d(np.asarray(cev(t, env), dtype=float))
            except Exception:  # noqa
                return None
            if got.ndim != 2 or got.shape[1] != dim:
                return None
            for r, g in enumerate(got):
                ok = False
                fg = g @ Hinv
                for a in range(P.shape[0]):
                    for b in range(P.shape[0]):
                        f = (g - (P[a] - P[b])) @ Hinv
                        per = mask == 1
                        if np.all(np.abs(f[per] - np.rint(f[per])) < 1e-7) and np.all(np.abs(f[~per]) < 1e-7) and np.all(np.abs(fg[per]) <= 0.5 + 1e-7):
                            ok = True
                            break
                    if ok:
                        break
                if not ok:
                    return (f"cell {Hm.tolist()}, mask {mask.tolist()}, particles with fractional coordinates between -0.9 and 1.9: row {r} of the result, {np.round(g, 4).tolist()}, "
                            f"is not the minimum image of any pair of particles (it differs from every position difference by a shift along an open axis or a non-lattice vector, "
                            f"or lies outside the half cell)")
    return None


def find_inline_image(t: Term):
    """Search a value for an inline minimum-image expression (a sub-term containing a rounding call and one displacement)
    and decide it; the decisive verdict is recorded (and reported by the driver), probes are not."""
    t = _inline(t) if _PKG is not None else t
    outer = image_candidates(t)
    for c in outer:
        v = inline_image(c, record=False)
        if v[0] in ("ok", "bad"):
            INLINE_IMAGES[c] = v
            return v
        if v[0] == "unknown" and any(y[0] == "call" and isinstance(y[1], str) and y[1].split(".")[-1] in ("floor", "mod", "remainder", "fmod", "ceil", "trunc") for y in walk(c)):
            # coordinates pre-processed by a directed rounding (wrapped into the cell) before the image is taken
            w = image_rows_witness(c)
            if w:
                v = ("bad", "coordinates are folded into the cell before the minimum image; " + w)
                INLINE_IMAGES[c] = v
                return v
    # an inner sub-term may still be the complete image (followed by further coordinate algebra): only a positive verdict counts
    cands = [x for x in walk(t) if x[0] in ("bin", "call") and any(y[0] == "call" and y[1] in ("numpy.rint", "numpy.round", "numpy.around") for y in walk(x))
             and any(y[0] == "attr" and y[2] == "positions" for y in walk(x))]
    cands.sort(key=lambda x: len(show(x)))
    seen = set(outer)
    for c in cands:
        if c in seen:
            continue
        seen.add(c)
        v = inline_image(c, record=False)
        if v[0] == "ok":
            INLINE_IMAGES[c] = v
            return v
    return ("unknown", "no inline minimum image found")


# ------------------------------------------------------------------ pair loop recognition
def is_rowwise_norm(t: Term) -> Optional[Term]:
    """norm over the coordinate axis of an (n, d) array -> the array term."""
    if t[0] == "call" and isinstance(t[1], str) and _PKG is not None and t[1] in _PKG.functions:
        t = _inline(t)
    if t[0] == "call" and t[1] == "numpy.linalg.norm" and len(t[2]) == 1:
        ax = kw(t, "axis")
        if ax == C(1) or ax == C(-1):
            return t[2][0]
        return None
    if t[0] == "call" and t[1] in ("numpy.sqrt",) and len(t[2]) == 1:
        inner = t[2][0]
        if inner[0] == "call" and inner[1] in (".sum", "numpy.sum") and kw(inner, "axis", 1) in (C(1), C(-1)):
            sq = inner[2][0]
            if sq[0] == "call" and sq[1] == "numpy.square":
                return sq[2][0]
            if sq[0] == "bin" and sq[1] == "**" and sq[3] == C(2):
                return sq[2]
            if sq[0] == "bin" and sq[1] == "*" and sq[2] == sq[3]:
                return sq[2]
    return None


REMOVE_PBC = "PyMatterSim.utils.pbc.remove_pbc"


def pbc_args(t: Term) -> Optional[Tuple[Term, Term, Optional[Term]]]:
    if t[0] == "call" and t[1] == REMOVE_PBC:
        a = list(t[2])
        d = dict(t[3])
        names = ["RIJ", "hmatrix", "ppp"]
        full = [a[i] if i < len(a) else d.get(names[i]) for i in range(3)]
        if full[0] is None or full[1] is None:
            return None
        return full[0], full[1], full[2]
    # an inline (or helper) re-implementation of the minimum image, verified against the reference form
    if _PKG is not None and t[0] in ("bin", "call") and any(x[0] == "attr" and x[2] == "positions" for x in walk(t)):
        t2 = _inline(t)
        v = inline_image(t2)
        if v[0] == "ok":
            return v[1]
        if v[0] == "unknown" and image_grammar(t2) and any(y[0] == "call" and isinstance(y[1], str) and y[1].split(".")[-1] in ("floor", "mod", "remainder", "fmod", "ceil", "trunc")
                                                            for y in walk(t2)):
            # the whole distance argument is a coordinate expression that folds coordinates into the cell first
            w = image_rows_witness(t2)
            if w:
                INLINE_IMAGES[t2] = ("bad", "coordinates are folded into the cell before the minimum image; " + w)
    return None


def pair_difference(t: Term) -> Optional[Dict[str, Term]]:
    """positions[J] - positions[i]  (or the reverse) of one snapshot -> dict(snap, J, i, sign)."""
    if t[0] == "bin" and t[1] == "-":
        a, b = t[2], t[3]

        def pos(x):
            # snapshot.positions[idx]  possibly followed by [np.newaxis, :]
            if x[0] == "sub" and x[2][0] == "tuple" and any(e == ("mod", "numpy.newaxis") or e == NONE for e in x[2][1]):
                x = x[1]
            if x[0] == "sub" and x[1][0] == "attr" and x[1][2] == "positions":
                return x[1][1], x[2]
            if x[0] == "attr" and x[2] == "positions":
                return x[1], ("slice", NONE, NONE, NONE)
            return None
        pa, pb = pos(a), pos(b)
        if pa and pb and pa[0] == pb[0]:
            return {"snap": pa[0], "left": pa[1], "right": pb[1]}
    return None


def index_kind(idx: Term, loopvar: Term) -> str:
    """Classify an index applied to the particle axis relative to loop variable i."""
    if idx == loopvar:
        return "i"
    if idx[0] == "slice" and idx[2] == NONE and idx[3] == NONE:
        lo = idx[1]
        if lo == ("bin", "+", loopvar, C(1)) or lo == ("bin", "+", C(1), loopvar):
            return "after_i"
        if lo == NONE:
            return "all"
    return "other:" + show(idx)


# ------------------------------------------------------------------ finite evaluation of pair-type selectors
class TV:
    """A type id carrying its integer kind: 'u' (unsigned, arithmetic wraps modulo 2**32 - HOOMD/GSD type ids are uint32) or
    's' (signed).  Python int constants stay plain ints (numpy treats them as weak scalars: the array's kind wins)."""
    __slots__ = ("v", "k")
    M = 2 ** 32

    def __init__(self, v, k):
        self.k = k
        self.v = v % self.M if k == "u" else v

    @staticmethod
    def _split(o):
        return (o.v, o.k) if isinstance(o, TV) else (o, None)

    def _bin(self, o, f, swap=False):
        b, kb = self._split(o)
        if isinstance(b, (float, bool)) and not isinstance(b, bool) and kb is None:
            return f(b, self.v) if swap else f(self.v, b)
        kind = "s" if "s" in (self.k, kb) else "u"
        return TV(f(b, self.v) if swap else f(self.v, b), kind)

    def __add__(self, o): return self._bin(o, lambda a, b: a + b)
    def __radd__(self, o): return self._bin(o, lambda a, b: a + b, True)
    def __sub__(self, o): return self._bin(o, lambda a, b: a - b)
    def __rsub__(self, o): return self._bin(o, lambda a, b: a - b, True)
    def __mul__(self, o): return self._bin(o, lambda a, b: a * b)
    def __rmul__(self, o): return self._bin(o, lambda a, b: a * b, True)
    def __neg__(self): return TV(-self.v, self.k)
    def __abs__(self): return TV(abs(self.v), self.k)
    def __eq__(self, o): return self.v == self._split(o)[0]
    def __ne__(self, o): return self.v != self._split(o)[0]
    def __lt__(self, o): return self.v < self._split(o)[0]
    def __le__(self, o): return self.v <= self._split(o)[0]
    def __gt__(self, o): return self.v > self._split(o)[0]
    def __ge__(self, o): return self.v >= self._split(o)[0]
    def __hash__(self): return hash(self.v)
    def __bool__(self): return bool(self.v)
    def __repr__(self): return f"{self.v}{self.k}"


SIGNED_DTYPES = ("int", "int8", "int16", "int32", "int64", "intp", "float", "float32", "float64", "longlong", "int_")


def _astype_kind(t: Term) -> Optional[str]:
    """'s' / 'u' / None for the dtype argument of an astype-like call"""
    args = list(t[2][1:]) + [v for k_, v in (t[3] if len(t) > 3 else ())]
    for a in args:
        txt = show(a)
        name = txt.split(".")[-1].strip("'\"")
        if name.startswith("uint") or name in ("ubyte", "ushort", "uintc", "ulonglong"):
            return "u"
        if name in SIGNED_DTYPES:
            return "s"
    return None


def eval_pair(t: Term, ta: int, tb: int, type_of, loopvar: Term) -> Any:
    """Concrete value of a selector term for one pair: centre i of species ta, neighbour j of species tb.
    `type_of(term)` returns 'i' / 'j' / None for particle_type reads.  ta / tb may be TV values (unsigned ids)."""
    k = t[0]
    if k == "weights01":
        # histogram weights used as a selection: they must be exactly 0 / 1 (or truth values) for the pair
        v = eval_pair(t[1], ta, tb, type_of, loopvar)
        if isinstance(v, bool) or v in (0, 1):
            return bool(v)
        raise Undecidable(f"histogram weight {v!r} is not a 0/1 selection")
    who = type_of(t)
    if who == "i":
        return ta
    if who == "j":
        return tb
    if k == "const":
        if isinstance(t[1], (int, float, bool)):
            return t[1]
        raise Undecidable(f"constant {t[1]!r}")
    if k == "sub":
        base, idx = t[1], t[2]
        if base == ("mod", "numpy.c_") or base == ("mod", "numpy.r_"):
            if idx[0] == "tuple":
                return ("cols", tuple(eval_pair(x, ta, tb, type_of, loopvar) for x in idx[1]))
            raise Undecidable("np.c_ with one operand")
        v = eval_pair(base, ta, tb, type_of, loopvar)
        if isinstance(v, tuple) and v and v[0] == "cols":
            if idx[0] == "tuple" and len(idx[1]) == 2 and idx[1][0] == ("slice", NONE, NONE, NONE) and is_const(idx[1][1]):
                return v[1][idx[1][1][1]]
            raise Undecidable(f"column subscript {show(idx)}")
        raise Undecidable(f"subscript {show(t)[:80]}")
    if k == "call":
        f = t[1]
        if f in ("numpy.zeros_like", "numpy.zeros"):
            return 0
        if f in ("numpy.ones_like",):
            return 1
        if f in ("numpy.abs", "numpy.absolute", "builtins.abs", "numpy.fabs") and len(t[2]) == 1:
            return abs(eval_pair(t[2][0], ta, tb, type_of, loopvar))
        if f in (".sum", ".max", ".min") and len(t[2]) == 1:
            v = eval_pair(t[2][0], ta, tb, type_of, loopvar)
            if isinstance(v, tuple) and v[0] == "cols" and kw(t, "axis", 1) in (C(1), C(-1)):
                return {".sum": sum, ".max": max, ".min": min}[f](v[1])
            raise Undecidable(f"{f} of non-column operand")
        if f in ("numpy.minimum", "numpy.maximum") and len(t[2]) == 2:
            a, b = (eval_pair(x, ta, tb, type_of, loopvar) for x in t[2])
            return min(a, b) if f.endswith("minimum") else max(a, b)
        if f in ("numpy.column_stack", "numpy.stack") and t[2] and t[2][0][0] in ("tuple", "list"):
            return ("cols", tuple(eval_pair(x, ta, tb, type_of, loopvar) for x in t[2][0][1]))
        if f in ("numpy.logical_and", "numpy.logical_or") and len(t[2]) == 2:
            a, b = (bool(eval_pair(x, ta, tb, type_of, loopvar)) for x in t[2])
            return (a and b) if f.endswith("and") else (a or b)
        if f == "numpy.logical_not" and len(t[2]) == 1:
            return not eval_pair(t[2][0], ta, tb, type_of, loopvar)
        if f in (".astype",) and t[2]:
            v = eval_pair(t[2][0], ta, tb, type_of, loopvar)
            kd = _astype_kind(t)
            if kd and isinstance(v, TV):
                return TV(v.v, kd)
            if kd and isinstance(v, tuple) and v and v[0] == "cols":
                return ("cols", tuple(TV(x.v, kd) if isinstance(x, TV) else x for x in v[1]))
            return v
        raise Undecidable(f"call {show(t)[:80]}")
    if k == "bin":
        a = eval_pair(t[2], ta, tb, type_of, loopvar)
        b = eval_pair(t[3], ta, tb, type_of, loopvar)
        op = t[1]
        if isinstance(a, tuple) or isinstance(b, tuple):
            raise Undecidable("arithmetic on column pair")
        if op == "+":
            return a + b
        if op == "-":
            return a - b
        if op == "*":
            return a * b
        if op == "&":
            return bool(a) and bool(b)
        if op == "|":
            return bool(a) or bool(b)
        if op == "^":
            return bool(a) != bool(b)
        raise Undecidable(f"operator {op}")
    if k == "un":
        a = eval_pair(t[2], ta, tb, type_of, loopvar)
        if t[1] in ("~", "not"):
            return not bool(a)
        if t[1] == "-":
            return -a
    if k == "cmp":
        a = eval_pair(t[2], ta, tb, type_of, loopvar)
        b = eval_pair(t[3], ta, tb, type_of, loopvar)
        return {"==": a == b, "!=": a != b, "<": a < b, "<=": a <= b, ">": a > b, ">=": a >= b}[t[1]]
    if k == "bool":
        vals = [bool(eval_pair(x, ta, tb, type_of, loopvar)) for x in t[2]]
        return all(vals) if t[1] == "and" else any(vals)
    raise Undecidable(f"term {show(t)[:80]}")


class Misaligned(Exception):
    pass


def eval_int(t: Term, env: Dict[Term, int]) -> int:
    if t in env:
        return env[t]
    if is_const(t) and isinstance(t[1], int) and not isinstance(t[1], bool):
        return t[1]
    if t[0] == "bin" and t[1] in ("+", "-", "*", "//"):
        a, b = eval_int(t[2], env), eval_int(t[3], env)
        return {"+": a + b, "-": a - b, "*": a * b, "//": a // b if b else 0}[t[1]]
    if t[0] == "un" and t[1] == "-":
        return -eval_int(t[2], env)
    raise Undecidable(f"index expression {show(t)[:60]}")


def index_set(idx: Term, env: Dict[Term, int], n: int) -> Tuple[int, ...]:
    """Concrete particle indices selected by a subscript of the particle axis (length n)."""
    if idx[0] == "slice":
        parts = [None if x == NONE else eval_int(x, env) for x in idx[1:]]
        return tuple(range(n)[slice(*parts)])
    k = eval_int(idx, env)
    return (k % n,) if -n <= k < n else ()


def classify_index(idx: Term, loopvar: Term) -> str:
    """'i' / 'j' (= all particles after i) decided on the index sets for n = 6 and every i; else Misaligned."""
    kind = index_kind(idx, loopvar)
    if kind == "i":
        return "i"
    if kind == "after_i":
        return "j"
    n = 6
    same_i, same_j = True, True
    wit = None
    for i in range(n - 1):
        got = index_set(idx, {loopvar: i}, n)
        if got != (i,):
            same_i = False
        if got != tuple(range(i + 1, n)):
            same_j = False
            wit = wit or f"N={n}, i={i}: selects particles {list(got)} but the distances belong to {list(range(i + 1, n))}"
    if same_i:
        return "i"
    if same_j:
        return "j"
    raise Misaligned(wit or "index set differs")


def make_type_of(snap: Term, loopvar: Term, also=()):
    """particle_type reads of the pair loop: snapshot.particle_type[i] -> 'i', [i+1:] -> 'j'.
    `also`: other type arrays to be read the same way (reported separately by the caller as a wrong source)."""
    def type_of(t: Term) -> Optional[str]:
        if t[0] == "sub" and (t[1] == ("attr", snap, "particle_type") or t[1] in also):
            return classify_index(t[2], loopvar)
        return None
    return type_of


# ------------------------------------------------------------------ histogram call description
def hist_info(call: Term, weights_as_mask: bool = False) -> Dict[str, Any]:
    """np.histogram(data[, mask], bins=, range=, weights=).  weights_as_mask: a 0/1 weight array is a selection (the caller
    must check that it evaluates to a truth value or to 0/1 for every pair)."""
    if call[0] != "call" or call[1] != "numpy.histogram":
        raise Undecidable("not a histogram call")
    data = call[2][0] if call[2] else kw(call, "a")
    mask = None
    if data is not None and data[0] == "sub" and data[2][0] not in ("slice", "const"):
        mask = data[2]
        data = data[1]
    elif data is not None and data[0] == "call" and data[1] in ("numpy.compress", "numpy.extract") and len(data[2]) == 2:
        mask, data = data[2][0], data[2][1]
    weights = kw(call, "weights", 4)
    if weights_as_mask and weights is not None and mask is None:
        mask, weights = ("weights01", weights), None
    return {"data": data, "mask": mask, "bins": kw(call, "bins", 1), "range": kw(call, "range", 2),
            "weights": weights}


NON_WRAPPING = {"numpy.arccos", "numpy.arctan2", "numpy.arctan", "numpy.linalg.norm", "numpy.sqrt", "numpy.sum", ".sum", "numpy.square",
                "numpy.abs", "numpy.cos", "numpy.sin", "numpy.exp", "numpy.power", "numpy.dot", "numpy.array", "numpy.asarray", ".copy",
                "numpy.delete", "numpy.einsum", "numpy.hypot", "numpy.angle", ".astype", "numpy.newaxis", "numpy.arange", "builtins.range",
                "builtins.len", "builtins.int", "builtins.float", "PyMatterSim.neighbors.read_neighbors.read_neighbors",
                "builtins.open"}


def no_wrap_possible(t: Term) -> bool:
    """Every operation in the value is one that cannot fold a displacement back into the cell (no rounding, floor, modulo,
    comparison/selection, and no call outside a table of plain element-wise / reduction functions): a raw position
    difference flowing through such a value is definitely not a minimum-image vector."""
    for x in walk(t):
        if x[0] == "call":
            if not isinstance(x[1], str) or x[1] not in NON_WRAPPING:
                return False
        elif x[0] == "bin" and x[1] in ("%", "//"):
            return False
        elif x[0] in ("cmp", "phi", "mu", "comp", "bool"):
            return False
    return True

