"""Shared analysis of the pair-correlation family (gr.* methods, conditional_gr)."""
from __future__ import annotations

from typing import Any, Dict, List, Optional, Tuple

import sympy as sp

from .common import *  # noqa


class Undecidable(Exception):
    pass


# ------------------------------------------------------------------ pair loop recognition
def is_rowwise_norm(t: Term) -> Optional[Term]:
    """norm over the coordinate axis of an (n, d) array -> the array term."""
    if t[0] == "call" and t[1] == "numpy.linalg.norm" and len(t[2]) == 1:
        ax = kw(t, "axis")
        if ax == C(1) or ax == C(-1):
            return t[2][0]
        return None
    if t[0] == "call" and t[1] in ("numpy.sqrt",) and len(t[2]) == 1:
        inner = t[2][0]
        if inner[0] == "call" and inner[1] == ".sum" and kw(inner, "axis", 1) in (C(1), C(-1)):
            sq = inner[2][0]
            if sq[0] == "call" and sq[1] == "numpy.square":
                return sq[2][0]
            if sq[0] == "bin" and sq[1] == "**" and sq[3] == C(2):
                return sq[2]
            if sq[0] == "bin" and sq[1] == "*" and sq[2] == sq[3]:
                return sq[2]
    return None


REMOVE_PBC = "PyMatterSim.utils.pbc.remove_pbc"


def pbc_args(t: Term) -> Optional[Tuple[Term, Term, Optional[Term]]]:
    if t[0] == "call" and t[1] == REMOVE_PBC:
        a = list(t[2])
        d = dict(t[3])
        names = ["RIJ", "hmatrix", "ppp"]
        full = [a[i] if i < len(a) else d.get(names[i]) for i in range(3)]
        if full[0] is None or full[1] is None:
            return None
        return full[0], full[1], full[2]
    return None


def pair_difference(t: Term) -> Optional[Dict[str, Term]]:
    """positions[J] - positions[i]  (or the reverse) of one snapshot -> dict(snap, J, i, sign)."""
    if t[0] == "bin" and t[1] == "-":
        a, b = t[2], t[3]

        def pos(x):
            # snapshot.positions[idx]  possibly followed by [np.newaxis, :]
            if x[0] == "sub" and x[2][0] == "tuple" and any(e == ("mod", "numpy.newaxis") or e == NONE for e in x[2][1]):
                x = x[1]
            if x[0] == "sub" and x[1][0] == "attr" and x[1][2] == "positions":
                return x[1][1], x[2]
            if x[0] == "attr" and x[2] == "positions":
                return x[1], ("slice", NONE, NONE, NONE)
            return None
        pa, pb = pos(a), pos(b)
        if pa and pb and pa[0] == pb[0]:
            return {"snap": pa[0], "left": pa[1], "right": pb[1]}
    return None


def index_kind(idx: Term, loopvar: Term) -> str:
    """Classify an index applied to the particle axis relative to loop variable i."""
    if idx == loopvar:
        return "i"
    if idx[0] == "slice" and idx[2] == NONE and idx[3] == NONE:
        lo = idx[1]
        if lo == ("bin", "+", loopvar, C(1)) or lo == ("bin", "+", C(1), loopvar):
            return "after_i"
        if lo == NONE:
            return "all"
    return "other:" + show(idx)


# ------------------------------------------------------------------ finite evaluation of pair-type selectors
def eval_pair(t: Term, ta: int, tb: int, type_of, loopvar: Term) -> Any:
    """Concrete value of a selector term for one pair: centre i of species ta, neighbour j of species tb.
    `type_of(term)` returns 'i' / 'j' / None for particle_type reads."""
    k = t[0]
    who = type_of(t)
    if who == "i":
        return ta
    if who == "j":
        return tb
    if k == "const":
        if isinstance(t[1], (int, float, bool)):
            return t[1]
        raise Undecidable(f"constant {t[1]!r}")
    if k == "sub":
        base, idx = t[1], t[2]
        if base == ("mod", "numpy.c_") or base == ("mod", "numpy.r_"):
            if idx[0] == "tuple":
                return ("cols", tuple(eval_pair(x, ta, tb, type_of, loopvar) for x in idx[1]))
            raise Undecidable("np.c_ with one operand")
        v = eval_pair(base, ta, tb, type_of, loopvar)
        if isinstance(v, tuple) and v and v[0] == "cols":
            if idx[0] == "tuple" and len(idx[1]) == 2 and idx[1][0] == ("slice", NONE, NONE, NONE) and is_const(idx[1][1]):
                return v[1][idx[1][1][1]]
            raise Undecidable(f"column subscript {show(idx)}")
        raise Undecidable(f"subscript {show(t)[:80]}")
    if k == "call":
        f = t[1]
        if f in ("numpy.zeros_like", "numpy.zeros"):
            return 0
        if f in ("numpy.ones_like",):
            return 1
        if f in ("numpy.abs", "numpy.absolute", "builtins.abs", "numpy.fabs") and len(t[2]) == 1:
            return abs(eval_pair(t[2][0], ta, tb, type_of, loopvar))
        if f in (".sum", ".max", ".min") and len(t[2]) == 1:
            v = eval_pair(t[2][0], ta, tb, type_of, loopvar)
            if isinstance(v, tuple) and v[0] == "cols" and kw(t, "axis", 1) in (C(1), C(-1)):
                return {".sum": sum, ".max": max, ".min": min}[f](v[1])
            raise Undecidable(f"{f} of non-column operand")
        if f in ("numpy.minimum", "numpy.maximum") and len(t[2]) == 2:
            a, b = (eval_pair(x, ta, tb, type_of, loopvar) for x in t[2])
            return min(a, b) if f.endswith("minimum") else max(a, b)
        if f in ("numpy.column_stack", "numpy.stack") and t[2] and t[2][0][0] in ("tuple", "list"):
            return ("cols", tuple(eval_pair(x, ta, tb, type_of, loopvar) for x in t[2][0][1]))
        if f in ("numpy.logical_and", "numpy.logical_or") and len(t[2]) == 2:
            a, b = (bool(eval_pair(x, ta, tb, type_of, loopvar)) for x in t[2])
            return (a and b) if f.endswith("and") else (a or b)
        if f == "numpy.logical_not" and len(t[2]) == 1:
            return not eval_pair(t[2][0], ta, tb, type_of, loopvar)
        if f in (".astype",) and t[2]:
            return eval_pair(t[2][0], ta, tb, type_of, loopvar)
        raise Undecidable(f"call {show(t)[:80]}")
    if k == "bin":
        a = eval_pair(t[2], ta, tb, type_of, loopvar)
        b = eval_pair(t[3], ta, tb, type_of, loopvar)
        op = t[1]
        if isinstance(a, tuple) or isinstance(b, tuple):
            raise Undecidable("arithmetic on column pair")
        if op == "+":
            return a + b
        if op == "-":
            return a - b
        if op == "*":
            return a * b
        if op == "&":
            return bool(a) and bool(b)
        if op == "|":
            return bool(a) or bool(b)
        if op == "^":
            return bool(a) != bool(b)
        raise Undecidable(f"operator {op}")
    if k == "un":
        a = eval_pair(t[2], ta, tb, type_of, loopvar)
        if t[1] in ("~", "not"):
            return not bool(a)
        if t[1] == "-":
            return -a
    if k == "cmp":
        a = eval_pair(t[2], ta, tb, type_of, loopvar)
        b = eval_pair(t[3], ta, tb, type_of, loopvar)
        return {"==": a == b, "!=": a != b, "<": a < b, "<=": a <= b, ">": a > b, ">=": a >= b}[t[1]]
    if k == "bool":
        vals = [bool(eval_pair(x, ta, tb, type_of, loopvar)) for x in t[2]]
        return all(vals) if t[1] == "and" else any(vals)
    raise Undecidable(f"term {show(t)[:80]}")


class Misaligned(Exception):
    pass


def eval_int(t: Term, env: Dict[Term, int]) -> int:
    if t in env:
        return env[t]
    if is_const(t) and isinstance(t[1], int) and not isinstance(t[1], bool):
        return t[1]
    if t[0] == "bin" and t[1] in ("+", "-", "*", "//"):
        a, b = eval_int(t[2], env), eval_int(t[3], env)
        return {"+": a + b, "-": a - b, "*": a * b, "//": a // b if b else 0}[t[1]]
    if t[0] == "un" and t[1] == "-":
        return -eval_int(t[2], env)
    raise Undecidable(f"index expression {show(t)[:60]}")


def index_set(idx: Term, env: Dict[Term, int], n: int) -> Tuple[int, ...]:
    """Concrete particle indices selected by a subscript of the particle axis (length n)."""
    if idx[0] == "slice":
        parts = [None if x == NONE else eval_int(x, env) for x in idx[1:]]
        return tuple(range(n)[slice(*parts)])
    k = eval_int(idx, env)
    return (k % n,) if -n <= k < n else ()


def classify_index(idx: Term, loopvar: Term) -> str:
    """'i' / 'j' (= all particles after i) decided on the index sets for n = 6 and every i; else Misaligned."""
    kind = index_kind(idx, loopvar)
    if kind == "i":
        return "i"
    if kind == "after_i":
        return "j"
    n = 6
    same_i, same_j = True, True
    wit = None
    for i in range(n - 1):
        got = index_set(idx, {loopvar: i}, n)
        if got != (i,):
            same_i = False
        if got != tuple(range(i + 1, n)):
            same_j = False
            wit = wit or f"N={n}, i={i}: selects particles {list(got)} but the distances belong to {list(range(i + 1, n))}"
    if same_i:
        return "i"
    if same_j:
        return "j"
    raise Misaligned(wit or "index set differs")


def make_type_of(snap: Term, loopvar: Term, also=()):
    """particle_type reads of the pair loop: snapshot.particle_type[i] -> 'i', [i+1:] -> 'j'.
    `also`: other type arrays to be read the same way (reported separately by the caller as a wrong source)."""
    def type_of(t: Term) -> Optional[str]:
        if t[0] == "sub" and (t[1] == ("attr", snap, "particle_type") or t[1] in also):
            return classify_index(t[2], loopvar)
        return None
    return type_of


# ------------------------------------------------------------------ histogram call description
def hist_info(call: Term) -> Dict[str, Any]:
    """np.histogram(data[, mask], bins=, range=, weights=)"""
    if call[0] != "call" or call[1] != "numpy.histogram":
        raise Undecidable("not a histogram call")
    data = call[2][0] if call[2] else kw(call, "a")
    mask = None
    if data is not None and data[0] == "sub" and data[2][0] not in ("slice", "const"):
        mask = data[2]
        data = data[1]
    return {"data": data, "mask": mask, "bins": kw(call, "bins", 1), "range": kw(call, "range", 2),
            "weights": kw(call, "weights", 4)}
