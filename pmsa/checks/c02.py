"""C02 - minimum-image displacements: lattice translations only, into the half-cell.

R-FRAME  coordinate-frame typing of remove_pbc's return term (row vectors): R:(Pt,Cart), H:(Frac,Cart) (rows are cell
         vectors), inv/T swap, dot needs equal inner sorts, element-wise ops need equal column sorts, the mask acts on
         fractional components, rounding is to nearest (not directed).
R-ALG    the return term equals R - (mask (.) nearest(R H^-1)) H in non-commutative algebra (so the result differs from the
         input by an integer combination of the periodic cell vectors and the fractional part is nearest-rounded).
         On failure the extracted term is evaluated on concrete small matrices to produce a witness.
R-PBC    all call sites pass (displacement of positions, cell of a snapshot that supplied one of them, a mask).
"""
from __future__ import annotations

import numpy as np
import sympy as sp

from .common import *  # noqa

FN = "utils.pbc.remove_pbc"
DOTS = ("numpy.dot", "numpy.matmul", ".dot")
NEAREST = ("numpy.rint", "numpy.round", "numpy.around", "numpy.round_", ".round")
DIRECTED = ("numpy.floor", "numpy.ceil", "numpy.trunc", "numpy.fix", "numpy.floor_divide")


class Clash(Exception):
    pass


class Unknown(Exception):
    pass


def frame_type(t, R, H, M, notes):
    """(row sort, col sort, tags) of a term; raises Clash with a description."""
    if t == R:
        return ("Pt", "Cart", frozenset())
    if t == H:
        return ("Frac", "Cart", frozenset())
    k = t[0]
    if is_mask(t, M):
        if mask_is_column(t):
            return ("Mask", "1", frozenset())       # mask[:, np.newaxis]: one factor per ROW of the other operand
        return ("1", "Mask", frozenset())
    if k == "call":
        f, a = t[1], t[2]
        if f in ("numpy.linalg.inv", "numpy.linalg.pinv") and len(a) == 1:
            r, c, tg = frame_type(a[0], R, H, M, notes)
            return (c, r, tg)
        if f in ("numpy.transpose", ".transpose") and len(a) == 1:
            r, c, tg = frame_type(a[0], R, H, M, notes)
            return (c, r, tg)
        if f in DOTS and len(a) == 2:
            r1, c1, t1 = frame_type(a[0], R, H, M, notes)
            r2, c2, t2 = frame_type(a[1], R, H, M, notes)
            if c1 != r2:
                raise Clash(f"matrix product {show(t)[:90]} contracts {c1} components with {r2} rows")
            return (r1, c2, t1 | t2)
        if f == "numpy.linalg.solve" and len(a) == 2:
            # solve(A:(a,b), B:(a,c)) -> (b,c)
            r1, c1, t1 = frame_type(a[0], R, H, M, notes)
            r2, c2, t2 = frame_type(a[1], R, H, M, notes)
            if r1 != r2:
                raise Clash(f"solve {show(t)[:80]}: system rows {r1} vs right-hand side rows {r2}")
            return (c1, c2, t1 | t2)
        if f in NEAREST and a:
            r, c, tg = frame_type(a[0], R, H, M, notes)
            return (r, c, tg | {"Nearest:" + (r if c == "Pt" else c)})      # column form: components are the rows
        if f in DIRECTED and a:
            r, c, tg = frame_type(a[0], R, H, M, notes)
            return (r, c, tg | {"Directed:" + (r if c == "Pt" else c)})
        if f == ".astype" and a:
            r, c, tg = frame_type(a[0], R, H, M, notes)
            if len(a) > 1 and "int" in show(a[1]):
                return (r, c, tg | {"Directed:" + c})
            return (r, c, tg)
        if f in ("numpy.array", "numpy.asarray", "numpy.atleast_2d", ".copy") and a:
            return frame_type(a[0], R, H, M, notes)
        if f == "numpy.where" and len(a) == 3:
            r1, c1, t1 = frame_type(a[1], R, H, M, notes)
            r2, c2, t2 = frame_type(a[2], R, H, M, notes)
            if c1 != c2:
                raise Clash(f"np.where mixes {c1} and {c2} components")
            return (r1, c1, t1 | t2 | {"Where"})
        raise Unknown(f"call {show(t)[:70]}")
    if k == "attr" and t[2] == "T":
        r, c, tg = frame_type(t[1], R, H, M, notes)
        return (c, r, tg)
    if k == "bin":
        op = t[1]
        if op == "@":
            return frame_type(("call", "numpy.dot", (t[2], t[3]), ()), R, H, M, notes)
        if op in ("+", "-", "*", "/"):
            r1, c1, t1 = frame_type(t[2], R, H, M, notes)
            r2, c2, t2 = frame_type(t[3], R, H, M, notes)
            if r1 == "Mask" or r2 == "Mask":
                # column-oriented mask: acts on the rows of the other operand, which must be fractional components
                orow, ocol, otg = (r2, c2, t2) if r1 == "Mask" else (r1, c1, t1)
                if op != "*":
                    raise Clash(f"mask combined with {op} in {show(t)[:80]}")
                if orow != "Frac":
                    raise Clash(f"periodicity mask multiplies {orow} rows in {show(t)[:90]}: it must act on fractional coordinates")
                return (orow, ocol, t1 | t2 | {"Masked"})
            if c1 == "Mask" or c2 == "Mask":
                other = c2 if c1 == "Mask" else c1
                if op != "*":
                    raise Clash(f"mask combined with {op} in {show(t)[:80]}")
                if other != "Frac":
                    raise Clash(f"periodicity mask multiplies {other} components in {show(t)[:90]}: it must act on fractional coordinates")
                rr = r2 if c1 == "Mask" else r1
                return (rr, other, t1 | t2 | {"Masked"})
            if c1 != c2:
                raise Clash(f"element-wise {op} of {c1} and {c2} components in {show(t)[:90]}")
            return (r1 if r1 != "1" else r2, c1, t1 | t2)
        raise Unknown(f"operator {op}")
    if k == "un" and t[1] == "-":
        return frame_type(t[2], R, H, M, notes)
    if k == "const":
        raise Unknown("constant operand")
    raise Unknown(f"term {show(t)[:70]}")


def is_mask(t, M):
    """ppp, np.array(ppp), np.array(ppp)[np.newaxis, :] ..."""
    if t == M:
        return True
    if t[0] == "call" and t[1] in ("numpy.array", "numpy.asarray", "numpy.atleast_2d") and t[2]:
        return is_mask(t[2][0], M)
    if t[0] == "sub" and t[2][0] == "tuple" and all(x == ("mod", "numpy.newaxis") or x == NONE or x == ("slice", NONE, NONE, NONE) for x in t[2][1]):
        return is_mask(t[1], M)
    if t[0] == "call" and t[1] == ".reshape" and t[2]:
        return is_mask(t[2][0], M)
    return False


def mask_is_column(t):
    """mask[:, np.newaxis] / mask.reshape(-1, 1): a column (one entry per row of the operand it multiplies)"""
    if t[0] == "sub" and t[2][0] == "tuple" and len(t[2][1]) == 2:
        a, b = t[2][1]
        if a == ("slice", NONE, NONE, NONE) and (b == ("mod", "numpy.newaxis") or b == NONE):
            return True
        return False
    if t[0] == "call" and t[1] == ".reshape" and len(t[2]) >= 2:
        dims = t[2][1:] if len(t[2]) > 2 else (t[2][1][1] if t[2][1][0] == "tuple" else (t[2][1],))
        return len(dims) == 2 and dims[1] == ("const", 1)
    if t[0] == "call" and t[1] in ("numpy.array", "numpy.asarray", "numpy.atleast_2d") and t[2]:
        return mask_is_column(t[2][0])
    return False


# ---- non-commutative algebra
Rs, Hs = sp.symbols("R H", commutative=False)
Ms = sp.Symbol("m", commutative=False)
Rint = sp.Function("Nearest", commutative=False)
Had = sp.Function("Had", commutative=False)      # Had(m, X): mask (.) X


HsT = sp.Symbol("Ht", commutative=False)      # the transposed cell matrix where a transpose could not be cancelled
RsT = sp.Symbol("Rt", commutative=False)


def nc(t, R, H, M, tr=False):
    """Non-commutative expression of `t` (tr=False) or of its transpose (tr=True); transposes are pushed down to the leaves:
    (AB)^T = B^T A^T, (A^-1)^T = (A^T)^-1, solve(A, B) = A^-1 B, element-wise operations commute with the transpose."""
    if t == R:
        return RsT if tr else Rs
    if t == H:
        return HsT if tr else Hs
    if is_mask(t, M):
        return Ms
    k = t[0]
    if k == "attr" and t[2] == "T":
        return nc(t[1], R, H, M, not tr)
    if k == "call":
        f, a = t[1], t[2]
        if f in ("numpy.transpose", ".transpose") and len(a) == 1:
            return nc(a[0], R, H, M, not tr)
        if f in ("numpy.linalg.inv",) and len(a) == 1:
            return nc(a[0], R, H, M, tr) ** -1
        if f in DOTS and len(a) == 2:
            if tr:
                return nc(a[1], R, H, M, True) * nc(a[0], R, H, M, True)
            return nc(a[0], R, H, M) * nc(a[1], R, H, M)
        if f == "numpy.linalg.solve" and len(a) == 2:
            if tr:
                return nc(a[1], R, H, M, True) * nc(a[0], R, H, M, True) ** -1
            return nc(a[0], R, H, M) ** -1 * nc(a[1], R, H, M)
        if f in NEAREST and a:
            x = nc(a[0], R, H, M, tr)
            return push_mask(Rint(x))
        if f in DIRECTED and a:
            return sp.Function(f.split(".")[-1], commutative=False)(nc(a[0], R, H, M, tr))
        if f in ("numpy.array", "numpy.asarray", ".copy") and a:
            return nc(a[0], R, H, M, tr)
        raise Unknown(f"call {show(t)[:60]}")
    if k == "bin":
        op = t[1]
        if op == "@":
            if tr:
                return nc(t[3], R, H, M, True) * nc(t[2], R, H, M, True)
            return nc(t[2], R, H, M) * nc(t[3], R, H, M)
        a, b = nc(t[2], R, H, M, tr), nc(t[3], R, H, M, tr)
        if op == "+":
            return a + b
        if op == "-":
            return a - b
        if op == "*":
            if a == Ms:
                return Had(Ms, b)
            if b == Ms:
                return Had(Ms, a)
            raise Unknown("element-wise product of two matrices")
        raise Unknown(f"operator {op}")
    if k == "un" and t[1] == "-":
        return -nc(t[2], R, H, M, tr)
    raise Unknown(f"term {show(t)[:60]}")


def push_mask(e):
    # Nearest(Had(m, X)) = Had(m, Nearest(X)) for 0/1 masks
    if e.func == Rint and e.args[0].func == Had:
        return Had(e.args[0].args[0], Rint(e.args[0].args[1]))
    return e


def had_linear(e):
    """Distribute Had over sums so that A - Had(m, N(A)) style expressions normalise."""
    e = sp.expand(e)
    return e


# ---- concrete evaluation of the extracted term (witness only)
def eval_np(t, env):
    if t in env:
        return env[t]
    k = t[0]
    if k == "const":
        return t[1]
    if k == "mod" and t[1] == "numpy.newaxis":
        return None
    if k == "call":
        f, a = t[1], t[2]
        if f == ".astype" and a:
            v0 = eval_np(a[0], env)
            return v0.astype(int) if (len(a) > 1 and "int" in show(a[1])) else v0
        A = [eval_np(x, env) for x in a]
        table = {"numpy.linalg.inv": np.linalg.inv, "numpy.dot": np.dot, "numpy.matmul": np.matmul, ".dot": lambda x, y: x.dot(y),
                 "numpy.rint": np.rint, "numpy.round": np.round, "numpy.around": np.around, "numpy.floor": np.floor,
                 "numpy.ceil": np.ceil, "numpy.trunc": np.trunc, "numpy.fix": np.fix, "numpy.array": np.array, "numpy.asarray": np.asarray,
                 "numpy.transpose": np.transpose, ".transpose": lambda x: x.T, ".copy": lambda x: x.copy(), "numpy.linalg.solve": np.linalg.solve,
                 "numpy.abs": np.abs, "numpy.where": np.where, "numpy.sign": np.sign}
        if f == ".astype" and A:
            return A[0].astype(int) if "int" in show(a[1]) else A[0]
        if f in table:
            return table[f](*A)
        raise Unknown(f)
    if k == "attr" and t[2] == "T":
        return eval_np(t[1], env).T
    if k == "sub":
        base = eval_np(t[1], env)
        idx = t[2]
        if idx[0] == "tuple":
            py = tuple(None if (x == ("mod", "numpy.newaxis") or x == NONE) else (slice(None) if x == ("slice", NONE, NONE, NONE) else eval_np(x, env)) for x in idx[1])
            return base[py]
        raise Unknown("subscript")
    if k == "bin":
        a, b = eval_np(t[2], env), eval_np(t[3], env)
        return {"+": lambda: a + b, "-": lambda: a - b, "*": lambda: a * b, "/": lambda: a / b, "@": lambda: a @ b, "&": lambda: a & b, "|": lambda: a | b,
                "//": lambda: a // b, "%": lambda: a % b}[t[1]]()
    if k == "un" and t[1] == "-":
        return -eval_np(t[2], env)
    if k == "cmp" and t[1] in ("<", "<=", ">", ">=", "==", "!="):
        a, b = eval_np(t[2], env), eval_np(t[3], env)
        return {"<": lambda: a < b, "<=": lambda: a <= b, ">": lambda: a > b, ">=": lambda: a >= b, "==": lambda: a == b, "!=": lambda: a != b}[t[1]]()
    if k == "bin" and t[1] in ("&", "|"):
        a, b = eval_np(t[2], env), eval_np(t[3], env)
        return (a & b) if t[1] == "&" else (a | b)
    raise Unknown(show(t)[:40])


def run(run: Run, pkg: Package) -> None:
    run.explanation = (
        "remove_pbc's return term is typed in a row-vector coordinate-frame system (Cartesian / fractional sorts, nearest vs "
        "directed rounding, mask on fractional components) and proved equal, in non-commutative matrix algebra, to "
        "R - (mask (.) nearest(R H^-1)) H; all 27 call sites are checked for the roles of their three arguments.")
    it = interp(pkg, FN)
    fi = it.fi
    fq = short(fi.qual)
    p = fi.params
    dflts = fi.defaults()
    extras = [x for x in p[3:]]
    if len(p) < 3 or any(x not in dflts for x in extras):
        raise AnalysisError("remove_pbc: expected (RIJ, hmatrix, ppp[, options with defaults])")
    R, H, M = (("sym", x) for x in p[:3])
    if extras:
        # options added later: the documented three-argument call is analysed with every option at its default; an option that
        # some caller sets is analysed once more below with the option present
        import ast as _ast
        bind = {}
        for x in extras:
            try:
                bind[x] = C(_ast.literal_eval(dflts[x]))
            except Exception:  # noqa
                raise AnalysisError(f"remove_pbc: default of option {x} is not a literal")
        it_opt = it
        it = interp(pkg, FN, bind=bind)
    if not it.returns or it.falls_through:
        raise AnalysisError("remove_pbc: expected every path to return a value")
    # several returns (fast paths): folded into one conditional value, last return as the default
    ret = fold_returns(it)
    loc = loc_of(it, it.returns[0])
    # ---- the result is a function of the three arguments alone: no module-level state keyed on object identity
    gl = sorted({x[1][1] for x in walk(ret) if x[0] == "sub" and x[1][0] == "global"})
    for g in gl:
        ident = None
        for e_ in it.events:
            if e_.kind == "store" and e_.data["target"][0] == "sub" and e_.data["target"][1] == ("global", g):
                for c_, pol in e_.guards:
                    if any(y[0] == "cmp" and y[1] in ("is", "is not") and any(z in (R, H, M) for z in (y[2], y[3])) for y in walk(c_)):
                        ident = (e_, c_)
        run.ob("R-ALG", fq, f"stateless:{g.rsplit('.', 1)[-1]}", False if ident else None, "the result depends on the arguments only (no cached cell data that can go stale)",
               f"the returned value reads module-level {g.rsplit('.', 1)[-1]}" + (f", refreshed only when {show(ident[1])[:70]}" if ident else ""),
               witness=(f"the cache is keyed on the IDENTITY of the argument array: call remove_pbc(R, cell, ppp), change the cell in place (cell[0, 0] = 20, cell *= 1.3, a reused "
                        f"buffer), call again - the second call uses the inverse of the old cell") if ident else None, loc=loc_of(it, ident[0]) if ident else loc, sound=True)
    # a typing / algebra verdict counts as a violation only together with a concrete cell, mask and displacement on which the
    # extracted return term differs from the reference (positive witness)
    wit0 = numeric_witness(ret, R, H, M)
    # ---- R-FRAME
    try:
        r, c, tags = frame_type(ret, R, H, M, [])
        run.ob("R-FRAME", fq, "well-typed", True, "every product contracts matching sorts; mask acts on fractional components",
               f"result type ({r}, {c}), tags {sorted(tags)}", loc=loc)
        ok = (r, c) == ("Pt", "Cart")
        run.ob("R-FRAME", fq, "result-frame", ok, "the result is a Cartesian displacement per input row", f"({r}, {c})",
               witness=None if ok else f"result carries {c} components: back-transform with the cell matrix missing or doubled; {wit0}", loc=loc, sound=bool(wit0))
        near = "Nearest:Frac" in tags
        directed = [x for x in tags if x.startswith("Directed")]
        run.ob("R-FRAME", fq, "rounding", near and not directed, "fractional coordinates are rounded to the nearest integer",
               f"tags {sorted(tags)}", witness=None if near and not directed else
               ("fractional coordinate 0.6 maps to 0.6 (floor) instead of -0.4" if directed else "no rounding of fractional coordinates") + f"; {wit0}", loc=loc, sound=bool(wit0))
        run.ob("R-FRAME", fq, "mask", "Masked" in tags or "Where" in tags, "the periodicity mask gates the integer shift",
               f"tags {sorted(tags)}", witness=None if ("Masked" in tags or "Where" in tags) else f"mask ignored: non-periodic axes are wrapped; {wit0}", loc=loc, sound=bool(wit0))
    except Clash as e:
        run.ob("R-FRAME", fq, "well-typed", False, "every product contracts matching sorts; mask acts on fractional components", str(e),
               witness=f"{e}; {wit0}", loc=loc, sound=bool(wit0))
    except Unknown as e:
        run.ob("R-FRAME", fq, "well-typed", None, "frame typing", f"construct outside the frame grammar: {e}", loc=loc)
    # ---- R-ALG
    ref = Rs - Had(Ms, Rint(Rs * Hs ** -1)) * Hs
    try:
        got = sp.expand(nc(ret, R, H, M))
        # Had is linear in its second argument only through our construction; normalise A H^-1 H
        d = sp.expand(got - ref)
        d = d.subs(Hs ** -1 * Hs, 1)
        ok = sp.simplify(d) == 0
        detail = f"code: {got}; reference: {sp.expand(ref)}"
        if ok:
            run.ob("R-ALG", fq, "form", True, "result = R - (mask (.) nearest(R H^-1)) H", detail, loc=loc)
        else:
            wit = numeric_witness(ret, R, H, M)
            run.ob("R-ALG", fq, "form", False if wit else None, "result = R - (mask (.) nearest(R H^-1)) H", detail, witness=wit, loc=loc, sound=True)
    except Unknown as e:
        wit = numeric_witness(ret, R, H, M)
        run.ob("R-ALG", fq, "form", False if wit else None, "result = R - (mask (.) nearest(R H^-1)) H",
               f"form outside the algebra grammar: {e}", witness=wit, loc=loc, sound=True)
    # default mask
    dflt = fi.defaults().get(p[2])
    if dflt is not None:
        import ast as _ast
        txt = _ast.unparse(dflt)
        okd = txt.replace(" ", "") in ("np.array([1,1,1])", "numpy.array([1,1,1])", "(1,1,1)", "[1,1,1]")
        run.ob("R-ALG", fq, "default-mask", True if okd else None, "default mask is fully periodic in 3D", txt, witness=None if okd else f"default {txt}", loc=fi.loc())
    check_call_sites(run, pkg)
    run.minimum("R-PBC", 27 * 3)
    if extras:
        check_options(run, pkg, it_opt, fq, R, H, M, extras, loc)
    if run.tier == "thorough":
        # deeper: re-evaluate the extracted term on a grid of cells and masks against the reference (witness search only)
        wit = numeric_witness(ret, R, H, M, trials=400)
        run.ob("R-ALG", fq, "form:numeric-crosscheck", wit is None, "extracted term agrees with the reference on 400 concrete cells x masks",
               "no difference" if wit is None else wit, witness=wit, loc=loc, sound=True)


def fold_returns(it) -> Term:
    """several returns (fast paths) folded into one conditional value, last return as the default"""
    ret = it.returns[-1].data["value"]
    for r_ in reversed(it.returns[:-1]):
        conds = [c_ if pol else ("un", "not", c_) for c_, pol in r_.guards]
        if not conds:
            ret = r_.data["value"]
            continue
        ret = ("phi", conds[0] if len(conds) == 1 else ("bool", "and", tuple(conds)), r_.data["value"], ret)
    return ret


def check_options(run, pkg, it_opt, fq, R, H, M, extras, loc):
    """An option of remove_pbc that some caller sets: the extracted term is evaluated with the option bound to what callers
    pass (the box lengths of the same cell) on the structured grid of cells; a differing cell is the witness."""
    target = pkg.func(FN).qual
    ret = fold_returns(it_opt)
    for x in extras:
        users = []
        for fi in pkg.all_functions():
            it = interp(pkg, fi.qual)
            for ev in it.events:
                if ev.kind == "call" and ev.data["call"][1] == target:
                    v = dict(ev.data["call"][3]).get(x)
                    if v is not None and v != NONE:
                        users.append((short(fi.qual), v, loc_of(it, ev)))
        if not users:
            run.ob("R-ALG", fq, f"option:{x}", None, f"option {x} is not used by any caller (its non-default arm is not analysed)", "no call site passes it", loc=loc)
            continue
        lengthy = [u for u in users if any(y[0] == "attr" and y[2] == "boxlength" for y in walk(u[1]))]
        if not lengthy:
            run.ob("R-ALG", fq, f"option:{x}", None, f"option {x}: value passed by callers recognised", show(users[0][1])[:80], loc=users[0][2])
            continue
        wit = numeric_witness(ret, R, H, M, lengths=("sym", x))
        run.ob("R-ALG", fq, f"option:{x}", False if wit else None, f"with {x} = the box lengths of the same cell (as {lengthy[0][0]} passes it) the result is still R - (mask (.) nearest(R H^-1)) H",
               "differs on a concrete cell" if wit else "no differing cell found on the grid (not a proof)", witness=(f"{x} = diag(H); " + wit) if wit else None, loc=lengthy[0][2], sound=True)


def structured_cases():
    """cells x displacement sets x masks chosen to reach fast paths and early exits: orthogonal, weakly and strongly tilted cells of
    either tilt sign; displacement sets that are all short (every |component| < L/2), mixed, and several box lengths long."""
    out = []
    for d in (2, 3):
        L = np.array([3.0, 4.0, 5.0][:d])
        tilt_sets = [np.zeros(3), np.array([0.01, 0.008, 0.012]), np.array([1.4, 0.0, 0.0]), np.array([-1.3, 0.9, -1.7]), np.array([1.2, 1.1, 1.6]), np.array([0.0, 0.0, 1.9]),
                     np.array([2.4, 0.0, 0.0]), np.array([-2.2, 1.9, 3.1])]        # tilts beyond half a box length ("box tilt large")
        for tl in tilt_sets:
            Hm = np.diag(L).astype(float)
            Hm[1, 0] = tl[0]
            if d == 3:
                Hm[2, 0], Hm[2, 1] = tl[1], tl[2]
            short = np.array([[0.49, 0.47, 0.45], [-0.48, 0.46, -0.44], [0.3, -0.49, 0.48], [-0.45, -0.45, 0.1]])[:, :d] * L
            mixed = np.array([[0.7, -0.2, 0.1], [-1.2, 0.6, 0.55], [0.2, 0.9, -0.8], [2.2, -1.4, 0.3]])[:, :d] * L
            far = np.array([[1.7, 0.1, -0.2], [-2.6, 0.3, 0.1], [0.2, 1.8, 2.7], [-1.6, -2.4, 1.9]])[:, :d] * L
            for Rm in (short, mixed, far):
                for mk in range(2 ** d):
                    Mm = np.array([(mk >> a) & 1 for a in range(d)])
                    out.append((Hm, Rm.copy(), Mm))
    # all-periodic masks first (the common case), then the rest
    out.sort(key=lambda c: -int(c[2].sum()))
    return out


def numeric_witness(ret, R, H, M, trials=40, lengths=None):
    """`lengths`: a term standing for the box-length vector of the same cell (diag of the LAMMPS h-matrix)."""
    rng = np.random.default_rng(12345)
    cases = structured_cases()
    for t in range(trials + len(cases)):
        if t < len(cases):
            Hm, Rm, Mm = cases[t]
            d = Hm.shape[0]
        else:
            d = 2 + (t % 2)
            Hm = np.tril(rng.uniform(-1.5, 1.5, (d, d)))
            Hm[np.diag_indices(d)] = rng.uniform(2.0, 4.0, d)
            Rm = rng.uniform(-6, 6, (3, d))
            Mm = rng.integers(0, 2, d)
        try:
            env = {R: Rm, H: Hm, M: Mm}
            if lengths is not None:
                env[lengths] = np.diag(Hm).copy()
            try:
                got = eval_np(ret, env)
            except Unknown:
                from ..concrete import ev as _cev      # wider table of operations (conditionals, reductions, diagonals)
                got = _cev(ret, env)
        except Exception:
            return None
        A = Rm @ np.linalg.inv(Hm)
        want = Rm - (np.rint(A) * Mm[None, :]) @ Hm
        if np.shape(got) != want.shape:
            return None         # not a displacement array of the input's shape: an intermediate, nothing to compare
        if not np.allclose(got, want, atol=1e-9):
            k = 0
            if np.shape(got) == want.shape:
                k = int(np.argmax(np.abs(np.asarray(got) - want).max(axis=1)))
            return (f"H={np.round(Hm, 3).tolist()}, mask={Mm.tolist()}, R={np.round(Rm[k], 3).tolist()}: term evaluates to "
                    f"{np.round(np.asarray(got)[k], 4).tolist() if np.ndim(got) == 2 else got}, reference {np.round(want[k], 4).tolist()}")
    return None


def displacement_witness(d: Term) -> Optional[str]:
    """A displacement handed to remove_pbc may differ from a true difference of two positions only by whole cell vectors of
    PERIODIC axes (those the masked rounding can undo).  The extracted argument is evaluated on concrete frames whose particles
    lie partly outside the primary cell, for masks with an open axis; a row that is no position difference modulo the periodic
    lattice is the witness.  None: not evaluable, or nothing found."""
    from ..concrete import ev as cev
    pos_terms = sorted({x for x in walk(d) if x[0] == "attr" and x[2] == "positions"}, key=str)
    cell_terms = sorted({x for x in walk(d) if x[0] == "attr" and x[2] in ("hmatrix", "boxlength", "boxbounds")}, key=str)
    free = sorted({x for x in walk(d) if x[0] in ("loopvar", "cvar")}, key=str)
    if not pos_terms:
        return None
    rng = np.random.default_rng(7)
    for dim, Hm in ((3, np.diag([3.0, 4.0, 5.0])), (2, np.array([[3.0, 0.0], [1.2, 4.0]])), (3, np.array([[3.0, 0, 0], [-1.1, 4.0, 0], [0.7, 0.9, 5.0]]))):
        P = rng.uniform(-0.9, 1.9, (6, dim)) @ Hm          # fractional coordinates from -0.9 to 1.9: inside and outside the cell
        env = {}
        for t in pos_terms:
            env[t] = P
        for t in cell_terms:
            env[t] = {"hmatrix": Hm, "boxlength": np.diag(Hm).copy(), "boxbounds": np.column_stack((np.zeros(dim), np.diag(Hm)))}[t[2]]
        for v in free:
            env[v] = 2
        try:
            got = np.atleast_2d(np.asarray(cev(d, env), dtype=float))
        except Exception:  # noqa
            return None
        if got.shape[1] != dim:
            return None
        Hinv = np.linalg.inv(Hm)
        for open_axis in range(dim):
            for r, g in enumerate(got):
                best = None
                for a in range(P.shape[0]):
                    for b in range(P.shape[0]):
                        f = (g - (P[a] - P[b])) @ Hinv
                        dev = np.abs(f - np.rint(f))
                        dev[open_axis] = abs(f[open_axis])
                        if best is None or dev.max() < best:
                            best = dev.max()
                if best is not None and best > 1e-7:
                    mask = [1] * dim
                    mask[open_axis] = 0
                    return (f"cell {Hm.tolist()}, periodicity mask {mask}, particles with fractional coordinates between -0.9 and 1.9: row {r} of the argument, "
                            f"{np.round(g, 4).tolist()}, differs from every position difference by {best:.3f} cell vectors along an axis remove_pbc must leave alone "
                            f"(a shift along the open axis cannot be undone by the masked rounding)")
    return None


def position_snapshots(t: Term):
    """Snapshot terms S such that S.positions occurs in t; plus flags for other position-like roots."""
    snaps, other = [], []
    for x in walk(t):
        if x[0] == "attr" and x[2] == "positions":
            snaps.append(x[1])
        if x[0] == "sym" and x[1] in ("positions",):
            other.append(x)
    return snaps, other


def check_call_sites(run: Run, pkg: Package) -> None:
    target = pkg.func(FN).qual
    n = 0
    for fi in pkg.all_functions():
        it = interp(pkg, fi.qual)
        fq = short(fi.qual)
        attrs = init_attrs(pkg, fi.cls.qual) if fi.cls is not None and "__init__" in fi.cls.methods and fi.name != "__init__" else {}
        seen = {}
        for ev in it.events:
            if ev.kind != "call" or ev.data["call"][1] != target:
                continue
            n += 1
            call = ev.data["call"]
            names = ["RIJ", "hmatrix", "ppp"]
            kwd = dict(call[3])
            args = [call[2][i] if i < len(call[2]) else kwd.get(names[i]) for i in range(3)]
            base = key_of(ev)[:70]
            seen[base] = seen.get(base, 0) + 1
            key = base if seen[base] == 1 else f"{base} #{seen[base]}"
            loc = loc_of(it, ev)
            d, h, m = args
            # --- displacement
            ok_d = None
            det = show(d)[:110] if d else "missing"
            snaps = []
            if d is not None and d[0] == "bin" and d[1] == "-":
                sa, oa = position_snapshots(d[2])
                sb, ob = position_snapshots(d[3])
                grid_a = d[2][0] == "sub" and d[2][1][0] == "call" and d[2][1][1] == "numpy.zeros"
                if (sa or oa or grid_a) and (sb or ob):
                    ok_d = True
                    snaps = sa + sb
                elif (sa or oa) and not (sb or ob) or (sb or ob) and not (sa or oa):
                    ok_d = None         # a displacement from a point that is not a particle position: not decided here
            elif d is not None and (any(x[0] == "attr" and x[2] == "hmatrix" for x in walk(d)) or d == ("sym", "hmatrix")):
                ok_d = False
            elif d is not None and ((d[0] == "attr" and d[2] == "positions") or
                                    (d[0] == "sub" and d[1][0] == "attr" and d[1][2] == "positions")):
                ok_d = False        # absolute coordinates, no difference taken
                snaps = [d[1] if d[0] == "attr" else d[1][1]]
            wit_d = None
            if d is not None and (ok_d is None or (ok_d is True and any(x[0] == "call" and isinstance(x[1], str) and x[1].split(".")[-1] in
                                                                       ("floor", "rint", "round", "around", "mod", "remainder", "fmod", "trunc", "ceil") for x in walk(d)))):
                wit_d = displacement_witness(d)
                if wit_d:
                    ok_d = False
            run.ob("R-PBC", fq, f"{key}:displacement", ok_d, "first argument is a difference of two position terms (a displacement)", det,
                   witness=None if ok_d is not False else (wit_d or "absolute coordinates / a cell matrix are minimum-imaged instead of a displacement"), loc=loc, sound=True)
            # --- cell
            ok_h = None
            hx = expand_self(h, attrs) if h is not None else None
            if h is not None and h[0] == "attr" and h[2] == "hmatrix" and hx[0] == "attr" and hx[2] == "hmatrix" and hx != h and h[1] not in snaps:
                h = hx          # an instance attribute that caches some frame's cell: judge the frame it was taken from
            if h is not None and h[0] == "attr" and h[2] == "hmatrix":
                ok_h = (h[1] in snaps) if snaps else None
                if snaps and not ok_h:
                    # the same snapshot reached through self (self.snapshot) vs local alias
                    ok_h = any(expand_self(s, attrs) == expand_self(h[1], attrs) for s in snaps)
                if snaps and not ok_h:
                    # definitely another frame only when the cell's frame is a fixed element of the trajectory while every position
                    # comes from a loop-dependent frame; two spellings of possibly the same frame stay undecided
                    hx1 = expand_self(h[1], attrs)
                    fixed = hx1[0] == "sub" and is_const(hx1[2]) and not any(x[0] in ("loopvar", "mu") for x in walk(hx1))
                    moving = all(any(x[0] == "loopvar" for x in walk(expand_self(s_, attrs))) for s_ in snaps)
                    ok_h = False if (fixed and moving) else None
            elif h == ("sym", "hmatrix") and not snaps:
                ok_h = True
            elif h is not None and any(x[0] == "attr" and x[2] == "positions" for x in walk(h)):
                ok_h = False
            run.ob("R-PBC", fq, f"{key}:cell", ok_h, "second argument is the cell matrix of a snapshot that supplied one of the two positions",
                   show(h)[:80] if h else "missing", witness=None if ok_h is not False else
                   f"cell of {show(h[1])[:40] if h and h[0] == 'attr' else show(h)[:40]} used for positions of {[show(s)[:30] for s in snaps]}", loc=loc, sound=True)
            # --- mask
            ok_m = None
            if m is None:
                # the callee's default is used although the caller holds a periodicity mask of its own
                has_mask = "ppp" in fi.params or any(k_ == "ppp" for k_ in attrs) or (fi.cls is not None and "ppp" in (fi.cls.methods["__init__"].params if "__init__" in fi.cls.methods else []))
                ok_m = False if has_mask else None
            else:
                mm = expand_self(m, attrs)
                base_m = mm[1] if mm[0] == "sub" and mm[2][0] == "slice" else mm
                if base_m == ("sym", "ppp") or (base_m[0] == "attr" and base_m[2] == "ppp"):
                    ok_m = True
                elif any(x[0] == "attr" and x[2] in ("hmatrix", "positions", "boxlength") for x in walk(mm)):
                    ok_m = False
            run.ob("R-PBC", fq, f"{key}:mask", ok_m, "third argument is the caller's periodicity mask", show(m)[:60] if m else "default [1,1,1]",
                   witness=None if ok_m is not False else ("default 3D mask used: wrong shape in 2D and ignores the requested periodicity" if m is None
                                                           else "a non-mask quantity is passed as periodicity mask"), loc=loc, sound=True)
    run.extra["remove_pbc_call_sites"] = n
