"""C17 - local order parameters (S2, tetrahedral, nematic, gyration) equal their definitions.

R-ALG     S2 integrand (g ln g - g + 1) r^(d-1) integrated by the trapezoid rule over the bin centres, prefactor -(d-1) pi rho,
          shell norms 2 pi r rho / 4 pi r^2 rho, bin centres k dr + dr/2; tetrahedral 1 - (3/8)/4 sum_{j<k} (cos + 1/3)^2;
          nematic Q = (d u u^T - I)/2, scalar sqrt(d/(d-1) tr Q^2), eigen variant 2 lambda_max; gyration tensor and descriptors.
R-ALIGN   S2: distances and neighbour types are both `delete(., i)[condition]`; smearing width sigmas[type_i - 1, type_j - 1].
R-SELECTK tetrahedral: the four nearest = argpartition prefix of N+1 = 5 with the particle itself removed by id.
R-LOOPDOM tetrahedral pair loop visits all 6 pairs j < k; gyration combinations cover the upper triangle.
R-PBC     minimum-image distances with the frame's cell and the given mask.
R-API     the numerical integration routine resolves in the installed numpy (either name).
"""
from __future__ import annotations

import itertools

import sympy as sp

from .common import *  # noqa
from .boolib import *  # noqa
from .grlib import is_rowwise_norm, pbc_args, pair_difference, no_wrap_possible
from .c05 import decode, run_pipeline
from ..vg import Interp

SELF = ("sym", "self")


def run(run: Run, pkg: Package) -> None:
    run.explanation = (
        "The four local order parameters are read from their value graphs: closed formulas are compared by exact algebra (with "
        "uninterpreted reductions), selections by the pipeline interpreter shared with C05, loop domains by enumeration of the "
        "constant index sets, gather/align relations structurally.")
    check_s2_integral(run, pkg)
    check_particle_s2(run, pkg)
    check_tetrahedral(run, pkg)
    check_nematic(run, pkg)
    check_gyration(run, pkg)
    run.minimum("R-ALG", 22)


# ====================================================================== S2
def check_s2_integral(run, pkg):
    it = interp(pkg, "static.pairentropy.s2_integral")
    fi = it.fi
    fq = short(fi.qual)
    ret = it.returns[0].data["value"]
    g, r, d = sp.symbols("g r d", positive=True)
    ok_call = ret[0] == "call" and len(ret[2]) == 2
    f = ret[1] if ok_call else None
    names = set()
    if f is not None:
        ft = f[1] if isinstance(f, tuple) else ("mod", f)
        for x in walk(ft) if isinstance(ft, tuple) else []:
            if x[0] == "mod":
                names.add(x[1])
            if x[0] == "call" and x[1] == "builtins.getattr" and len(x[2]) >= 2 and is_const(x[2][1]):
                names.add("numpy." + x[2][1][1])
        if isinstance(f, str):
            names.add(f)
    trap = {n_ for n_ in names if n_ in ("numpy.trapezoid", "numpy.trapz", "scipy.integrate.trapezoid", "scipy.integrate.trapz")}
    other = {n_ for n_ in names if n_.startswith(("numpy.", "scipy.")) and n_ not in trap and n_ != "numpy"}
    okrule = True if (bool(trap) and not other) else (False if (not trap and other) else None)    # the resolved callee of the returned call
    run.ob("R-ALG", fq, "rule", okrule, "the integral is the trapezoid rule", f"integrator candidates {sorted(names)}", witness=None if okrule else "another quadrature / plain sum (missing bin width)", loc=fi.loc(), sound=True)
    import numpy as _np
    import importlib
    res = []
    for n_ in trap:
        mod, attr = n_.rsplit(".", 1)
        try:
            res.append(hasattr(importlib.import_module(mod), attr))
        except Exception:  # noqa
            res.append(False)
    okapi = any(res)
    guarded = any(x[0] == "call" and x[1] == "builtins.getattr" for x in walk(f[1])) if isinstance(f, tuple) else False
    run.ob("R-API", fq, "integrator-exists", (okapi and (guarded or all(res))) if trap else None, "the integration routine exists in the installed numpy (np.trapz was removed in numpy 2.4; np.trapezoid is its name since 2.0)",
           f"{dict(zip(sorted(trap), res))}", witness=None if okapi and (guarded or all(res)) else "AttributeError on every S2 call", loc=fi.loc(), sound=True)   # attribute lookup in the installed numpy
    if not ok_call:
        return

    def at(t):
        return {("sym", "gr"): g, ("sym", "gr_bins"): r, ("sym", "ndim"): d}.get(t)
    check_algebra(run, "R-ALG", it, "integrand", "integrand = (g ln g - g + 1) r^(d-1)", ret[2][0], (g * sp.log(g) - g + 1) * r ** (d - 1), at, fi.loc(), positive=True)
    okx = eqv(ret[2][1], ("sym", "gr_bins"))
    run.ob("R-ALG", fq, "abscissa", okx, "integration runs over the bin centres r (second argument of the trapezoid rule)", show(ret[2][1])[:40], witness=None if okx else "unit spacing assumed: result off by 1/dr", loc=fi.loc(), sound=True)


def check_particle_s2(run, pkg):
    CLS = "static.pairentropy.S2"
    attrs = init_attrs(pkg, CLS)
    for ndim in (2, 3):
        def assume(c, ndim=ndim):
            c2 = expand_self(c, attrs)
            if c2[0] == "cmp" and c2[1] == "==" and is_const(c2[3]) and c2[2] == ("sub", ("attr", ("sym", "ppp"), "shape"), C(0)):
                return c2[3][1] == ndim
            if c == ("sym", "savegr"):
                return False
            return None
        it = Interp(pkg, pkg.func(f"{CLS}.particle_s2"), assume=assume)
        fi = it.fi
        fq = short(fi.qual)
        tag = f"{ndim}D"

        def ex(t):
            return expand_self(t, attrs)
        st = [e for e in stores(it) if len(e.loops) == 2 and e.data["target"][2][0] == "tuple" and any(x[0] == "call" and x[1] == "PyMatterSim.static.pairentropy.s2_integral" for x in walk(e.data["value"]))]
        if len(st) != 1:
            raise AnalysisError(f"{fq}[{tag}]: S2 store not found")
        ev = st[0]
        loc = loc_of(it, ev)
        Lf, Li = it.loops[ev.loops[0]], it.loops[ev.loops[1]]
        n, snap, i = ("elem", Lf.target, 0), ("elem", Lf.target, 1), Li.target
        okf = eqv(ex(Lf.iter), ("call", "builtins.enumerate", (("attr", ("sym", "snapshots"), "snapshots"),), ()))
        okp = eqv(Li.iter, ("call", "builtins.range", (("attr", snap, "nparticle"),), ()))
        run.ob("R-LOOPDOM", fq, f"{tag}:domain", tri(okf, okp), "every particle of every frame gets a value, stored at [n, i]", f"{show(Lf.iter)[:40]} x {show(Li.iter)[:40]}", witness=None if okf and okp else "entries skipped", loc=loc, sound=True)
        okslot = eqv(ev.data["target"][2], ("tuple", (n, i)))
        run.ob("R-IDX", fq, f"{tag}:slot", okslot, "S2 of particle i in frame n is stored at [n, i]", show(ev.data["target"][2])[:30], witness=None if okslot else "wrong slot", loc=loc, sound=True)
        val = ev.data["value"]
        call = [x for x in walk(val) if x[0] == "call" and x[1] == "PyMatterSim.static.pairentropy.s2_integral"][0]
        rho, I, dS = sp.Symbol("rho", positive=True), sp.Symbol("I"), sp.Symbol("d", positive=True)
        N_, V_ = ("attr", ("sub", ("attr", ("sym", "snapshots"), "snapshots"), C(0)), "nparticle"), None

        def at(t):
            t2 = ex(t)
            if t == call:
                return I
            if t2 == ("sub", ("attr", ("sym", "ppp"), "shape"), C(0)):
                return dS
            if t2[0] == "bin" and t2[1] == "/" and t2[2] == N_ and t2[3][0] == "call" and t2[3][1] == "numpy.prod":
                return rho
            return None
        check_algebra(run, "R-ALG", it, f"{tag}:prefactor", "S2_i = -(d-1) pi rho x integral, rho = N / prod(boxlength)", val, -(dS - 1) * sp.pi * rho * I, at, loc, positive=True)
        # arguments of the integral
        gri, bins, nd = (list(call[2]) + [None] * 3)[:3]
        nd = nd or dict(call[3]).get("ndim")
        okargs = tri_lazy(lambda: (True if (nd is not None) else None), lambda: eqv(ex(nd), ("sub", ("attr", ("sym", "ppp"), "shape"), C(0))))
        run.ob("R-ALG", fq, f"{tag}:dimension", okargs, "the integral is taken with the system's dimension", show(ex(nd))[:50] if nd else "default (3)", witness=None if okargs else "2D system integrated with r^2", loc=loc, sound=True)
        r, dr = sp.symbols("k dr", positive=True)
        binsx = ex(bins)

        def atb(t):
            t2 = ex(t)
            if t2 == ("call", "numpy.arange", (("sym", "ndelta"),), ()):
                return r
            if t2 == ("sym", "rdelta"):
                return dr
            return None
        check_algebra(run, "R-ALG", it, f"{tag}:bins", "bin centres r_k = k dr + dr/2, k = 0..ndelta-1", bins, r * dr + dr / 2, atb, loc, positive=True)
        # g_i = (sum_j gaussian(bins - r_ij, sigma_ij)) / norms
        ok_g = gri[0] == "bin" and gri[1] == "/"
        if not ok_g:
            run.ob("R-ALG", fq, f"{tag}:gr", None, "particle g(r) = smeared sum / shell norm", show(gri)[:80], loc=loc)
            continue
        acc, norms = gri[2], gri[3]
        rs = sp.Symbol("r", positive=True)

        def atn(t):
            if t == bins:
                return rs
            r_ = at(t)
            if r_ == dS:
                return sp.Integer(ndim)       # this obligation belongs to the configuration with that dimension
            return r_
        want = (2 * sp.pi * rs * rho) if ndim == 2 else (4 * sp.pi * rs ** 2 * rho)
        check_algebra(run, "R-ALG", it, f"{tag}:shell-norm", f"shell norm = {'2 pi r rho' if ndim == 2 else '4 pi r^2 rho'}", norms, want, atn, loc, positive=True)
        sa = split_acc(acc)
        if sa is None or sa[0][3] not in (C(0), C(0.0)):
            run.ob("R-ALG", fq, f"{tag}:smearing", None, "g_i accumulates Gaussians from 0", show(acc)[:80], loc=loc)
            continue
        term = sa[1]
        Lj = it.loops[sa[0][1]]
        okt = term[0] == "call" and term[1] == "PyMatterSim.utils.funcs.grid_gaussian" and len(term[2]) == 2
        if not okt:
            run.ob("R-ALG", fq, f"{tag}:smearing", None, "each neighbour contributes a Gaussian", show(term)[:80], loc=loc)
            continue
        jr = Lj.target
        D = Lj.iter[2][0] if Lj.iter[0] == "call" and Lj.iter[1] == "builtins.enumerate" else None
        arg0, sig = term[2]
        okarg = eqv(arg0, ("bin", "-", bins, ("elem", jr, 1))) if D is not None else None
        run.ob("R-ALG", fq, f"{tag}:smearing", okarg, "neighbour at distance r_ij adds gaussian(r - r_ij, sigma_ij) on the bin centres", show(arg0)[:70], witness=None if okarg else "Gaussian not centred at the pair distance", loc=loc, sound=True)
        if D is None:
            continue
        # D = dist[cond] ; dist = norm(remove_pbc(delete(pos, i, axis=0) - pos[i], H, ppp)); cond = dist < rmax
        okD = D[0] == "sub" and D[2][0] == "cmp"
        dist = D[1] if okD else None
        cond = D[2] if okD else None
        inner = is_rowwise_norm(dist) if dist is not None else None
        pa = pbc_args(inner) if inner is not None else None
        if pa is None:
            raw = inner is not None and any(x[0] == "attr" and x[2] == "positions" for x in walk(inner)) and no_wrap_possible(dist)
            run.ob("R-PBC", fq, f"{tag}:image", False if raw else None, "pair distances are minimum-image distances", show(dist)[:90] if dist else show(D)[:90],
                   witness="pairs across the boundary are missed: g_i is depleted near the faces" if raw else None, loc=loc, sound=True)
            continue
        diff, H, ppp = pa
        dele = ("call", "numpy.delete", (("attr", snap, "positions"), i), (("axis", C(0)),))
        okdiff = eqv(diff, ("bin", "-", dele, ("sub", ("attr", snap, "positions"), i)))
        run.ob("R-PBC", fq, f"{tag}:pairs", okdiff, "distance vectors = positions of all other particles (row i deleted) - position of i, same frame", show(diff)[:100], witness=None if okdiff else "self term kept / other frame", loc=loc, sound=True)
        okh = tri(eqv(H, ("attr", snap, "hmatrix")), eqv(ex(ppp), ("sym", "ppp")) if ppp is not None else False)
        run.ob("R-PBC", fq, f"{tag}:cell-mask", okh, "minimum image uses the frame's cell and the instance mask", f"{show(H)[:30]}, {show(ppp)[:20]}", witness=None if okh else "cell/mask wrong", loc=loc, sound=True)
        okc = tri_lazy(lambda: (True if (cond[0] == "cmp") else None), lambda: (True if (cond[1] in ("<", "<=")) else None), lambda: (True if (cond[2] == dist) else None), lambda: eqv(cond[3], ("call", ".max", (bins,), ())))
        run.ob("R-CMP", fq, f"{tag}:range", okc, "pairs beyond the last bin centre are dropped (they cannot contribute inside the grid beyond a Gaussian tail)", show(cond)[:80], witness=None if okc else "selection differs", loc=loc, sound=True)
        # sigma = sigmas[itype, jtypes[j]]
        oks = None
        detail = show(sig)[:100]
        if sig[0] == "sub" and ex(sig[1]) == ("sym", "sigmas") and sig[2][0] == "tuple" and len(sig[2][1]) == 2:
            it_, jt_ = sig[2][1]
            want_i = [("call", "builtins.int", (("bin", "-", ("sub", ("attr", snap, "particle_type"), i), C(1)),), ()), ("bin", "-", ("sub", ("attr", snap, "particle_type"), i), C(1))]
            jt_ok = None
            if jt_[0] == "sub" and jt_[2] == ("elem", jr, 0):
                J = jt_[1]
                if J[0] == "sub" and J[2] == cond:
                    base = J[1]
                    if base[0] == "call" and base[1] == ".astype":
                        base = base[2][0]
                    ptype = ("attr", snap, "particle_type")
                    jt_ok = eqv(base, ("bin", "-", ("call", "numpy.delete", (ptype, i), ()), C(1)))
                    raw_t = base[2] if (base[0] == "bin" and base[1] == "-" and base[3] == C(1)) else (base[3] if (base[0] == "bin" and base[1] == "+" and base[2] == C(-1)) else base)
                    if jt_ok is None and raw_t[0] == "sub" and raw_t[1] == ptype and i not in set(walk(raw_t[2])):
                        jt_ok = False      # the distances drop row i, the types are cut without reference to i: shifted by one after particle i
            it0 = it_[2][0] if (it_[0] == "call" and it_[1] == "builtins.int" and len(it_[2]) == 1) else it_
            oks = tri(eqv(it0, want_i[1]), jt_ok)
        run.ob("R-ALIGN", fq, f"{tag}:sigma", oks, "width = sigmas[type_i - 1, type_j - 1] where type_j is taken with the same deletion of row i and the same selection as the distances", detail,
               witness=None if oks else "types misaligned with distances by one after particle i / 1-based type used as index", loc=loc, sound=True)
        okattr = any(e.kind == "store" and e.data["target"] == ("attr", SELF, "s2_results") and e.data["value"] == ev.data["target"][1] for e in it.events)
        okret = len(it.returns) >= 1 and it.returns[-1].data["value"] == ev.data["target"][1]
        run.ob("R-ALG", fq, f"{tag}:return", True if (okattr and okret) else None, "the array is cached on the instance and returned", "", witness=None if okattr and okret else "cache/return differ", loc=fi.loc())


# ====================================================================== tetrahedral
def check_tetrahedral(run, pkg):
    it = interp(pkg, "static.geometric.q8_tetrahedral")
    fi = it.fi
    fq = short(fi.qual)
    acc = [e for e in stores(it) if e.data["op"] == "+" and len(e.loops) == 2]
    if not acc:
        raise AnalysisError(f"{fq}: pair accumulation not found")
    Lf, Li = it.loops[acc[0].loops[0]], it.loops[acc[0].loops[1]]
    n, snap, i = ("elem", Lf.target, 0), ("elem", Lf.target, 1), Li.target
    loc = loc_of(it, acc[0])
    okf = tri_lazy(lambda: eqv(Lf.iter, ("call", "builtins.enumerate", (("attr", ("sym", "snapshots"), "snapshots"),), ())), lambda: eqv(Li.iter, ("call", "builtins.range", (("attr", snap, "nparticle"),), ())))
    run.ob("R-LOOPDOM", fq, "domain", okf, "every particle of every frame gets a value", "", witness=None if okf else "entries skipped", loc=loc, sound=True)
    pairs = []
    NB = D = RV = None
    verdicts = []
    # a minimum image written out (or moved into a new helper) anywhere in the accumulated terms is decided by the shared
    # machinery (recorded there, reported by the driver as R-PBC)
    try:
        from . import grlib as _gl
        from ..vg import strip_alloc as _sa
        _gl.find_inline_image(_sa(acc[0].data["value"]))
    except Exception:  # noqa
        pass
    for e in acc:
        v = e.data["value"]
        # ((dot(R[nb[j]], R[nb[k]]) / (d[nb[j]] * d[nb[k]])) + 1/3) ** 2
        c = sp.Symbol("c")
        dots = [x for x in walk(v) if x[0] == "call" and x[1] == "numpy.dot"]
        if len(dots) != 1:
            verdicts.append(None)
            continue
        a, b = dots[0][2]
        if not (a[0] == "sub" and b[0] == "sub" and a[1] == b[1] and a[2][0] == "sub" and b[2][0] == "sub" and a[2][1] == b[2][1] and is_const(a[2][2]) and is_const(b[2][2])):
            verdicts.append(None)
            continue
        RV, NB = a[1], a[2][1]
        j, k = a[2][2][1], b[2][2][1]
        pairs.append((j, k))
        den = None
        for x in walk(v):
            if x[0] == "bin" and x[1] == "/" and x[2] == dots[0]:
                den = x[3]
        okden = den is not None and den[0] == "bin" and den[1] == "*" and {den[2], den[3]} == {("sub", den[2][1], ("sub", NB, C(j))), ("sub", den[2][1], ("sub", NB, C(k)))} if den is not None and den[2][0] == "sub" else False
        if okden:
            D = den[2][1]
        cosv = ("bin", "/", dots[0], den) if den is not None else None
        tr = S.Translator(lambda t: c if t == cosv else None)
        try:
            g = tr.tr(v)
            # a polynomial in the recognised cosine only: the normal-form comparison decides
            okq = tri(S.decide_equal(g, (c + sp.Rational(1, 3)) ** 2)[0] if not tr.atoms else None, True if okden else None)
        except Exception:  # noqa
            okq = None
        verdicts.append(tri(okq, eqv(e.data["target"][2], ("tuple", (n, i)))))
    okform = tri(*verdicts) if verdicts else None
    run.ob("R-ALG", fq, "pair-term", okform, "each pair contributes (cos psi_jk + 1/3)^2 with cos = r_j . r_k / (|r_j||r_k|) of the same two neighbours, accumulated at [n, i]", f"{len(acc)} pair terms",
           witness=None if okform else "pair term differs from (cos + 1/3)^2", loc=loc, sound=True)
    want_pairs = sorted(itertools.combinations(range(4), 2))
    # the unrolled constant (j, k) of every accumulation statement: a finite set compared exactly (only when all were read)
    okp = True if sorted(pairs) == want_pairs else (False if len(pairs) == len(acc) else None)
    run.ob("R-LOOPDOM", fq, "pairs", okp, "all six pairs j < k of the four neighbours are visited once", str(sorted(pairs)), witness=None if okp else f"pairs visited {sorted(pairs)} instead of {want_pairs}", loc=loc, sound=True)
    if NB is None:
        return
    # neighbours: [j for j in cand if j != i], cand = argpartition(d, 5)[:5]
    oknb = None                 # a form the rule does not know is undecided, never a violation
    cand = None
    if NB[0] == "comp" and len(NB[3]) == 1:
        cv, src, conds = NB[3][0]
        oknb = tri_lazy(lambda: (True if (NB[2] == cv) else None), lambda: (True if (len(conds) == 1) else None), lambda: eqv(conds[0], ("cmp", "!=", cv, i), ("cmp", "!=", i, cv)))
        cand = src
    elif NB[0] == "sub" and NB[2][0] == "cmp" and NB[2][1] == "!=" and NB[1] in (NB[2][2], NB[2][3]):
        # boolean-mask spelling: cand[cand != i]
        other = NB[2][3] if NB[2][2] == NB[1] else NB[2][2]
        oknb = eqv(other, i)
        cand = NB[1]
    else:
        # no test against the particle's own index, no deletion, and every slice keeps the head of the candidate list: nothing
        # can have removed the particle itself (it is always among its own 5 nearest, at distance 0)
        filt = any((x[0] in ("cmp", "comp", "phi")) or (x[0] == "call" and isinstance(x[1], str) and x[1].split(".")[-1] in ("delete", "setdiff1d", "isin", "where", "nonzero", "flatnonzero", "compress", "extract", "remove", "pop"))
                   for x in walk(NB))
        heads = all(x[1] in (NONE, C(0)) for x in walk(NB) if x[0] == "slice")
        if not filt and heads:
            oknb = False
    run.ob("R-SELECTK", fq, "drop-self", oknb, "the particle itself is removed from the candidates by its index", show(NB)[-60:], witness=None if oknb else "the particle itself may remain among the four (distance 0: cos undefined)", loc=loc, sound=True)
    if cand is not None:
        ops = []
        try:
            decode(cand, ops)
            st, problems = run_pipeline(ops, ops[0][1], {}, None)
            if problems:
                okk = False if any(p_[2] for p_ in problems) else None
            elif (st["kind"] == "set" and st["set"][0] == "smallest" and st["set"][1] == 5) or (st["kind"] == "ranks" and st.get("lo") == 0 and st.get("hi") == 5):
                okk = True
            elif st["kind"] == "set" and st["set"][0] == "smallest" and getattr(st["set"][1], "is_Integer", False):
                okk = False        # a different constant number of candidates
            else:
                okk = None
            dist_t = ops[0][1]
            run.ob("R-SELECTK", fq, "four-nearest", okk, "candidates = the 5 smallest distances (4 neighbours + the particle itself)", " -> ".join(o[0] for o in ops) + f" ; {[p[1][:80] for p in problems]}",
                   witness=None if okk else (problems[0][1] if problems else "the prefix of argpartition does not hold the 5 smallest distances / not 4 neighbours"), loc=loc, sound=True)
            okD = eqv(D, dist_t) if D is not None else None
            run.ob("R-ALIGN", fq, "same-distances", okD, "the norms in cos psi are the distances used for the selection", "", witness=None if okD else "other norms", loc=loc, sound=True)
            inner = is_rowwise_norm(dist_t)
            pa = pbc_args(inner) if inner is not None else None
            if pa is None:
                run.ob("R-PBC", fq, "image", False if (inner is not None and pair_difference(inner) and no_wrap_possible(dist_t)) else None, "distances are minimum-image distances", show(dist_t)[:80], witness="neighbours across the boundary are missed", loc=loc, sound=True)
            else:
                pdiff = pair_difference(pa[0])
                okd = tri(True if (pdiff is not None and pdiff["snap"] == snap and {show(pdiff["left"]), show(pdiff["right"])} == {show(FULL), show(i)}) else None, eqv(pa[1], ("attr", snap, "hmatrix")), eqv(pa[2], ("sym", "ppp")) if pa[2] is not None else False)
                run.ob("R-PBC", fq, "vectors", okd, "bond vectors = remove_pbc(positions - positions[i], frame's cell, mask), and the same vectors enter the dot products", show(pa[0])[:80],
                       witness=None if okd else "vectors / cell / mask wrong", loc=loc, sound=True)
                okrv = True if RV == inner else (False if RV == pa[0] else None)
                run.ob("R-ALIGN", fq, "same-vectors", okrv, "dot products use the imaged vectors whose norms were taken", "", witness=None if okrv else "unimaged vectors in the dot product", loc=loc, sound=True)
        except AnalysisError as ex_:
            run.ob("R-SELECTK", fq, "four-nearest", None, "selection recognised", str(ex_)[:100], loc=loc)
    ret = it.returns[0].data["value"]
    Ssym = sp.Symbol("S")
    R0 = acc[0].data["target"][1]
    check_algebra(run, "R-ALG", it, "normalisation", "q_tetra = 1 - (3/8)/4 sum = 1 - 3/32 sum_{j<k} (cos + 1/3)^2", ret, 1 - sp.Rational(3, 32) * Ssym, lambda t: Ssym if t == R0 else None, fi.loc())


# ====================================================================== nematic
def check_nematic(run, pkg):
    CLS = "static.nematic.NematicOrder"
    for nb in (False, True):
        for eig in (False, True):
            def assume(c, nb=nb, eig=eig):
                if c == ("sym", "neighborfile"):
                    return nb
                if c == ("sym", "eigvals"):
                    return eig
                return None
            it = Interp(pkg, pkg.func(f"{CLS}.tensor"), bind={"ndim": C(2)}, assume=assume)
            fi = it.fi
            fq = short(fi.qual)
            tag = f"{'cg' if nb else 'raw'}/{'eig' if eig else 'trace'}"
            if nb is False and eig is False:
                q = [e for e in stores(it) if len(e.loops) == 2 and e.data["target"][2][0] == "tuple" and len(e.data["target"][2][1]) == 3]
                Li = it.loops[q[0].loops[1]] if q else None
                seen = {}
                okq = True if q else None
                for e in q:
                    i_, x, y = e.data["target"][2][1]
                    if not (is_const(x) and is_const(y)):
                        okq = None
                        continue
                    mu = ("sub", ("attr", it.loops[e.loops[0]].target, "positions"), Li.target)
                    a, b = sp.symbols("ux uy")
                    comp_ = {0: a, 1: b}

                    def at(t, mu=mu):
                        if t[0] == "sub" and t[1] == mu and is_const(t[2]):
                            return comp_.get(t[2][1])
                        if t[0] == "call" and t[1] == "PyMatterSim.utils.funcs.kronecker" and all(is_const(z) for z in t[2]):
                            return sp.Integer(1 if t[2][0][1] == t[2][1][1] else 0)
                        return None
                    tr = S.Translator(at)
                    try:
                        g = tr.tr(e.data["value"])
                        want = (2 * comp_[x[1]] * comp_[y[1]] - (1 if x[1] == y[1] else 0)) / 2
                        # polynomial in the two orientation components only: exact comparison
                        ok1 = tri(bool(sp.expand(g - want) == 0) if not tr.atoms else None, eqv(i_, Li.target))
                    except Exception:  # noqa
                        ok1 = None
                    seen[(x[1], y[1])] = ok1
                okq = tri(okq, True if set(seen) == {(0, 0), (0, 1), (1, 0), (1, 1)} else None, *seen.values())
                run.ob("R-ALG", fq, "Q", okq, "Q_i[x, y] = (d u_x u_y - delta_xy)/2 for all four entries, u = orientation of particle i (d = 2)", str(seen), witness=None if okq else "Q tensor entry wrong / missing", loc=fi.loc(), sound=True)
                itk = interp(pkg, "utils.funcs.kronecker")
                okk = tri_lazy(lambda: (True if (len(itk.returns) == 1) else None), lambda: eqv(itk.returns[0].data["value"], ("call", "builtins.int", (("cmp", "==", ("sym", "i"), ("sym", "j")),), ()), ("cmp", "==", ("sym", "i"), ("sym", "j"))))
                run.ob("R-ALG", short(itk.fi.qual), "kronecker", okk, "kronecker(i, j) = 1 if i == j else 0", show(itk.returns[0].data["value"])[:50], witness=None if okk else "delta wrong", loc=itk.fi.loc(), sound=True)
            # coarse graining
            sa = calls(it, "PyMatterSim.utils.coarse_graining.spatial_average")
            if nb:
                oks = tri_lazy(lambda: (True if (len(sa) == 1) else None), lambda: eqv(dict(sa[0].data["call"][3]).get("neighborfile"), ("sym", "neighborfile")), lambda: eqv(dict(sa[0].data["call"][3]).get("Nmax"), ("sym", "Nmax")), lambda: (True if (dict(sa[0].data["call"][3]).get("input_property", NONE)[0] == "call") else None))
                run.ob("R-ALG", fq, f"{tag}:coarse", oks, "with a neighbour file the tensors are neighbour-averaged by spatial_average (decided under C16)", show(sa[0].data["call"])[:80] if sa else "not called",
                       witness=None if oks else "neighbour list ignored", loc=fi.loc(), sound=True)
            else:
                run.ob("R-ALG", fq, f"{tag}:coarse", True if not sa else None, "without a neighbour file the raw tensors are used", f"{len(sa)} calls", witness=None if not sa else "averaged without a list", loc=fi.loc())
            # scalar
            ret = it.returns[0].data["value"] if len(it.returns) == 1 else None
            Q = None
            for e in it.events:
                if e.kind == "store" and e.data["target"] == ("attr", SELF, "QIJ"):
                    Q = e.data["value"]
            if ret is None or Q is None:
                run.ob("R-ALG", fq, f"{tag}:scalar", None, "scalar order found", "", loc=fi.loc())
                continue
            st = [e for e in stores(it) if len(e.loops) == 2 and e.data["target"][2][0] == "tuple" and len(e.data["target"][2][1]) == 2]
            if len(st) != 1:
                # whole-array form (eigvalsh / einsum over the tensor array): which tensor feeds the scalar is decided - it must be
                # the one kept as self.QIJ (the neighbour-averaged one when a neighbour file is given); the rest stays undecided
                from ..vg import strip_alloc as _sa
                feeds = [x[2][0] for x in walk(ret) if x[0] == "call" and x[1] in ("numpy.linalg.eigvalsh", "numpy.linalg.eigvals", "numpy.linalg.eig", "numpy.linalg.eigh") and x[2]]
                feeds += [a_ for x in walk(ret) if x[0] == "call" and x[1] == "numpy.einsum" and len(x[2]) >= 2 for a_ in x[2][1:]]
                feeds = [Q if f_ == ("attr", SELF, "QIJ") else f_ for f_ in feeds]
                averaged = lambda t_: any(y[0] == "call" and y[1] == "PyMatterSim.utils.coarse_graining.spatial_average" for y in walk(t_))      # noqa: E731
                verdict, det = None, f"{len(st)} per-particle stores; {len(feeds)} whole-array tensor operands"
                if nb and feeds and averaged(Q) and any(not averaged(f_) for f_ in feeds):
                    verdict = False
                    det = "with a neighbour file self.QIJ holds the neighbour-averaged tensors, but the scalar is computed from the raw per-particle tensors"
                run.ob("R-ALG", fq, f"{tag}:scalar", verdict, "the scalar order is computed from the tensors kept as self.QIJ (neighbour-averaged when a neighbour file is given)", det,
                       witness=None if verdict is not False else "eigvals / trace with a neighbour file: the result equals the one without the file (1 for every particle in 2D), not the order of the averaged tensor",
                       loc=fi.loc(), sound=True)
                continue
            e = st[0]
            nn, ii = e.data["target"][2][1]
            Qni = ("sub", Q, ("tuple", (nn, ii)))
            if eig:
                want = ("bin", "*", ("call", ".max", (("sub", ("call", "numpy.linalg.eig", (Qni,), ()), C(0)),), ()), C(2.0))
                alts = [want, ("bin", "*", C(2.0), want[2]), ("bin", "*", want[2], C(2)), ("bin", "*", C(2), want[2]),
                        ("bin", "*", ("call", ".max", (("call", "numpy.linalg.eigvalsh", (Qni,), ()),), ()), C(2.0)), ("bin", "*", ("call", ".max", (("call", "numpy.linalg.eigvals", (Qni,), ()),), ()), C(2.0))]
                ok = tri(eqv(e.data["value"], *alts, same=True), True if ret == e.data["target"][1] else None)
                wit_e = "not twice the largest eigenvalue"
                if ok is None and nb:
                    # per-particle store whose eigen-decomposition is fed from another tensor than the one kept as self.QIJ
                    avg_ = lambda t_: any(y[0] == "call" and y[1] == "PyMatterSim.utils.coarse_graining.spatial_average" for y in walk(t_))      # noqa: E731
                    fe = [x[2][0] for x in walk(e.data["value"]) if x[0] == "call" and x[1] in ("numpy.linalg.eig", "numpy.linalg.eigvalsh", "numpy.linalg.eigvals", "numpy.linalg.eigh") and x[2]]
                    fe = [Q if f_ == ("attr", SELF, "QIJ") else f_ for f_ in fe]
                    if fe and avg_(Q) and all(not avg_(f_) and not any(y == ("attr", SELF, "QIJ") for y in walk(f_)) for f_ in fe):
                        ok = False
                        wit_e = "with a neighbour file the eigenvalues are taken of the raw per-particle tensors, not of the neighbour-averaged ones kept as self.QIJ"
                run.ob("R-ALG", fq, f"{tag}:scalar", ok, "eigen variant: S_i = 2 x largest eigenvalue of Q_i", show(e.data["value"])[:80], witness=None if ok else wit_e, loc=loc_of(it, e), sound=True)
            else:
                okt = eqv(e.data["value"], ("call", "numpy.trace", (("call", "numpy.matmul", (Qni, Qni), ()),), ()), ("call", "numpy.trace", (("bin", "@", Qni, Qni),), ()))
                T = sp.Symbol("T", positive=True)
                arr = e.data["target"][1]
                try:
                    g = S.Translator(lambda t: T if t == arr else None, True).tr(ret)
                    okf = S.decide_equal(g, sp.sqrt(T * 2 / (2 - 1)))[0]
                except Exception:  # noqa
                    okf = None
                run.ob("R-ALG", fq, f"{tag}:scalar", tri(okt, okf), "trace variant: S_i = sqrt(d/(d-1) tr(Q_i Q_i))", f"{show(e.data['value'])[:60]} ; {show(ret)[:60]}", witness=None if okt and okf else "scalar order differs from sqrt(d/(d-1) tr Q^2)", loc=loc_of(it, e), sound=True)
            okdom = all(it.loops[l].iter[0] == "call" and it.loops[l].iter[1] == "builtins.range" for l in e.loops)
            run.ob("R-LOOPDOM", fq, f"{tag}:domain", True if okdom else None, "all frames and particles get a scalar", "", witness=None if okdom else "entries skipped", loc=loc_of(it, e))


# ====================================================================== gyration
def check_gyration(run, pkg):
    for ndim in (2, 3):
        def assume(c, ndim=ndim):
            if c[0] == "cmp" and c[1] == "==" and is_const(c[3]) and c[2] == ("elem", ("attr", ("sym", "pos_group"), "shape"), 1):
                return c[3][1] == ndim
            return None
        it = Interp(pkg, pkg.func("static.shape.gyration_tensor"), assume=assume)
        fi = it.fi
        fq = short(fi.qual)
        tag = f"{ndim}D"
        P0 = ("sym", "pos_group")
        N = ("elem", ("attr", P0, "shape"), 0)
        st = [e for e in stores(it) if e.data["target"][2][0] == "tuple" and len(e.data["target"][2][1]) == 2 and all(is_const(x) for x in e.data["target"][2][1])]
        ent = {}
        Pc = None
        for e in st:
            m, n_ = (x[1] for x in e.data["target"][2][1])
            v = e.data["value"]
            # (mu + P[i, m] * P[i, n]) / N
            sa = split_acc(v[2]) if (v[0] == "bin" and v[1] == "/" and v[3] == N) else None
            ok1 = eqv(sa[0][3], C(0), C(0.0), same=True) if sa is not None else None
            if ok1:
                t = sa[1]
                L = it.loops[sa[0][1]]
                iv = L.target
                ok1 = tri(eqv(L.iter, ("call", "builtins.range", (N,), ())), True if (t[0] == "bin" and t[1] == "*" and t[2][0] == "sub" and t[3][0] == "sub" and t[2][1] == t[3][1]) else None)
                if ok1:
                    Pc = t[2][1]
                    a1, a2 = tri(eqv(t[2][2], ("tuple", (iv, C(m)))), eqv(t[3][2], ("tuple", (iv, C(n_))))), tri(eqv(t[2][2], ("tuple", (iv, C(n_)))), eqv(t[3][2], ("tuple", (iv, C(m)))))
                    ok1 = True if (a1 is True or a2 is True) else (False if (a1 is False and a2 is False) else None)
            elif sa is None and v == ("sub", e.data["target"][1], ("tuple", (C(n_), C(m)))):
                ok1 = "mirror"
            ent[(m, n_)] = ok1
        for key_, v_ in list(ent.items()):
            if v_ == "mirror":
                ent[key_] = ent.get((key_[1], key_[0])) if ent.get((key_[1], key_[0])) != "mirror" else None
        okv = tri(*ent.values()) if ent else None
        want = {(a, b) for a in range(ndim) for b in range(ndim)}
        okcov = True if set(ent) == want else None
        run.ob("R-LOOPDOM", fq, f"{tag}:entries", okcov, f"all {ndim * ndim} entries of the tensor are assigned (upper triangle + mirror)", str(sorted(ent)), witness=None if okcov else f"entries {sorted(want - set(ent))} stay 0", loc=fi.loc(), sound=True)
        run.ob("R-ALG", fq, f"{tag}:moment", okv, "S_mn = (1/N) sum_i p_im p_in over all particles, mirrored", "", witness=None if okv else "second moment wrong", loc=fi.loc(), sound=True)
        okc = (Pc[0] == "bin" and Pc[1] == "-" and Pc[2] == P0 and row_bcast(Pc[3]) in (("call", ".mean", (P0,), (("axis", C(0)),)), ("call", "numpy.mean", (P0,), (("axis", C(0)),)))) if Pc is not None else None
        if Pc == P0:
            okc = False     # moments of the raw coordinates: definitely not centred
        run.ob("R-ALG", fq, f"{tag}:centred", okc, "coordinates are centred on their mean (centre of mass) before the moments are taken, out of place", show(Pc)[:80] if Pc else "?",
               witness="tensor is not translation invariant: shifting the cloud changes every descriptor", loc=fi.loc(), sound=(Pc == P0))
        ret = it.returns[0].data["value"] if len(it.returns) == 1 else None
        if ret is None or ret[0] != "list":
            run.ob("R-ALG", fq, f"{tag}:descriptors", None, "descriptor list returned", show(ret)[:60] if ret else f"{len(it.returns)} returns", loc=fi.loc())
            continue
        T = st[0].data["target"][1] if st else None
        pc = None
        pc_full = None
        descending = False
        REV = ("slice", NONE, NONE, C(-1))
        direct_pc = None
        for e in it.events:
            if e.kind == "assign":
                v_ = e.data["value"]
                if v_[0] == "call" and v_[1] == "numpy.sort":
                    pc = pc_full = v_
                elif v_[0] == "sub" and v_[2] == REV and v_[1][0] == "call" and v_[1][1] == "numpy.sort":
                    pc, pc_full, descending = v_[1], v_, True
                elif v_[0] == "call" and v_[1] == "numpy.linalg.eigvalsh" and pc is None:
                    # eigvalsh returns the eigenvalues in ascending order (numpy's documented contract): no sort needed
                    pc = pc_full = ("call", "numpy.sort", (v_,), ())
                    direct_pc = v_
        okpc = tri_lazy(lambda: (True if (pc is not None) else None), lambda: eqv(pc[2][0], ("sub", ("call", "numpy.linalg.eig", (T,), ()), C(0)), ("call", "numpy.linalg.eigvalsh", (T,), ()), ("call", "numpy.linalg.eigvals", (T,), ()), same=True), lambda: (True if (not pc[3]) else None))
        run.ob("R-ALG", fq, f"{tag}:eigenvalues", okpc, "principal components = the sorted eigenvalues of the tensor" + (" (kept in descending order: index k is eigenvalue d-1-k)" if descending else ""), show(pc_full)[:80] if pc else "?",
               witness=None if okpc else "eigenvalues of another matrix", loc=fi.loc(), sound=True)
        if okpc is True and set(ent) != want and T is not None:
            # the eigenvalues are taken of the allocated array itself and the constant-index stores are the only writes to it
            other_w = [e for e in it.events if e.kind == "store" and e.data["target"][1] == T and e not in st]
            if not other_w:
                run.ob("R-LOOPDOM", fq, f"{tag}:entries-complete", False, f"all {ndim * ndim} entries of the tensor are assigned before the eigenvalues are taken", str(sorted(ent)),
                       witness=f"entries {sorted(want - set(ent))} stay 0: the tensor of a generic cloud loses its off-diagonal coupling", loc=fi.loc(), sound=True)
        lam = [sp.Symbol(f"lam{k}", positive=True) for k in range(3)]
        Np = sp.Symbol("N", positive=True)
        tot = sum(lam[:ndim])

        pcs = [pc_full] + ([direct_pc] if direct_pc is not None else [])

        def at(t):
            if pc is not None and t[0] == "sub" and t[1] in pcs and is_const(t[2]) and isinstance(t[2][1], int) and -ndim <= t[2][1] < ndim:
                k_ = t[2][1] % ndim            # the array holds exactly `ndim` eigenvalues: a negative index counts from its end
                return lam[ndim - 1 - k_] if descending else lam[k_]
            if pc is not None and any(t in (("call", ".sum", (p_,), ()), ("call", "numpy.sum", (p_,), ())) for p_ in pcs):
                return tot
            if t == N:
                return Np
            return None
        Rg = sp.sqrt(tot)
        frac = sp.log(Np, 10) / sp.log(Rg, 10)
        if ndim == 3:
            b = sp.Rational(3, 2) * lam[2] - tot / 2
            cc = lam[1] - lam[0]
            wants = [("Rg", Rg), ("asphericity", b), ("acylindricity", cc), ("anisotropy", (b ** 2 + sp.Rational(3, 4) * cc ** 2) / Rg ** 4), ("fractal", frac)]
        else:
            wants = [("Rg", Rg), ("acylindricity", lam[1] - lam[0]), ("fractal", frac)]
        oklen = len(ret[1]) == len(wants)
        run.ob("R-ALG", fq, f"{tag}:descriptors", True if oklen else None, f"{len(wants)} descriptors are returned in the documented order", f"{len(ret[1])} values", witness=None if oklen else "list length changed", loc=fi.loc())
        for (nm, w), t in zip(wants, ret[1]):
            check_algebra(run, "R-ALG", it, f"{tag}:{nm}", f"{nm} is the documented function of the ascending eigenvalues", t, w, at, fi.loc(), positive=True)
