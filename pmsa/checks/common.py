"""Helpers shared by the per-property checks."""
from __future__ import annotations

from typing import Any, Callable, Dict, Iterable, List, Optional, Tuple

import sympy as sp

from ..model import AnalysisError, Package, norm_stmt
from ..report import Run
from ..vg import Event, Interp, Term, C, NONE, show, walk, subst, is_const, kw, interp, init_attrs, expand_self, mkbin, canon, split_acc
from .. import sym as S


def short(qual: str) -> str:
    return qual.replace("PyMatterSim.", "")


def guard_eval(guards: Iterable[Tuple[Term, bool]], ev: Callable[[Term], Optional[bool]]) -> Optional[bool]:
    """True if every guard is satisfied, False if one is refuted, None if some is unknown."""
    unknown = False
    for cond, pol in guards:
        v = ev(cond)
        if v is None:
            unknown = True
        elif v != pol:
            return False
    return None if unknown else True


def eval_bool(cond: Term, leaf: Callable[[Term], Optional[bool]]) -> Optional[bool]:
    """Three-valued evaluation of a boolean term; `leaf` decides atomic conditions."""
    r = leaf(cond)
    if r is not None:
        return r
    if is_const(cond):
        return bool(cond[1])
    if cond[0] == "un" and cond[1] == "not":
        v = eval_bool(cond[2], leaf)
        return None if v is None else (not v)
    if cond[0] == "bool":
        vals = [eval_bool(x, leaf) for x in cond[2]]
        if cond[1] == "and":
            if any(v is False for v in vals):
                return False
            return True if all(v is True for v in vals) else None
        if any(v is True for v in vals):
            return True
        return False if all(v is False for v in vals) else None
    if cond[0] == "bin" and cond[1] in ("&", "|"):
        a, b = eval_bool(cond[2], leaf), eval_bool(cond[3], leaf)
        if cond[1] == "&":
            if a is False or b is False:
                return False
            return True if (a and b) else None
        if a is True or b is True:
            return True
        return False if (a is False and b is False) else None
    return None


def selected_returns(it: Interp, ev: Callable[[Term], Optional[bool]]) -> List[Event]:
    """Return events that may execute under the partial valuation `ev` of guard conditions."""
    out = []
    for r in it.returns:
        if guard_eval(r.guards, lambda c: eval_bool(c, ev)) is not False:
            out.append(r)
    return out


def stores(it: Interp, pred: Optional[Callable[[Event], bool]] = None) -> List[Event]:
    return [e for e in it.events if e.kind == "store" and (pred is None or pred(e))]


def calls(it: Interp, fname: Optional[str] = None) -> List[Event]:
    return [e for e in it.events if e.kind == "call" and (fname is None or e.data["call"][1] == fname)]


def key_of(ev: Event) -> str:
    return norm_stmt(ev.node)


def loc_of(it: Interp, ev: Event) -> str:
    return f"{it.fi.relpath}:{ev.lineno}"


def check_algebra(run: Run, rule: str, it: Interp, key: str, what: str, got: Term, ref: sp.Expr,
                  atom_of: Callable[[Term], Optional[sp.Expr]], loc: str = "", positive: bool = False,
                  trig: bool = False, prep: Optional[Callable[[sp.Expr], sp.Expr]] = None,
                  strict_atoms: bool = True) -> Optional[bool]:
    tr = S.Translator(atom_of, positive)
    try:
        g = tr.tr(got)
    except Exception as e:  # noqa
        return run.ob(rule, short(it.fi.qual), key, None, what, f"term not translatable: {e}", loc=loc)
    if prep is not None:
        ok, how = S.decide_equal(prep(g), prep(ref), trig=trig)
    else:
        ok, how = S.decide_equal(g, ref, trig=trig)
    if ok is True:
        return run.ob(rule, short(it.fi.qual), key, True, what, f"normal forms equal ({how})", loc=loc)
    if ok is False and strict_atoms and tr.atoms:
        return run.ob(rule, short(it.fi.qual), key, None, what,
                      f"differs from the reference but involves constructs without a known role: {sorted(tr.atoms)[:4]}; "
                      f"code {sp.sstr(g)[:160]}", loc=loc)
    if ok is False:
        return run.ob(rule, short(it.fi.qual), key, False, what,
                      f"code computes {sp.sstr(g)[:300]}; reference {sp.sstr(ref)[:300]}", witness=how, loc=loc, sound=True)
    return run.ob(rule, short(it.fi.qual), key, None, what, f"code {sp.sstr(g)[:200]} vs reference {sp.sstr(ref)[:200]}: {how}", loc=loc)


def eq_terms(a: Term, b: Term):
    """(True | False | None, how): value-graph terms compared through the exact normaliser.  False only with a sound reason:
    the two sides are built from the same uninterpreted constructs and differ arithmetically, or every construct that occurs on
    one side only is the same accessor/reduction as one on the other side at a definitely different index / axis / constant."""
    from ..vg import strip_alloc
    a, b = strip_alloc(a), strip_alloc(b)
    if a == b:
        return True, "identical terms"
    if _is_index_expr(a) and _is_index_expr(b):
        # integer expressions over loop variables / parameters: equal iff their polynomial normal forms are equal
        lv = {}

        def at(t):
            if t[0] in ("loopvar", "elem", "sym", "attr", "sub"):
                return lv.setdefault(t, sp.Symbol(f"i{len(lv)}", integer=True))
            return None
        try:
            tr = S.Translator(at)
            tr.ufuncs = False
            ea, eb = tr.tr(a), tr.tr(b)
            if not tr.atoms:
                if sp.expand(ea - eb) == 0:
                    return True, "equal index expressions"
                # a definite difference needs free quantities: counters, parameters and numbers.  Variables that take the
                # elements of a container (and components of such structured loop targets) are data - two of them, or one of
                # them and a counter, may well denote the same particle
                def _data(t_):
                    b_ = t_
                    while b_[0] in ("elem", "sub"):
                        b_ = b_[1]
                    return (b_[0] == "loopvar" and len(b_) > 3) or t_[0] in ("sub", "attr")
                if not any(_data(t_) for t_ in lv):
                    return False, f"index expression {show(a)[:40]} where {show(b)[:40]} is required"
                why_ = S.term_definite_difference(a, b)     # same data reads on both sides, differing in counters / constants
                if why_:
                    return False, f"index expression {show(a)[:40]} where {show(b)[:40]} is required ({why_})"
        except Exception:  # noqa
            pass
    try:
        tr = S.Translator()
        x, y = tr.tr(a), tr.tr(b)
        ok, how = S.decide_equal(x, y)
    except Exception as e:  # noqa
        ok, how = None, f"not comparable: {type(e).__name__}"
    if ok is None:
        # same shape, differing only in an index / constant / comparator / attribute / reduction kind
        why = S.term_definite_difference(a, b)
        if why:
            return False, f"code has {show(a)[:60]} where {show(b)[:60]} is required ({why})"
    return ok, how


def _is_index_expr(t: Term) -> bool:
    k = t[0]
    if k == "const":
        return isinstance(t[1], int) and not isinstance(t[1], bool)
    if k in ("loopvar", "sym"):
        return True
    if k == "elem":
        return t[1][0] == "loopvar"
    if k == "attr":
        return t[2] in ("nparticle", "nsnapshots")        # integer counts
    if k in ("sub", "elem") and t[1][0] == "attr" and t[1][2] == "shape":
        return True
    if k == "bin":
        return t[1] in ("+", "-", "*") and _is_index_expr(t[2]) and _is_index_expr(t[3])
    if k == "un":
        return t[1] in ("-", "+") and _is_index_expr(t[2])
    return False


def eqv(got: Optional[Term], *wants: Term, same: bool = False) -> Optional[bool]:
    """Tri-state equality of a term with any of the accepted forms: True (identical or provably equal), False (definitely a
    different quantity than every accepted form), None (a form the rule cannot decide - never a violation).
    same=True: the accepted forms are spellings of one quantity, so a definite difference from one of them is a definite
    difference from all."""
    if got is None:
        return None
    got = canon(got)
    res = []
    for w in wants:
        w = canon(w)
        if got == w:
            return True
    for w in wants:
        ok, _ = eq_terms(got, canon(w))
        if ok:
            return True
        res.append(ok)
    if res and (all(r is False for r in res) or (same and any(r is False for r in res))):
        return False
    return None


def tri(*vals) -> Optional[bool]:
    """three-valued conjunction"""
    if any(v is False for v in vals):
        return False
    if all(v is True for v in vals):
        return True
    return None


def tri_lazy(*thunks) -> Optional[bool]:
    """three-valued `and` with short-circuit: the first operand that is not True (None = undecided, False = definitely not)
    is the result; later operands are not evaluated (they may rely on the earlier ones having held)."""
    for th in thunks:
        try:
            v = th()
        except (TypeError, IndexError, KeyError, AttributeError):
            return None
        if v is not True:
            return False if v is False else None
    return True


def why_not(got: Optional[Term], want: Term) -> str:
    if got is None:
        return "missing"
    ok, how = eq_terms(canon(got), canon(want))
    return how


def enum_members(pkg: Package, clsqual: str) -> List[str]:
    ci = pkg.cls(clsqual)
    if not ci.is_enum or not ci.enum_members:
        raise AnalysisError(f"{clsqual} is not an Enum with members")
    return list(ci.enum_members)


def is_self_attr(t: Term, name: Optional[str] = None, selfname: str = "self") -> bool:
    return t[0] == "attr" and t[1] == ("sym", selfname) and (name is None or t[2] == name)


ELEMENTWISE_FUNCS = {"numpy.sqrt", "numpy.square", "numpy.abs", "numpy.exp", "numpy.log", "numpy.cos", "numpy.sin",
                     "numpy.conj", "numpy.real", "numpy.power"}


def push_sub(t: Term) -> Term:
    """Distribute constant subscripts over element-wise arithmetic: (a / b)[k] -> a[k] / b[k]."""
    def fn(x: Term):
        if x[0] == "sub" and (is_const(x[2]) or x[2][0] in ("slice", "loopvar", "elem")):
            b = x[1]
            if b[0] == "bin" and b[1] in ("+", "-", "*", "/", "**"):
                return ("bin", b[1], fn(("sub", b[2], x[2])) or ("sub", b[2], x[2]), fn(("sub", b[3], x[2])) or ("sub", b[3], x[2]))
            if b[0] == "un" and b[1] in ("-", "+"):
                return ("un", b[1], fn(("sub", b[2], x[2])) or ("sub", b[2], x[2]))
            if b[0] == "const" and isinstance(b[1], (int, float, complex)):
                return b
            if b[0] == "call" and b[1] in ELEMENTWISE_FUNCS and not b[3]:
                return ("call", b[1], tuple(fn(("sub", a, x[2])) or ("sub", a, x[2]) for a in b[2]), ())
        return None
    return subst(t, fn)


class NotEvaluable(Exception):
    pass


def eval_num(t: Term, env: Dict[Term, Any]):
    """Concrete Python-semantics value of an arithmetic term (used only to turn a failed identity into a witness or to
    decide small finite domains)."""
    import math
    if t in env:
        return env[t]
    k = t[0]
    if k == "const" and isinstance(t[1], (int, float)) and not isinstance(t[1], bool):
        return t[1]
    if k == "bin":
        a, b = eval_num(t[2], env), eval_num(t[3], env)
        op = t[1]
        try:
            return {"+": lambda: a + b, "-": lambda: a - b, "*": lambda: a * b, "/": lambda: a / b, "//": lambda: a // b,
                    "%": lambda: a % b, "**": lambda: a ** b}[op]()
        except KeyError:
            raise NotEvaluable(op)
        except ZeroDivisionError:
            raise NotEvaluable("division by zero")
    if k == "un" and t[1] in ("-", "+"):
        v = eval_num(t[2], env)
        return -v if t[1] == "-" else v
    if k == "cmp" and t[1] in ("<", "<=", ">", ">=", "==", "!="):
        a, b = eval_num(t[2], env), eval_num(t[3], env)
        return {"<": a < b, "<=": a <= b, ">": a > b, ">=": a >= b, "==": a == b, "!=": a != b}[t[1]]
    if k == "phi":
        return eval_num(t[2], env) if eval_num(t[1], env) else eval_num(t[3], env)
    if k == "call" and isinstance(t[1], str):
        f = t[1]
        args = [eval_num(a, env) for a in t[2]]
        table = {"builtins.round": round, "builtins.int": int, "builtins.float": float, "builtins.abs": abs, "builtins.min": min,
                 "builtins.max": max, "numpy.floor": math.floor, "math.floor": math.floor, "numpy.ceil": math.ceil,
                 "math.ceil": math.ceil, "numpy.rint": lambda x: float(round(x)), "numpy.round": round, "numpy.around": round,
                 "numpy.trunc": math.trunc, "math.trunc": math.trunc, "numpy.abs": abs, "numpy.sqrt": math.sqrt, "math.sqrt": math.sqrt}
        if f in table and not t[3]:
            return table[f](*args)
    raise NotEvaluable(show(t)[:60])


def strip_casts(t: Term) -> Term:
    """value-preserving wrappers removed everywhere in a term: np.asarray / np.array / np.ascontiguousarray / .copy() / .astype(int|float)
    (conversions of integer ids to another integer width do not change their values)"""
    def fn(x):
        if x[0] == "call" and isinstance(x[1], str) and x[2]:
            if x[1] in ("numpy.asarray", "numpy.array", "numpy.ascontiguousarray", "numpy.copy", ".copy", "numpy.asanyarray"):
                return x[2][0]
            if x[1] == ".astype" and len(x[2]) == 2 and ("int" in show(x[2][1]) or "float" in show(x[2][1])):
                return x[2][0]
        return None
    from ..vg import subst
    prev = None
    while prev != t:
        prev, t = t, subst(t, fn)
    return t


def resolve_phi(val: Term, leaf) -> Term:
    """A conditional value (single-exit dispatcher: result assigned on if/elif/else arms, one return) reduced by the tests that
    `leaf` decides; stops at the first undecided test."""
    while isinstance(val, tuple) and val and val[0] == "phi":
        r = eval_bool(val[1], leaf)
        if r is True:
            val = val[2]
        elif r is False:
            val = val[3]
        else:
            break
    return val


def float_floordiv(t: Term) -> Optional[Term]:
    """A `//` (or np.floor_divide) node inside a count expression whose operands are floating-point quantities.  Python's float
    floor division rounds the QUOTIENT OF THE BINARY OPERANDS down: 10.0 // 0.2 == 49.0 and 1.0 // 0.1 == 9.0, although
    int(10.0 / 0.2) == 50 and int(1.0 / 0.1) == 10 - exact decimal multiples lose one unit."""
    for x in walk(t):
        if (x[0] == "bin" and x[1] == "//") or (x[0] == "call" and x[1] == "numpy.floor_divide" and len(x[2]) == 2):
            a, b = (x[2], x[3]) if x[0] == "bin" else x[2]
            # integer-only operands (loop counters, lengths, literals) are exact
            def inty(z):
                return all((y[0] == "const" and isinstance(y[1], int)) or y[0] in ("loopvar", "bin", "un") or (y[0] == "attr" and y[2] in ("nparticle", "nsnapshots", "shape")) or
                           (y[0] == "call" and y[1] in ("builtins.len", "builtins.int")) or (y[0] == "sub" and y[1][0] == "attr" and y[1][2] == "shape") for y in walk(z)
                           if y[0] not in ("tuple",))
            if not (inty(a) and inty(b)):
                return x
    return None


NARROW_FLOATS = {"numpy.float32", "numpy.float16", "numpy.half", "numpy.single"}


def _dtype_name(dt: Term) -> Optional[str]:
    if dt is None:
        return None
    if dt[0] == "mod":
        return dt[1]
    if is_const(dt) and isinstance(dt[1], str):
        return {"float32": "numpy.float32", "f4": "numpy.float32", "float16": "numpy.float16", "f2": "numpy.float16", "single": "numpy.float32", "half": "numpy.float16",
                "float": "builtins.float", "float64": "numpy.float64", "complex": "builtins.complex", "complex128": "numpy.complex128", "int": "builtins.int"}.get(dt[1], dt[1])
    if dt[0] == "builtin":
        return "builtins." + dt[1]
    return None


def dtype_casts(t: Term) -> List[Tuple[str, Term]]:
    """(dtype name, construct) for every explicit dtype in a value: `dtype=` keywords, `.astype(...)`, `np.float32(...)`-style calls"""
    out = []
    for x in walk(t):
        if x[0] != "call" or not isinstance(x[1], str):
            continue
        dt = kw(x, "dtype")
        if x[1] == ".astype" and len(x[2]) >= 2:
            dt = x[2][1]
        if x[1] in ("numpy.array", "numpy.asarray", "numpy.zeros", "numpy.ones", "numpy.empty", "numpy.full") and dt is None:
            pos = {"numpy.array": 1, "numpy.asarray": 1, "numpy.zeros": 1, "numpy.ones": 1, "numpy.empty": 1, "numpy.full": 2}[x[1]]
            if len(x[2]) > pos:
                dt = x[2][pos]
        nm = _dtype_name(dt) if dt is not None else None
        if nm:
            out.append((nm, x))
        if x[1] in NARROW_FLOATS | {"numpy.float64", "builtins.float"} and x[2]:
            out.append((x[1], x))
    return out


def narrowing_casts(t: Term) -> List[str]:
    return [f"{show(x)[:70]} ({nm.split('.')[-1]})" for nm, x in dtype_casts(t) if nm in NARROW_FLOATS]


def cell_scalar_kind(t: Term, snap: Term) -> Tuple[Optional[str], str]:
    """Classify a scalar built from one snapshot's cell data (`hmatrix`, `boxlength`) by evaluating the extracted term on three
    concrete cells (orthogonal, tilted 2-D, tilted 3-D with tilts of both signs; `boxlength` = the diagonal, as the readers set it):
    'V' (cell volume / area = det H = prod boxlength), 'Lmin' (smallest box length), or 'V?' / 'Lmin?' when the term equals that
    quantity for the orthogonal cell only - i.e. it is wrong for triclinic cells; the second value describes the differing cell."""
    import numpy as np
    from ..concrete import ev as cev
    if not any(x[0] == "attr" and x[1] == snap and x[2] in ("hmatrix", "boxlength") for x in walk(t)):
        return None, ""
    cells = [np.diag([3.0, 4.0, 5.0]), np.array([[3.0, 0.0], [1.4, 4.0]]), np.array([[3.0, 0, 0], [-1.3, 4.0, 0], [0.9, -1.7, 5.0]])]
    vals = []
    try:
        for H in cells:
            v = cev(t, {("attr", snap, "hmatrix"): H, ("attr", snap, "boxlength"): np.diag(H).copy()})
            vals.append(float(v))
    except Exception:  # noqa
        return None, ""
    vol = [abs(float(np.linalg.det(H))) for H in cells]
    lmin = [float(np.diag(H).min()) for H in cells]
    for name, ref in (("V", vol), ("Lmin", lmin)):
        close = [abs(a - b) < 1e-9 * max(1.0, abs(b)) for a, b in zip(vals, ref)]
        if all(close):
            return name, ""
        if close[0] and not all(close[1:]):
            k = 1 if not close[1] else 2
            return name + "?", (f"cell H = {cells[k].tolist()} (box lengths {np.diag(cells[k]).tolist()}): the term evaluates to {vals[k]:.6f}, "
                                f"{'the cell volume det(H)' if name == 'V' else 'the smallest box length'} is {ref[k]:.6f}")
    return None, ""


# ---------------------------------------------------------------------------------------------------- boolean masks
def bool_formula(t, atoms):
    """mask term -> nested ('and'|'or'|'not', ...) | ('atom', k) over `atoms` (list of leaf terms, appended to); None if the term
    is not a combination of masks.  `.astype(bool)`, np.logical_*, `&`, `|`, `*` (product of masks), `~`, `not` are the connectives."""
    if t[0] == "call" and t[1] == ".astype" and len(t[2]) == 2 and t[2][1] in (("builtin", "bool"), ("attr", ("mod", "numpy"), "bool_"), ("const", "bool")):
        return bool_formula(t[2][0], atoms)
    if t[0] == "bin" and t[1] in ("&", "|", "*"):
        a, b = bool_formula(t[2], atoms), bool_formula(t[3], atoms)
        if a is None or b is None:
            return None
        return ("or" if t[1] == "|" else "and", a, b)
    if t[0] == "un" and t[1] in ("~", "not"):
        a = bool_formula(t[2], atoms)
        return None if a is None else ("not", a)
    if t[0] == "call" and t[1] in ("numpy.logical_and", "numpy.logical_or") and len(t[2]) == 2:
        a, b = bool_formula(t[2][0], atoms), bool_formula(t[2][1], atoms)
        if a is None or b is None:
            return None
        return ("and" if t[1].endswith("and") else "or", a, b)
    if t[0] == "call" and t[1] == "numpy.logical_not" and len(t[2]) == 1:
        a = bool_formula(t[2][0], atoms)
        return None if a is None else ("not", a)
    if t[0] == "cmp" and t[1] in ("<", ">", "<=", ">=") and len(t) == 4:
        # orient as  lhs < rhs / lhs > rhs on a fixed operand order; <= and >= are the negations of > and <
        op, x, y = t[1], t[2], t[3]
        if repr(x) > repr(y):
            x, y = y, x
            op = {"<": ">", ">": "<", "<=": ">=", ">=": "<="}[op]
        neg = op in ("<=", ">=")
        base = {"<=": ">", ">=": "<"}.get(op, op)
        leaf = ("cmp", base, x, y)
        if leaf not in atoms:
            atoms.append(leaf)
        f = ("atom", atoms.index(leaf))
        return ("not", f) if neg else f
    if t[0] in ("const",):
        return None
    if t not in atoms:
        atoms.append(t)
    return ("atom", atoms.index(t))


def _bool_eval(f, val):
    if f[0] == "atom":
        return val[f[1]]
    if f[0] == "not":
        return not _bool_eval(f[1], val)
    a, b = _bool_eval(f[1], val), _bool_eval(f[2], val)
    return (a and b) if f[0] == "and" else (a or b)


def bool_equiv(t1, t2):
    """(True|False|None, witness): truth-table comparison of two mask terms over their leaf masks.  Decided only when both are
    combinations of the same leaves; `a < b` and `a > b` of the same operands exclude each other (both false = equality)."""
    import itertools as _it
    atoms = []
    f1, f2 = bool_formula(t1, atoms), bool_formula(t2, atoms)
    if f1 is None or f2 is None or not atoms or len(atoms) > 8:
        return None, ""
    a1, a2 = [], []
    bool_formula(t1, a1)
    bool_formula(t2, a2)
    fam = lambda x: ("cmpfam",) + tuple(x[2:]) if x[0] == "cmp" else x      # noqa: E731
    if {fam(x) for x in a1} != {fam(x) for x in a2}:
        return None, "the masks are built from different leaves"
    if f1[0] == "atom" and f2[0] == "atom":
        return None, ""
    excl = [(i, j) for i, x in enumerate(atoms) for j, y in enumerate(atoms) if i < j and x[0] == "cmp" and y[0] == "cmp" and x[2:] == y[2:] and {x[1], y[1]} == {"<", ">"}]
    boundary_only = False
    for val in _it.product((False, True), repeat=len(atoms)):
        if any(val[i] and val[j] for i, j in excl):
            continue
        if _bool_eval(f1, val) != _bool_eval(f2, val):
            if any(not val[i] and not val[j] for i, j in excl):
                boundary_only = True         # differs only where the two compared quantities are equal: left to the comparator rules
                continue
            from ..vg import show as _show
            return False, "masks differ for a particle with " + ", ".join(f"[{_show(a)[:50]}] = {v}" for a, v in zip(atoms, val))
    if boundary_only:
        return None, "masks agree except where the compared quantities are equal"
    return True, "truth table"
