"""C10 - 2D bond-orientational order equals the l-fold definition.

R-ANGLE   bond angle = arctan2(y, x) of the imaged neighbour - centre vector; the kernel is exp(i l theta) with the instance's l.
R-PBC     bond vectors = remove_pbc(positions[neighbours of i] - positions[i], the frame's cell, the instance mask).
R-ALG     unweighted: mean over the bonds; weighted: sum of w_k exp(i l theta_k) with w / sum|w|, no further division;
          time average: complex average or modulus x exp(i phase) of separately averaged modulus and phase.
R-ALIGN   weight k belongs to neighbour k (columns 1..cn_i of both tables); value stored at [frame, particle].
R-IDX     neighbours of i are columns 1..cn_i of its row.
R-HANDLE  weights are read once per frame from the weights file.
R-SIB     the weighted and the unweighted arm compute the same bond angles.
"""
from __future__ import annotations

import sympy as sp

from .common import *  # noqa
from .boolib import *  # noqa
from .grlib import no_wrap_possible
from ..vg import Interp

CLS = "static.boo.boo_2d"
SELF = ("sym", "self")
SNAPS = ("attr", ("attr", SELF, "snapshots"), "snapshots")
LDEG = ("attr", SELF, "l")
WF = ("attr", SELF, "weightsfile")
PHI = ("attr", SELF, "ParticlePhi")


def run(run: Run, pkg: Package) -> None:
    run.explanation = (
        "boo_2d.lthorder is interpreted for the unweighted and the weighted configuration; the bond vectors, the angle, the "
        "kernel exp(i l theta), the averaging / weighting form, the weight-neighbour alignment and the storage slot are matched "
        "with the definition. time_average, spatial_corr and time_corr are checked for the quantities they hand to the shared "
        "routines (decided under C16, C13, C14).")
    angles = {}
    for weighted in (False, True):
        angles[weighted] = check_lth(run, pkg, weighted)
    if angles[False] is not None and angles[True] is not None:
        same = eqv(angles[False], angles[True])
        run.ob("R-SIB", short(f"PyMatterSim.{CLS}.lthorder"), "same-angles", same, "weighted and unweighted arms use the same bond-angle expression", "",
               witness=None if same else "equal weights do not reproduce the unweighted result", loc="", sound=True)
    check_init(run, pkg)
    check_time_average(run, pkg)
    check_corr(run, pkg)
    run.minimum("R-ANGLE", 4)
    run.minimum("R-PBC", 6)
    run.minimum("R-ALG", 8)


def lth_interp(pkg, weighted):
    def assume(c):
        if c == WF:
            return weighted
        if c == ("un", "not", WF):
            return not weighted
        return None
    return Interp(pkg, pkg.func(f"{CLS}.lthorder"), assume=assume)


def check_lth(run, pkg, weighted):
    it = lth_interp(pkg, weighted)
    fi = it.fi
    fq = short(fi.qual)
    v = "weighted" if weighted else "plain"
    st = [e for e in stores(it) if len(e.loops) == 2 and e.data["target"][2][0] == "tuple" and any(x[0] == "call" and x[1] == "numpy.exp" for x in walk(e.data["value"]))]
    if len(st) != 1:
        raise AnalysisError(f"{fq}[{v}]: expected one per-particle store of the order parameter, found {len(st)}")
    ev = st[0]
    loc = loc_of(it, ev)
    Lf, Li = it.loops[ev.loops[0]], it.loops[ev.loops[1]]
    okf = eqv(Lf.iter, ("call", "builtins.enumerate", (SNAPS,), ()))
    n, snap, i = ("elem", Lf.target, 0), ("elem", Lf.target, 1), Li.target
    run.ob("R-LOOPDOM", fq, f"{v}:frames", okf, "every frame is processed with its index", show(Lf.iter)[:60], witness=None if okf else "frames skipped", loc=fi.loc(Lf.node), sound=True)
    okp = eqv(Li.iter, ("call", "builtins.range", (("attr", snap, "nparticle"),), ()))
    run.ob("R-LOOPDOM", fq, f"{v}:particles", okp, "every particle gets a value", show(Li.iter)[:60], witness=None if okp else "particles skipped", loc=fi.loc(Li.node), sound=True)
    R = ev.data["target"][1]
    okslot = tri_lazy(lambda: eqv(ev.data["target"][2], ("tuple", (n, i))), lambda: (True if (ev.data["op"] is None) else None))
    run.ob("R-IDX", fq, f"{v}:slot", okslot, "the value of particle i in frame n is stored at [n, i]", show(ev.data["target"][2])[:40], witness=None if okslot else "values stored at another frame/particle", loc=loc, sound=True)
    oksh = tri_lazy(lambda: (True if (R[0] == "call") else None), lambda: (True if (R[1] == "numpy.zeros") else None), lambda: (True if (R[2]) else None), lambda: eqv(R[2][0], ("tuple", (("attr", ("attr", SELF, "snapshots"), "nsnapshots"), ("attr", SELF, "nparticle")))), lambda: eqv(kw(R, "dtype"), ("mod", "numpy.complex128"), ("builtin", "complex")))
    run.ob("R-ALG", fq, f"{v}:shape", oksh, "results are complex zeros of shape (nsnapshots, nparticle)", show(R)[:80], witness=None if oksh else "real dtype drops the phase / wrong shape", loc=loc, sound=True)
    okret = len(it.returns) == 1 and it.returns[0].data["value"] == R
    run.ob("R-ALG", fq, f"{v}:return", True if okret else None, "the filled array is returned", "", loc=fi.loc())
    rd = [e for e in calls(it, READER) if set(e.loops) == {Lf.id}]
    NL = Wt = None
    for e in rd:
        h = kw(e.data["call"], "f", 0)
        fn = h[2][0] if h is not None and h[0] == "call" and h[1] == "builtins.open" and h[2] else None
        if fn == ("attr", SELF, "neighborfile"):
            NL = e.data["result"]
        elif fn == WF:
            Wt = e.data["result"]
    if NL is None:
        raise AnalysisError(f"{fq}[{v}]: neighbour table not read from self.neighborfile once per frame")
    # ---- value
    val = ev.data["value"]
    red = None
    post_den = None
    if weighted and val[0] == "bin" and val[1] == "/" and val[2][0] == "call" and val[2][1] in (".sum", "numpy.sum"):
        # sum(w * kernel) / D : normalisation applied after the sum
        post_den, val = val[3], val[2]
    if val[0] == "call" and val[1] in (".mean", ".sum", "numpy.mean", "numpy.sum") and len(val[2]) == 1 and not val[3]:
        red = val[1].split(".")[-1]
        body = val[2][0]
    else:
        run.ob("R-ALG", fq, f"{v}:reduction", None, "value is a mean / sum over the bonds", show(val)[:100], loc=loc)
        return None
    kern, wfac = body, None
    if body[0] == "bin" and body[1] == "*":
        a, b = body[2], body[3]
        ka = any(x[0] == "call" and x[1] == "numpy.exp" for x in walk(a))
        kern, wfac = (a, b) if ka else (b, a)
    if not (kern[0] == "call" and kern[1] == "numpy.exp" and len(kern[2]) == 1):
        run.ob("R-ANGLE", fq, f"{v}:kernel", None, "kernel is exp(i l theta)", show(kern)[:100], loc=loc)
        return None
    # exp(1j * l * theta)
    TH = None
    thS, lS = sp.Symbol("theta", real=True), sp.Symbol("l", positive=True)

    def at(t):
        nonlocal TH
        if t == LDEG:
            return lS
        if t[0] == "call" and t[1] == "numpy.arctan2":
            TH = t
            return thS
        return None
    tr = S.Translator(at)
    try:
        g = tr.tr(kern[2][0])
        # an exponent made of i, l, theta and numbers only: the normal-form comparison is a decision procedure
        okk = None if tr.atoms else S.decide_equal(g, sp.I * lS * thS)[0]
    except Exception:  # noqa
        okk = None
    run.ob("R-ANGLE", fq, f"{v}:kernel", okk, "each bond contributes exp(i l theta) with the instance's l", show(kern)[:100],
           witness=None if okk else "exponent is not i l theta (sign / degree / missing i)", loc=loc, sound=True)
    if TH is None:
        return None
    B = None
    for x in walk(TH):
        if x[0] == "call" and x[1] == "PyMatterSim.utils.pbc.remove_pbc":
            B = x
            break
    if B is None:
        raw = [x for x in walk(TH) if x[0] == "bin" and x[1] == "-" and any(y[0] == "attr" and y[2] == "positions" for y in walk(x))]
        unwrapped = bool(raw) and no_wrap_possible(TH)
        run.ob("R-PBC", fq, f"{v}:image", False if unwrapped else None, "bond vectors are minimum-image vectors", show(TH)[:100],
               witness="a bond across the periodic boundary points the wrong way" if unwrapped else None, loc=loc, sound=True)
        return TH
    azi = azimuth_angle(TH, B)
    run.ob("R-ANGLE", fq, f"{v}:angle", (azi == "ok") if azi is not None else None, "theta = arctan2(y, x) of the imaged bond vector", show(TH)[:70] if azi in (None, "ok") else azi,
           witness=None if azi == "ok" else azi, loc=loc, sound=True)
    bv = bond_vectors(B)
    if bv is None:
        run.ob("R-PBC", fq, f"{v}:bond", None, "bond vector form recognised", show(B)[:100], loc=loc)
    else:
        okb = tri(eqv(bv["snap"], snap), nbr_slice_tri(bv["left"], NL, i), eqv(bv["right"], i))
        rev = bv["snap"] == snap and is_nbr_slice(bv["right"], NL, i) and bv["left"] == i
        if rev:
            okb = False
        run.ob("R-PBC", fq, f"{v}:bond", okb, "bond vectors are positions[neighbours of i (columns 1..cn_i)] - positions[i] within the frame", f"[{show(bv['left'])[:60]}] - [{show(bv['right'])[:30]}]",
               witness=None if okb else ("centre - neighbour: psi_l changes sign for odd l" if rev else "bond vectors do not join i to its listed neighbours"), loc=loc, sound=True)
        okh = eqv(bv["H"], ("attr", snap, "hmatrix"))
        run.ob("R-PBC", fq, f"{v}:cell", okh, "minimum image uses the frame's cell", show(bv["H"])[:50], witness=None if okh else "cell of another frame", loc=loc, sound=True)
        okm = eqv(bv["ppp"], ("attr", SELF, "ppp")) if bv["ppp"] is not None else False
        run.ob("R-PBC", fq, f"{v}:mask", okm, "the instance's periodicity mask is forwarded", show(bv["ppp"])[:40] if bv["ppp"] else "default", witness=None if okm else "mask dropped", loc=loc, sound=True)
    if not weighted:
        touched = [e for e in it.events if e is not ev and ((e.kind == "store" and e.data["target"][1] == R) or (e.kind == "aug" and e.data.get("old") == R))]
        # the stored value is the bare reduction of the bare kernel and nothing rescales the array afterwards: definite
        ok = True if (red == "mean" and wfac is None) else (False if (red == "sum" and wfac is None and not touched) else None)
        run.ob("R-ALG", fq, "plain:mean", ok, "unweighted value = mean of exp(i l theta) over the cn_i bonds (so |psi| <= 1)", f"{red} of {'weighted' if wfac else 'plain'} kernel",
               witness=None if ok else "sum instead of mean: |psi| grows with the coordination number", loc=loc, sound=True)
        return strip_reader(TH)
    # weighted: sum(w / sum|w| * exp)
    okr = red == "sum"
    okw = None
    detail = show(wfac)[:120] if wfac else "no weight factor"
    if post_den is not None and wfac is not None and not (wfac[0] == "bin" and wfac[1] == "/"):
        wfac = ("bin", "/", wfac, post_den)        # (sum w k) / D == sum (w / D) k for a scalar D
    if wfac is not None and not any(x[0] == "bin" and x[1] == "/" for x in walk(wfac)) and Wt is not None:
        # the weight table divided in place, once per frame, before the particle loop:  W[:, 1:] /= D
        inplace = [e for e in it.events if e.kind == "store" and e.data.get("op") == "/" and e.data["target"][0] == "sub" and e.data["target"][1] == Wt]
        if len(inplace) == 1 and wfac[0] == "sub" and wfac[1] == Wt:
            tgt_ = ("sub", Wt, inplace[0].data["target"][2])
            wfac = ("sub", ("bin", "/", tgt_, inplace[0].data["value"]), wfac[2])
    if wfac is not None and wfac[0] == "bin" and wfac[1] == "/":
        w, den = wfac[2], wfac[3]
        okden = eqv(den, ("call", ".sum", (("call", "numpy.abs", (w,), ()),), ()), ("call", "numpy.sum", (("call", "numpy.abs", (w,), ()),), ()), ("call", ".sum", (("call", "numpy.absolute", (w,), ()),), ()))
        plain_sum = den in (("call", ".sum", (w,), ()), ("call", "numpy.sum", (w,), ()), ("call", "numpy.abs", (("call", ".sum", (w,), ()),), ()),
                            ("call", "builtins.abs", (("call", ".sum", (w,), ()),), ()), ("call", "numpy.abs", (("call", "numpy.sum", (w,), ()),), ()))
        run.ob("R-ALG", fq, "weighted:normalised", okden, "weights are divided by the sum of their absolute values (|psi| <= 1 also with negative weights)", show(den)[:80],
               witness=None if okden else ("weights 1, -1: division by zero / |psi| > 1" if plain_sum else "weights not normalised by sum |w|"), loc=loc, sound=True)
        okal = eqv(w, ("sub", Wt, ("tuple", (i, ("slice", C(1), ("bin", "+", nbr_count(NL, i), C(1)), NONE))))) if Wt is not None else None
        # normalised weights (sum |w| = 1) averaged instead of summed: the value is divided by cn a second time
        run.ob("R-ALG", fq, "weighted:sum", True if okr else (False if (red == "mean" and okden is True) else None), "weighted value = sum over bonds (weights already normalised), not divided again", red,
               witness=None if okr else "mean of normalised weights x kernel: divided by cn a second time", loc=loc, sound=True)
        run.ob("R-ALIGN", fq, "weighted:alignment", okal, "bond k of particle i is weighted with column k + 1 of row i of the weight table (same slice 1..cn_i as the neighbours)", show(w)[:100],
               witness=None if okal else "weights shifted by one bond / count column used as a weight / weights of another particle", loc=loc, sound=True)
        okw = okden and okal
    elif wfac is not None and wfac[0] == "sub" and wfac[1][0] == "bin" and wfac[1][1] == "/":
        # table-level normalisation (every row of the weight table divided at once), then the slice of particle i
        A, Dn = wfac[1][2], wfac[1][3]
        while Dn[0] == "sub" and any(x == ("mod", "numpy.newaxis") or x == NONE for x in walk(Dn[2])):
            Dn = Dn[1]
        absA = [("call", f, (A,), ()) for f in ("numpy.abs", "numpy.absolute", "builtins.abs")]
        def rowsum(x):
            return [("call", ".sum", (x,), (("axis", C(1)),)), ("call", "numpy.sum", (x,), (("axis", C(1)),)), ("call", ".sum", (x, C(1)), ()), ("call", ".sum", (x,), (("axis", C(-1)),)),
                    ("call", ".sum", (x,), (("axis", C(1)), ("keepdims", C(True)))), ("call", "numpy.sum", (x,), (("axis", C(1)), ("keepdims", C(True))))]
        abs_of_sum = any(Dn == ("call", f, (r,), ()) for f in ("numpy.abs", "numpy.absolute", "builtins.abs") for r in rowsum(A))
        okden = True if any(Dn in rowsum(a) for a in absA) else (False if (Dn in rowsum(A) or abs_of_sum) else None)
        # zero padding does not contribute to either sum, so the row sum over all columns is the sum over the cn_i bonds
        run.ob("R-ALG", fq, "weighted:normalised", okden, "weights are divided by the sum of their absolute values (|psi| <= 1 also with negative weights)", show(Dn)[:80],
               witness=None if okden else ("absolute value of the row sum, not the sum of absolute values: " if abs_of_sum else "row sum without absolute values: ") + "weights (2, -1) are scaled by 1 instead of 1/3 - |psi| exceeds 1, and weights (1, -1) divide by zero", loc=loc, sound=True)
    else:
        run.ob("R-ALG", fq, "weighted:normalised", None, "weights are divided by the sum of their absolute values", detail, loc=loc)
    okW = True if Wt is not None else None
    run.ob("R-HANDLE", fq, "weighted:source", okW, "weights of the frame are read from self.weightsfile in the frame loop", show(Wt)[:60] if Wt else "?", witness=None if okW else "weights not read per frame", loc=loc)
    return strip_reader(TH)


def is_nbr_slice_of(w, Wt, NL, i):
    """Wt[i, 1 : NL[i, 0] + 1]"""
    cn = nbr_count(NL, i)
    his = (("bin", "+", cn, C(1)), ("bin", "+", C(1), cn))
    return w[0] == "sub" and w[1] == Wt and w[2][0] == "tuple" and len(w[2][1]) == 2 and w[2][1][0] == i and \
        w[2][1][1][0] == "slice" and w[2][1][1][1] == C(1) and w[2][1][1][2] in his and w[2][1][1][3] == NONE


def strip_reader(t):
    """canonical form for comparing the two arms: loop ids differ between interpretations"""
    def fn(x):
        if x[0] == "loopvar":
            return ("loopvar", 0, x[2])
        return None
    return subst(t, fn)


def check_init(run, pkg):
    attrs = init_attrs(pkg, CLS)
    fq = short(pkg.cls(CLS).methods["__init__"].qual)
    p = attrs.get("ParticlePhi")
    ok = True if (p is not None and p[0] == "call" and p[1] == pkg.cls(CLS).methods["lthorder"].qual) else None
    run.ob("R-ALG", fq, "stored-order", ok, "self.ParticlePhi is the array returned by lthorder", show(p)[:60] if p else "missing", witness=None if ok else "derived quantities use another array",
           loc=pkg.cls(CLS).methods["__init__"].loc())


def check_time_average(run, pkg):
    TA = "PyMatterSim.utils.coarse_graining.time_average"
    for cplx in (True, False):
        def assume(c, cplx=cplx):
            if c == ("sym", "average_complex"):
                return cplx
            return None
        it = Interp(pkg, pkg.func(f"{CLS}.time_average"), assume=assume)
        fi = it.fi
        fq = short(fi.qual)
        tag = "complex" if cplx else "modulus-phase"
        cs = calls(it, TA)
        ret = it.returns[0].data["value"] if len(it.returns) == 1 else None

        def args(e):
            k = dict(e.data["call"][3])
            for p_, a_ in zip(pkg.func(TA).params, e.data["call"][2]):
                k[p_] = a_
            return k
        common = lambda k: k.get("snapshots") == ("attr", SELF, "snapshots") and k.get("time_period") == ("sym", "time_period") and k.get("dt") == ("sym", "dt")
        if cplx:
            ok = tri_lazy(lambda: (True if (len(cs) == 1) else None), lambda: (True if (common(args(cs[0]))) else None), lambda: eqv(args(cs[0]).get("input_property"), PHI))
            run.ob("R-ALG", fq, f"{tag}:input", ok, "the complex order parameter itself is window-averaged (same trajectory, period, dt)", f"{len(cs)} calls", witness=None if ok else "another quantity averaged", loc=fi.loc(), sound=True)
            okr = tri_lazy(lambda: (True if (ok) else None), lambda: eqv(ret, ("tuple", (("elem", cs[0].data["result"], 0), ("elem", cs[0].data["result"], 1)))))
            run.ob("R-ALG", fq, f"{tag}:return", okr, "returns (averaged values, middle frame ids) of that call", show(ret)[:80] if ret else "?", witness=None if okr else "return differs", loc=fi.loc(), sound=True)
        else:
            ok = len(cs) == 2 and all(common(args(e)) for e in cs)
            ins = [args(e).get("input_property") for e in cs] if ok else []
            okin = tri_lazy(lambda: (True if (ok) else None), lambda: eqv(ins[0], ("call", "numpy.abs", (PHI,), ()), ("call", "numpy.absolute", (PHI,), ())), lambda: eqv(ins[1], ("call", "numpy.angle", (PHI,), ())))
            run.ob("R-ALG", fq, f"{tag}:input", okin, "modulus |psi| and phase arg(psi) are window-averaged separately", ", ".join(show(x)[:40] for x in ins), witness=None if okin else "modulus/phase inputs wrong", loc=fi.loc(), sound=True)
            if okin and ret is not None and ret[0] == "tuple" and len(ret[1]) == 2:
                mod, ph = ("elem", cs[0].data["result"], 0), ("elem", cs[1].data["result"], 0)
                m, p = sp.symbols("m p", real=True)

                def at(t):
                    if t in (mod, ("attr", mod, "real")):
                        return m
                    if t in (ph, ("attr", ph, "real")):
                        return p
                    return None
                check_algebra(run, "R-ALG", it, f"{tag}:combine", "result = <|psi|> exp(i <arg psi>)", ret[1][0], m * sp.exp(sp.I * p), at, fi.loc())
                okid = eqv(ret[1][1], ("elem", cs[0].data["result"], 1), ("elem", cs[1].data["result"], 1))
                run.ob("R-ALG", fq, f"{tag}:ids", okid, "the middle frame ids of the windows are returned", show(ret[1][1])[:60], witness=None if okid else "ids missing", loc=fi.loc(), sound=True)
        sv = [e for e in it.events if e.kind == "call" and e.data["call"][1] == "numpy.save"]
        oks = all(ret is not None and ret[0] == "tuple" and e.data["call"][2][1] == ret[1][0] and e.data["call"][2][0] == ("sym", "outputfile") for e in sv)
        run.ob("R-SAVE", fq, f"{tag}:save", True if oks else None, "the file holds the returned averaged values", f"{len(sv)} saves", witness=None if oks else "file differs from the returned values", loc=fi.loc())


def check_corr(run, pkg):
    it = interp(pkg, f"{CLS}.spatial_corr")
    fi = it.fi
    fq = short(fi.qual)
    cg = calls(it, "PyMatterSim.static.gr.conditional_gr")
    if len(cg) != 1 or len(cg[0].loops) != 1:
        raise AnalysisError(f"{fq}: expected one conditional_gr call per frame")
    c = cg[0].data["call"]
    L = it.loops[cg[0].loops[0]]
    okf = eqv(L.iter, ("call", "builtins.enumerate", (SNAPS,), ()))
    n, snap = ("elem", L.target, 0), ("elem", L.target, 1)
    k = dict(c[3])
    for p_, a_ in zip(pkg.func("static.gr.conditional_gr").params, c[2]):
        k[p_] = a_
    ok = tri_lazy(lambda: (True if (okf) else None), lambda: (True if (k.get("snapshot") == snap) else None), lambda: eqv(k.get("condition"), ("sub", PHI, n)), lambda: eqv(k.get("conditiontype", NONE), NONE), lambda: eqv(k.get("ppp"), ("attr", SELF, "ppp")), lambda: eqv(k.get("rdelta"), ("sym", "rdelta")))
    run.ob("R-ALIGN", fq, "spatial", ok, "g_l(r) of frame n = conditional_gr(frame n, psi of frame n, scalar (complex) kind, instance mask, rdelta)", ", ".join(f"{a}={show(b)[:30]}" for a, b in k.items()),
           witness=None if ok else "psi of another frame / vector kind / mask dropped", loc=loc_of(it, cg[0]), sound=True)
    aug = [e for e in it.events if e.kind == "aug" and e.data["op"] == "+" and e.data["value"] == cg[0].data["result"]]
    div = [e for e in it.events if e.kind == "aug" and e.data["op"] == "/" and not e.loops]
    oka = tri_lazy(lambda: (True if (len(aug) == 1) else None), lambda: (True if (aug[0].data["old"][0] == "mu") else None), lambda: eqv(aug[0].data["old"][3], C(0)), lambda: (True if (len(div) == 1) else None), lambda: eqv(div[0].data["value"], ("attr", ("attr", SELF, "snapshots"), "nsnapshots")))
    run.ob("R-ALG", fq, "spatial-average", oka, "frames are summed from 0 and divided by the number of frames", f"{len(aug)} sums, {len(div)} divisions", witness=None if oka else "not a frame average", loc=fi.loc(), sound=True)
    it = interp(pkg, f"{CLS}.time_corr")
    fi = it.fi
    fq = short(fi.qual)
    tc = calls(it, "PyMatterSim.dynamic.time_corr.time_correlation")
    if len(tc) != 1:
        raise AnalysisError(f"{fq}: expected one time_correlation call")
    k = dict(tc[0].data["call"][3])
    for p_, a_ in zip(pkg.func("dynamic.time_corr.time_correlation").params, tc[0].data["call"][2]):
        k[p_] = a_
    ok = tri_lazy(lambda: eqv(k.get("snapshots"), ("attr", SELF, "snapshots")), lambda: eqv(k.get("condition"), PHI), lambda: eqv(k.get("dt"), ("sym", "dt")), lambda: eqv(k.get("outputfile"), ("sym", "outputfile")))
    okr = len(it.returns) == 1 and it.returns[0].data["value"] == tc[0].data["result"]
    run.ob("R-ALIGN", fq, "time", tri(ok, True if okr else None), "time correlation of psi over the instance's trajectory with the caller's dt and output file, returned unchanged", ", ".join(f"{a}={show(b)[:30]}" for a, b in k.items()),
           witness=None if ok and okr else "other quantity / dt ignored / result altered", loc=loc_of(it, tc[0]), sound=True)
