"""Recognisers shared by the bond-orientational checks (C09, C10) and other neighbour-list consumers."""
from __future__ import annotations

from typing import Optional, Tuple

from .common import *  # noqa
from .grlib import pbc_args, is_rowwise_norm

READER = "PyMatterSim.neighbors.read_neighbors.read_neighbors"
FULL = ("slice", NONE, NONE, NONE)
NEWAX = ("mod", "numpy.newaxis")


def is_reader_call(t: Term) -> bool:
    return t[0] == "call" and t[1] == READER


def nbr_count(NL: Term, i: Term) -> Term:
    return ("sub", NL, ("tuple", (i, C(0))))


def is_nbr_slice(t: Term, NL: Term, i: Term) -> bool:
    """NL[i, 1 : NL[i, 0] + 1]  (any association of the + 1)"""
    cn = nbr_count(NL, i)
    his = (("bin", "+", cn, C(1)), ("bin", "+", C(1), cn))
    return t[0] == "sub" and t[1] == NL and t[2][0] == "tuple" and len(t[2][1]) == 2 and t[2][1][0] == i and \
        t[2][1][1][0] == "slice" and t[2][1][1][1] == C(1) and t[2][1][1][2] in his and t[2][1][1][3] == NONE


def nbr_slice_tri(t: Term, NL: Term, i: Term) -> Optional[bool]:
    """tri-state form of is_nbr_slice: False only for a definitely different index (other bounds / row / table)."""
    if t is None:
        return None
    cn = nbr_count(NL, i)
    return eqv(t, ("sub", NL, ("tuple", (i, ("slice", C(1), ("bin", "+", cn, C(1)), NONE)))))


def row_bcast(t: Term) -> Term:
    """x[np.newaxis, :] -> x"""
    if t[0] == "sub" and t[2] == ("tuple", (NEWAX, FULL)):
        return t[1]
    return t


def col_bcast(t: Term) -> Term:
    """x[:, np.newaxis] -> x"""
    if t[0] == "sub" and t[2] == ("tuple", (FULL, NEWAX)):
        return t[1]
    return t


def bond_vectors(t: Term):
    """remove_pbc(pos[nbrs] - pos[i][None, :], H, ppp) -> dict(snap, nbrs, centre, sign, H, ppp) or None.
    sign = +1 for neighbour - centre."""
    pa = pbc_args(t)
    if pa is None:
        return None
    diff, H, ppp = pa
    if not (diff[0] == "bin" and diff[1] == "-"):
        return None
    a, b = diff[2], row_bcast(diff[3])
    a2 = row_bcast(diff[2])

    def pos(x):
        if x[0] == "sub" and x[1][0] == "attr" and x[1][2] == "positions":
            return x[1][1], x[2]
        return None
    pa_, pb_ = pos(a2), pos(b)
    if pa_ is None or pb_ is None or pa_[0] != pb_[0]:
        return None
    return {"snap": pa_[0], "left": pa_[1], "right": pb_[1], "H": H, "ppp": ppp}


def component(t: Term, B: Term) -> Optional[int]:
    """B[:, k] -> k"""
    if t[0] == "sub" and t[1] == B and t[2][0] == "tuple" and len(t[2][1]) == 2 and t[2][1][0] == FULL and is_const(t[2][1][1]):
        return t[2][1][1][1]
    return None


def polar_angle(t: Term, B: Term) -> Optional[str]:
    """arccos(B[:, 2] / |B|) -> 'ok' | description of the deviation | None (not recognised)"""
    if not (t[0] == "call" and t[1] == "numpy.arccos" and len(t[2]) == 1):
        return None
    q = t[2][0]
    if not (q[0] == "bin" and q[1] == "/"):
        return None
    k = component(q[2], B)
    n = is_rowwise_norm(q[3])
    if k is None or n is None:
        return None
    if n != B:
        return None
    return "ok" if k == 2 else f"polar angle from component {k} (must be z = component 2)"


def azimuth_angle(t: Term, B: Term) -> Optional[str]:
    """arctan2(B[:, 1], B[:, 0])"""
    if not (t[0] == "call" and t[1] == "numpy.arctan2" and len(t[2]) == 2):
        return None
    ky, kx = component(t[2][0], B), component(t[2][1], B)
    if ky is None or kx is None:
        return None
    return "ok" if (ky, kx) == (1, 0) else f"azimuth = arctan2(component {ky}, component {kx}) (must be arctan2(y, x) = (1, 0))"


def angle_by_evaluation(t: Term, B: Term, kind: str, ndim: int = 3) -> Optional[str]:
    """Witness generator for an angle written in a form the recognisers do not know: the extracted term is evaluated with the
    bond-vector array B replaced by sample directions of every octant (quadrant) and compared with the definition
    (polar: arccos(z/|r|) in [0, pi]; azimuth: arctan2(y, x) modulo 2 pi).  Returns a description with the differing vector, or
    None when the term is not evaluable or agrees on all samples (agreement is not a proof)."""
    import numpy as np
    from ..concrete import ev as cev
    vs = []
    for sx in (1, -1):
        for sy in (1, -1):
            for sz in ((1, -1) if ndim == 3 else (0,)):
                vs.append([0.7 * sx, 1.3 * sy, 0.5 * sz][:ndim])
                vs.append([1.9 * sx, 0.2 * sy, 1.1 * sz][:ndim])
    V = np.array(vs, dtype=float)
    try:
        with np.errstate(all="ignore"):
            got = np.asarray(cev(t, {B: V}), dtype=float)
    except Exception:  # noqa
        return None
    if got.shape != (V.shape[0],):
        return None
    if kind == "polar":
        want = np.arccos(V[:, 2] / np.linalg.norm(V, axis=1))
        dev = np.abs(got - want)
    else:
        want = np.arctan2(V[:, 1], V[:, 0])
        dev = np.abs(np.exp(1j * got) - np.exp(1j * want))
    if not np.all(np.isfinite(got)) or dev.max() > 1e-9:
        k = int(np.argmax(np.where(np.isfinite(dev), dev, np.inf)))
        return (f"bond vector {V[k].tolist()}: the {kind} angle evaluates to {got[k]:.6f}, the definition gives {want[k]:.6f}"
                + (" (a polar angle outside [0, pi] multiplies Y_lm by (-1)^l through its associated Legendre factor)" if kind == "polar" else ""))
    return None
