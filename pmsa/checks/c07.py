"""C07 - symmetries: ONE necessary condition is decided, nothing more.

Translation and lattice-image invariance of an observable require that absolute particle coordinates never reach a result
except (1) as a difference of two positions of the same frame that is minimum-imaged by remove_pbc before any use,
(2) inside an S(q) phase q.r with q an integer multiple of 2 pi / L per axis, (3) as a shape query, or (4) at a tabled site
with a stated reason (inter-frame displacements of the dynamics module whose imaging is decided under C06, the coordinate
hand-over to the external tessellation libraries, the writers).  R-PBC-FLOW classifies every occurrence of `<snapshot>.positions`
in every value that a function stores, accumulates, returns or writes, package-wide outside the readers.
R-IDX: per-particle result arrays are indexed by the particle loop variable itself (relabelling particles permutes outputs).

NOT decided (and not claimed): rotation invariance of q_l / w_l / psi_l / shape descriptors, axis-permutation and dilation
invariance, species-swap column exchange as numbers, floating-point accuracy.  These are theorems about the computed functions
(C08-C10, C17 decide the forms they rest on), not shapes of the code.
"""
from __future__ import annotations

from .common import *  # noqa
from .common import _is_index_expr
from .grlib import REMOVE_PBC, no_wrap_possible
from . import grlib as grlib_mod
from ..vg import Interp

# (function, reason) - occurrences in these functions are accepted as class (4)
TABLED = {
    "dynamic.dynamics.Dynamics.relaxation": "inter-frame displacement r(t) - r(0); imaged exactly in the wrapped-only configuration (decided under C06)",
    "dynamic.dynamics.Dynamics.sq4": "inter-frame displacement and S4 phase at the origin frame (decided under C06)",
    "dynamic.dynamics.LogDynamics.relaxation": "inter-frame displacement from frame 0 (decided under C06)",
    "neighbors.freud_neighbors.convert_configuration": "coordinates are centred on the box centre for the external tessellation library, which wraps them itself (decided under C20)",
    "neighbors.voropp_neighbors.cal_voro": "coordinates are written to the input file of the external voro++ program",
    "neighbors.voropp_neighbors.voronowalls": "coordinates are written to the input file of the external voro++ program",
    "writer.lammps_writer.write_dump_header": "writer",
    "neighbors.voropp_neighbors.get_input": "coordinates are handed to the external voro++ program together with the box bounds",
    "static.nematic.NematicOrder.tensor": "the `positions` field of the orientation trajectory holds unit orientation vectors, not coordinates",
}
TABLED_PREFIX = {
    "dynamic.dynamics.": "inter-frame displacements of the dynamics module (any helper of it); their imaging is decided under C06",
}
SKIP_MODULES = ("PyMatterSim.reader.", "PyMatterSim.writer.")


def is_pos(t):
    return t[0] == "attr" and t[2] == "positions"


def classify(t, path, out):
    """Walk a value; for every positions atom record the classification derived from its ancestors `path`."""
    if not isinstance(t, tuple) or not t or not isinstance(t[0], str):
        return
    if is_pos(t):
        out.append((t, classify_path(t, path)))
        return
    k = t[0]
    if k in ("const", "sym", "mod", "builtin", "global", "undef", "unknown", "loopvar", "cvar"):
        return
    if k == "mu":
        if t[3] is not None:
            classify(t[3], path + [t], out)
        return
    for x in t[1:]:
        if isinstance(x, tuple):
            if x and isinstance(x[0], str):
                classify(x, path + [t], out)
            else:
                for y in x:
                    if isinstance(y, tuple) and y and isinstance(y[0], str):
                        classify(y, path + [t], out)
                    elif isinstance(y, tuple):
                        for z in y:
                            if isinstance(z, tuple) and z and isinstance(z[0], str):
                                classify(z, path + [t], out)


def pos_rooted(t):
    return any(is_pos(x) for x in walk(t))


def classify_path(p, path):
    """path: list of ancestors from the event value down to the parent of the positions atom."""
    # nearest-first
    anc = list(reversed(path))
    cur = p
    for a in anc:
        k = a[0]
        if k == "attr" and a[1] == cur and a[2] in ("shape", "ndim", "size", "dtype"):
            return "shape"
        if k == "call" and a[1] == "builtins.len":
            return "shape"
        if k == "sub" and a[1] == cur:
            cur = a
            continue            # indexing the coordinates
        if k == "sub" and a[1] != cur:
            # positions used inside an index expression: not a coordinate flow
            return "index"
        if k == "call" and a[1] in ("numpy.delete", ".astype", "numpy.array", "numpy.asarray", ".copy", "numpy.copy", "numpy.atleast_2d") and a[2] and a[2][0] == cur:
            cur = a
            continue
        if k == "bin" and a[1] == "-":
            other = a[3] if a[2] == cur else a[2]
            if not pos_rooted(other) and not any(x[0] == "call" and x[1] == "numpy.zeros" for x in walk(other)):
                # position minus something that is not a position or a grid point
                return "offset:" + show(other)[:40]
            # a difference of positions: must be the first argument of remove_pbc
            diff = a
            idx = anc.index(a)
            for b in anc[idx + 1:]:
                if b[0] == "call" and b[1] == REMOVE_PBC:
                    if b[2] and b[2][0] == diff or dict(b[3]).get("RIJ") == diff:
                        return "imaged-difference"
                    return "difference-in-wrong-slot"
                if b[0] == "phi":
                    continue
                if b[0] == "sub" and b[1] == diff:
                    diff = b
                    continue
                break
            # not handed to remove_pbc: an inline (or helper) re-implementation of the minimum image is accepted when it is
            # verified against the reference form (shared with C02's frame typing and algebra)
            from . import grlib
            chain = [b for b in anc[idx + 1:] if b[0] in ("bin", "call", "attr", "sub") and any(x[0] == "call" and x[1] in ("numpy.rint", "numpy.round", "numpy.around") for x in walk(b))]
            for b in chain:
                if grlib.inline_image(grlib._inline(b), record=False)[0] == "ok":
                    return "imaged-difference"
            # only the outermost ancestor that is still a coordinate expression (closed under the image grammar) can be judged
            # wrong: inner ones are intermediates such as the wrapped fractional vector
            closed = [b for b in chain if grlib.image_grammar(grlib._inline(b))]
            if closed:
                v = grlib.inline_image(grlib._inline(closed[-1]), record=False)
                if v[0] == "bad":
                    return "wrong-inline-image:" + str(v[1])[:400]
            # definite only when nothing above the difference could fold it back into the cell
            WRAPLIKE = ("numpy.rint", "numpy.round", "numpy.around", "numpy.floor", "numpy.ceil", "numpy.trunc", "numpy.mod", "numpy.remainder", "numpy.fmod",
                        "numpy.where", "numpy.select", "numpy.divmod", "builtins.round", "builtins.divmod", "math.floor")
            for b in anc[idx + 1:]:
                for x in walk(b):
                    # an operation can only wrap the displacement if coordinates flow into it
                    if ((x[0] == "call" and (x[1] in WRAPLIKE or (isinstance(x[1], str) and x[1].startswith("PyMatterSim.")) or not isinstance(x[1], str))) or
                            (x[0] == "bin" and x[1] in ("%", "//"))) and pos_rooted(x):
                        return "unresolved-difference"
            return "raw-difference"
        if k == "bin" and a[1] == "*":
            other = a[3] if a[2] == cur else a[2]
            # S(q) phase: the product q * r sits (through a component sum) inside exp(+-i .), with q built from 2 pi / boxlength
            # or handed in as the wave-vector table; the other factor must be the wave vectors only
            idx = anc.index(a)
            inside_exp = any(b[0] == "call" and b[1] in ("numpy.exp", "cmath.exp") for b in anc[idx + 1: idx + 5])
            other_has_exp = any(x[0] == "call" and x[1] in ("numpy.exp", "cmath.exp") for x in walk(other))
            commensurate = (any(x[0] == "attr" and x[2] == "boxlength" for x in walk(other)) and any(x == ("mod", "numpy.pi") for x in walk(other))) or \
                any(x[0] == "sym" and x[1] in ("qvector",) for x in walk(other)) or any(x[0] == "attr" and x[2] in ("qvector", "qvalues") for x in walk(other))
            if inside_exp and commensurate and not other_has_exp:
                return "phase"
            if other_has_exp:
                return "weight:" + show(other)[:40]        # the coordinate multiplies a phase factor instead of sitting inside it
            return "product:" + show(other)[:40]
        if k == "bin" and a[1] == "+":
            other = a[3] if a[2] == cur else a[2]
            return "offset:" + show(other)[:40]
        if k == "call" and isinstance(a[1], str) and a[1].startswith("PyMatterSim."):
            return "passed:" + a[1].split(".")[-1]
        if k == "tuple" or k == "list":
            cur = a
            continue
        if k == "phi":
            cur = a
            continue
        if k == "call":
            return "call:" + (a[1] if isinstance(a[1], str) else "dyn")
        return "other:" + k
    return "bare"


OK_CLASSES = ("shape", "index", "imaged-difference", "phase")


def run(run: Run, pkg: Package) -> None:
    run.explanation = (
        "Package-wide flow classification of absolute coordinates: every occurrence of <snapshot>.positions inside a value that "
        "a function stores, accumulates, returns or passes to a file is classified by its enclosing operators (difference inside "
        "remove_pbc's first argument / S(q) phase with box-commensurate wave vectors / shape query / tabled exception). A raw "
        "difference, an absolute coordinate in a product or a sum, or a difference handed to the wrong slot is reported. This is "
        "a necessary condition for translation and lattice-image invariance only; the other symmetries of the property are not "
        "decided.")
    nfun = nocc = 0
    for fi in pkg.all_functions():
        if fi.qual.startswith(SKIP_MODULES):
            continue
        fq = short(fi.qual)
        try:
            it = interp(pkg, fi.qual)
        except AnalysisError:
            raise
        seen = {}
        for ev in it.events:
            vals = []
            if ev.kind == "store":
                vals = [ev.data["value"]]
            elif ev.kind == "aug":
                # an in-place update of a local intermediate whose new value is consumed by a later statement is classified
                # there, as part of the complete expression (x -= np.rint(x) * ppp is only the middle of a minimum image)
                new = ev.data.get("new")
                if new is not None and new[0] != "mu" and any(e2.seq > ev.seq and any(isinstance(v2, tuple) and new in list(walk(v2)) for v2 in e2.data.values())
                                                              for e2 in it.events if e2.kind in ("assign", "store", "return", "call")):
                    continue
                vals = [ev.data["value"]]
            elif ev.kind == "return":
                vals = [ev.data["value"]]
            elif ev.kind == "call" and ev.data["call"][1] in (".write", "numpy.savetxt", "numpy.save", ".append"):
                vals = list(ev.data["call"][2][1:])
            elif ev.kind == "call" and isinstance(ev.data["call"][1], str) and ev.data["call"][1].startswith("PyMatterSim.") and ev.data["call"][1] != REMOVE_PBC:
                # coordinates handed to another analysed routine: classified there; only note the hand-over
                continue
            for v in vals:
                out = []
                # differences of row-wise linearly transformed coordinates are transformed differences of coordinates
                for _ in range(6):
                    try:
                        v2 = grlib_mod.lift_transformed_difference(v)
                    except Exception:  # noqa
                        break
                    if v2 == v:
                        break
                    v = v2
                classify(v, [], out)
                for atom, cls in out:
                    key = f"{cls.split(':')[0]}@{key_of(ev)[:70]}"
                    if key in seen:
                        continue
                    seen[key] = True
                    nocc += 1
                    tabled = TABLED.get(fq) or next((v for k, v in TABLED_PREFIX.items() if fq.startswith(k)), None)
                    ok = cls in OK_CLASSES or cls.startswith("passed:")
                    if ok:
                        run.ob("R-PBC-FLOW", fq, key, True, f"coordinates enter this value as: {cls}", show(atom)[:60], loc=loc_of(it, ev))
                    elif tabled:
                        run.ob("R-PBC-FLOW", fq, key, True, f"tabled site: {tabled}", f"{cls}", loc=loc_of(it, ev), nontrivial=False)
                    else:
                        wit = {"raw-difference": "a pair separated across the periodic boundary contributes a box-length vector; shifting one particle by a cell vector changes the result",
                               "difference-in-wrong-slot": "the difference is not the vector being imaged",
                               "bare": "absolute coordinates are stored/returned: translating the system changes the result"}.get(cls.split(":")[0],
                              "absolute coordinates enter arithmetic directly: translating all particles changes the result")
                        # definite classes: a raw position difference flowing through operations none of which can wrap it; a
                        # difference handed to remove_pbc in another slot; a coordinate used as a weight of a phase factor.
                        # Every other class is a form this rule does not know: undecided.
                        c0 = cls.split(":")[0]
                        definite = c0 in ("raw-difference", "difference-in-wrong-slot", "weight", "wrong-inline-image")
                        if c0 == "wrong-inline-image":
                            wit = "the inline minimum image differs from R - (mask (.) nearest(R H^-1)) H: " + cls.split(":", 1)[1]
                        if c0 == "weight":
                            wit = "the absolute coordinate of a particle multiplies its Fourier term: translating the system changes the modulus"
                        run.ob("R-PBC-FLOW", fq, key, False if definite else None, "coordinates reach results only as minimum-imaged differences, box-commensurate phases or shape queries",
                               f"{cls}: {show(atom)[:60]} in {key_of(ev)[:80]}", witness=wit, loc=loc_of(it, ev), sound=True)
        if seen:
            nfun += 1
    run.extra["functions_with_coordinate_flow"] = nfun
    run.extra["coordinate_occurrences"] = nocc
    run.minimum("R-PBC-FLOW", 40)
    check_particle_index(run, pkg)


# per-particle outputs: (function, why) - stores of per-particle results must be indexed by the particle loop variable
PARTICLE_OUTPUTS = [
    "static.boo.boo_3d.qlm_Qlm", "static.boo.boo_2d.lthorder", "static.pairentropy.S2.particle_s2", "static.geometric.q8_tetrahedral",
    "static.vector.local_vector_alignment", "static.vector.divergence_curl", "static.geometric.packing_capability_2d",
]


def check_particle_index(run, pkg):
    for q in PARTICLE_OUTPUTS:
        it = interp(pkg, q)
        fq = short(it.fi.qual)
        n = 0
        for ev in stores(it):
            if not ev.loops:
                continue
            tg = ev.data["target"]
            if tg[0] != "sub":
                continue
            idx = tg[2]
            comps = list(idx[1]) if idx[0] == "tuple" else [idx]
            # the particle loop: a loop in the store's nest over range(nparticle...) whose variable must appear as an index
            ploops = []
            for l in ev.loops:
                L = it.loops[l]
                itr = L.iter
                if itr is not None and itr[0] == "call" and itr[1] == "builtins.range" and len(itr[2]) == 1 and \
                        any(x[0] == "attr" and x[2] == "nparticle" or x == ("sym", "num_of_particles") or (x[0] in ("elem", "sub") and x[1][0] == "attr" and x[1][2] == "shape") for x in walk(itr[2][0])):
                    ploops.append(L)
            if not ploops:
                continue
            base = tg[1]
            # only arrays allocated per particle (first or second extent is a particle count)
            if not (base[0] == "call" and base[1] in ("numpy.zeros", "numpy.copy")):
                continue
            P = ploops[0].target
            ok = True if P in comps else None
            if ok is None:
                for c_ in comps:
                    if any(x == P for x in walk(c_)) and _is_index_expr(c_) and eqv(c_, P) is False:
                        ok = False         # an index computed from the particle counter that is not the counter itself
            n += 1
            run.ob("R-IDX", fq, f"slot@{key_of(ev)[:60]}", ok, "the result of particle i is stored at index i (relabelling particles permutes the output accordingly)", show(idx)[:50],
                   witness=None if ok else "per-particle values are stored at an index that is not the particle's own", loc=loc_of(it, ev), sound=True)
        if n == 0:
            run.ob("R-IDX", fq, "slots", None, "per-particle stores found", "none recognised", loc=it.fi.loc())
