"""C19 - header writer, auxiliary readers and the dump reader agree on the same data.

R-PROTO   write_dump_header, reconstructed as line templates for 2D and 3D, is a nine-line header whose lines carry
          (timestep, count, bounds rows, column names); every text reader consumes nine header lines and takes each field from
          the line and token position where the writer puts it; read_additions uses line 4 for the count and a stride of
          N + 9 lines with the atom block right after the header (polynomial identity); write_data_header labels each bounds
          line with its own axis.
R-IDX     atom lines are placed by id - 1, type from token 1, coordinates from tokens 2..ndim+1; vector reader: token index =
          column id - 1; HOOMD type ids are shifted by +1; positions are cut to [:, :ndim].
R-SEL     centre-type reader: selection = membership of the (id-ordered) type in the map's keys, the same boolean mask selects
          positions and types, types are relabelled through the map, the count is the number of selected atoms.
R-ALG     scaled coordinates of the centre-type reader: x boxlength + lower bound; wrapped coordinates +-L; boxlength = hi - lo;
          log sections: rows = end - start - 1 read from line `start`.
R-FROZEN  DCD positions are installed frame by frame without storing into a frozen record; frame count = number of frames.
"""
from __future__ import annotations

import re

import numpy as np
import sympy as sp

from .common import *  # noqa
from .readerlib import ReaderRun, MOD, eq
from .c01 import root_alloc, match_wrap, _other_reads
from ..arr import ROW, NoEntry
from ..vg import Interp, strip_alloc

WR = "writer.lammps_writer"
FULL = ("slice", NONE, NONE, NONE)


def run(run: Run, pkg: Package) -> None:
    run.explanation = (
        "The header writer's return value is flattened into line templates (2D and 3D) and compared, line by line and token by "
        "token, with what each dump reader consumes (abstract interpretation of the readers with every readline a distinct "
        "line); the centre-type, column and HOOMD readers are checked for placement, selection, relabelling and shifting on the "
        "value graph; read_additions' block arithmetic is decided as a polynomial identity; the log reader's section arithmetic "
        "is compared with the line protocol of LAMMPS logs.")
    wl = {}
    for ndim in (2, 3):
        wl[ndim] = check_writer(run, pkg, ndim)
    check_data_header(run, pkg)
    for ndim in (2, 3):
        for style in ("x", "xs", "xu"):
            check_text_reader(run, pkg, "read_lammps_centertype", ndim, style, wl[ndim])
        check_text_reader(run, pkg, "read_lammps_vector", ndim, "x", wl[ndim])
        check_text_reader(run, pkg, "read_lammps", ndim, "x", wl[ndim], light=True)
    # frame loops of the auxiliary readers (shared rule with C01): append in read order, count, sentinel, one handle
    from .c01 import check_wrapper
    for w, inner in (("read_lammps_centertype_wrapper", "read_lammps_centertype"), ("read_lammps_vector_wrapper", "read_lammps_vector")):
        check_wrapper(run, pkg, w, inner)
    check_dict_order(run, pkg)
    check_additions(run, pkg, wl[3])
    check_gsd(run, pkg, "read_gsd", dcd=False)
    check_gsd(run, pkg, "read_gsd_dcd", dcd=True)
    check_log(run, pkg)
    run.minimum("R-PROTO", 60)
    run.minimum("R-IDX", 30)


# ====================================================================== writer
def flatten(t):
    """string-valued term -> list of ('lit', s) | ('val', term, spec)"""
    if is_const(t) and isinstance(t[1], str):
        return [("lit", t[1])]
    if t[0] == "bin" and t[1] == "+":
        return flatten(t[2]) + flatten(t[3])
    if t[0] == "fstr":
        out = []
        for p in t[1]:
            if p[0] == "const":
                out.append(("lit", p[1]))
            elif p[0] == "fmt" and p[2] in ("", None) and (p[1][0] == "fstr" or (is_const(p[1]) and isinstance(p[1][1], str))):
                out.extend(flatten(p[1]))       # text prepared beforehand and spliced in without a format: its own pieces
            elif p[0] == "fmt":
                out.append(("val", p[1], p[2]))
            elif p[0] in ("fstr",) or (p[0] == "bin" and p[1] == "+" and any(q[0] == "fstr" or (is_const(q) and isinstance(q[1], str)) for q in p[2:4])):
                out.extend(flatten(p))          # a piece of text prepared beforehand and spliced in without a format: its own pieces
            else:
                out.append(("val", p, ""))
        return out
    if t[0] == "call" and t[1] == "builtins.str" and len(t[2]) == 1:
        return [("val", t[2][0], "")]
    if t[0] == "bin" and t[1] == "%" and is_const(t[2]) and isinstance(t[2][1], str):
        args = list(t[3][1]) if t[3][0] == "tuple" else [t[3]]
        out, pos, k = [], 0, 0
        for m in re.finditer(r"%[-\d.]*[dsfge]", t[2][1]):
            if m.start() > pos:
                out.append(("lit", t[2][1][pos:m.start()]))
            out.append(("val", args[k], m.group(0)))
            k += 1
            pos = m.end()
        if pos < len(t[2][1]):
            out.append(("lit", t[2][1][pos:]))
        return out
    raise AnalysisError(f"header text outside the idiom table: {show(t)[:100]}")


def to_lines(segs):
    lines, cur = [], []
    for s in segs:
        if s[0] == "lit":
            parts = s[1].split("\n")
            for k, p in enumerate(parts):
                if k > 0:
                    lines.append(cur)
                    cur = []
                if p:
                    cur.append(("lit", p))
        else:
            cur.append(s)
    return lines, cur


def tokens(line):
    """split a line template on blanks: list of tokens, each a literal string or a ('val', term, spec)."""
    out = []
    glue = False
    for s in line:
        if s[0] == "lit":
            parts = re.split(r"(\s+)", s[1])
            for p in parts:
                if p == "":
                    continue
                if p.isspace():
                    glue = False
                    continue
                if glue and out and isinstance(out[-1], str):
                    out[-1] += p
                elif glue and out:
                    out.append(("glued", out.pop(), p))
                else:
                    out.append(p)
                glue = True
        else:
            if glue and out:
                out.append(("glued", out.pop(), s))
            else:
                out.append(s)
            glue = True
    return out


def check_writer(run, pkg, ndim):
    bb = ("sym", "boxbounds")

    def assume(c):
        if c[0] == "cmp" and c[2] in (("call", "builtins.len", (bb,), ()), ("sub", ("attr", bb, "shape"), C(0))) and is_const(c[3]) and isinstance(c[3][1], int):
            k = c[3][1]
            return {"==": ndim == k, "!=": ndim != k, "<": ndim < k, "<=": ndim <= k, ">": ndim > k, ">=": ndim >= k}.get(c[1])
        return None
    it = Interp(pkg, pkg.func(f"{WR}.write_dump_header"), assume=assume)
    fi = it.fi
    fq = short(fi.qual)
    loc = fi.loc()
    if len(it.returns) != 1:
        raise AnalysisError(f"{fq}[{ndim}D]: expected one return")
    retv = it.returns[0].data["value"]
    # the layout (2-D with a dummy z line / 3-D) may depend on the NUMBER of bound rows only: a test on the bound values makes
    # some boxes of the same dimension come out in the other layout
    for x in walk(retv):
        if x[0] == "phi" and any(y[0] == "sub" and (y[1] == bb or (y[1][0] == "sub" and y[1][1] == bb)) for y in walk(x[1])):
            from ..concrete import ev as cev
            boxes = [np.array([[0.0, 30.0], [0.0, 30.0], [0.0, 50.0]][:ndim]), np.array([[0.0, 30.0], [0.0, 30.0], [0.0, 1.0]][:ndim]), np.array([[-5.0, 5.0], [2.0, 2.5], [-0.25, 0.25]][:ndim])]
            try:
                vals = [bool(cev(x[1], {bb: b})) for b in boxes]
            except Exception:  # noqa
                vals = None
            if vals is not None and len(set(vals)) > 1:
                k_ = vals.index(not vals[0])
                run.ob("R-PROTO", fq, f"{ndim}D:layout-by-value", False, "boxes of one dimension are all written in the same layout (the layout depends on the number of bound rows only)",
                       f"the header text depends on {show(x[1])[:80]}", witness=f"{ndim}D boxes {boxes[0].tolist()} and {boxes[k_].tolist()} are written in different layouts: one of them is read back "
                       f"with wrong z bounds / a missing column", loc=loc, sound=True)
                return None
    lines, rest = to_lines(flatten(retv))
    ok9 = len(lines) == 9 and not rest
    run.ob("R-PROTO", fq, f"{ndim}D:nine-lines", ok9, "the header is nine newline-terminated lines (a dummy third bounds line in 2D)", f"{len(lines)} lines, trailing text {bool(rest)}",
           witness=None if ok9 else f"{ndim}D header of {len(lines)} lines: every reader skips nine lines, the atom block is misaligned", loc=loc, sound=True)
    if len(lines) < 9:
        return None
    toks = [tokens(l) for l in lines]

    def lit_is(k, text):
        return all(isinstance(t, str) for t in toks[k]) and " ".join(toks[k]) == text

    def single_val(k, term):
        # token structure of the reconstructed line is exact; the value term is compared tri-state
        if not (len(toks[k]) == 1 and not isinstance(toks[k][0], str) and toks[k][0][0] == "val"):
            return False
        return eqv(toks[k][0][1], term)
    ok = lit_is(0, "ITEM: TIMESTEP")
    run.ob("R-PROTO", fq, f"{ndim}D:line1", ok, "line 1 is `ITEM: TIMESTEP`", str(toks[0])[:60], witness=None if ok else "first header line changed", loc=loc, sound=True)
    ok = single_val(1, ("sym", "timestep"))
    run.ob("R-PROTO", fq, f"{ndim}D:line2", ok, "line 2 is the timestep alone", str(toks[1])[:60], witness=None if ok else "readers take int(line 2) as the timestep", loc=loc, sound=True)
    ok = lit_is(2, "ITEM: NUMBER OF ATOMS")
    run.ob("R-PROTO", fq, f"{ndim}D:line3", ok, "line 3 is `ITEM: NUMBER OF ATOMS`", str(toks[2])[:60], witness=None if ok else "third header line changed", loc=loc, sound=True)
    ok = single_val(3, ("sym", "nparticle"))
    run.ob("R-PROTO", fq, f"{ndim}D:line4", ok, "line 4 is the particle count alone", str(toks[3])[:60], witness=None if ok else "readers take int(line 4) as the particle number", loc=loc, sound=True)
    ok = all(isinstance(t, str) for t in toks[4]) and toks[4][:3] == ["ITEM:", "BOX", "BOUNDS"] and "xy" not in toks[4]
    run.ob("R-PROTO", fq, f"{ndim}D:line5", ok, "line 5 announces orthogonal box bounds (no tilt tokens)", str(toks[4])[:60],
           witness=None if ok else "readers detect `xy` on this line and switch to the triclinic branch", loc=loc, sound=True)
    for r in range(3):
        tk = toks[5 + r]
        key = f"{ndim}D:line{6 + r}"
        if r < ndim:
            want = [("sub", ("sub", bb, C(r)), C(c)) for c in range(2)]
            alt = [("sub", bb, ("tuple", (C(r), C(c)))) for c in range(2)]
            got = [t[1] if (not isinstance(t, str) and t[0] == "val") else None for t in tk]
            ok = tri(*[eqv(g_, w_, a_, same=True) for g_, w_, a_ in zip(got, want, alt)]) if (len(tk) == 2 and None not in got) else False
            run.ob("R-PROTO", fq, key, ok, f"line {6 + r} is `lo hi` of axis {r}", str([show(g) if g else g for g in got])[:80],
                   witness=None if ok else f"bounds of axis {r} written from another axis / order hi lo", loc=loc, sound=True)
        else:
            vals = []
            for t in tk:
                if isinstance(t, str):
                    try:
                        vals.append(float(t))
                    except ValueError:
                        vals.append(None)
                elif t[0] == "val" and is_const(t[1]) and isinstance(t[1][1], (int, float)):
                    vals.append(float(t[1][1]))
                else:
                    vals.append(None)
            ok = len(vals) == 2 and None not in vals and vals[0] < vals[1]
            run.ob("R-PROTO", fq, key, ok, "in 2D line 8 is a dummy z range `lo hi` with lo < hi (readers skip it; LAMMPS needs it)", str(vals),
                   witness=None if ok else "2D header lacks a well-formed third bounds line", loc=loc, sound=True)
    t9 = toks[8]
    names = [t for t in t9 if isinstance(t, str)]
    want_names = ["ITEM:", "ATOMS", "id", "type"] + ["x", "y", "z"][:ndim]
    ok = names[:len(want_names)] == want_names
    run.ob("R-PROTO", fq, f"{ndim}D:line9", ok, f"line 9 is `ITEM: ATOMS id type {' '.join(['x', 'y', 'z'][:ndim])} ...`: the coordinate style starts at token 3", str(t9)[:90],
           witness=None if ok else "readers take tokens[2:] of line 9 as column names and expect x/xs/xu there", loc=loc, sound=True)
    extra = [t for t in t9[len(want_names):]]
    ok = all((not isinstance(t, str)) and t[0] == "val" and t[1] == ("sym", "addson") for t in extra) or not extra
    run.ob("R-PROTO", fq, f"{ndim}D:addson", True if ok else None, "additional column names follow the coordinates", str(extra)[:60], witness=None if ok else "addson glued / misplaced", loc=loc)
    return toks


def check_data_header(run, pkg):
    bb = ("sym", "boxbounds")
    for ndim in (2, 3):
        def assume(c, ndim=ndim):
            # any comparison of the number of bound rows with a constant is decided by the configuration
            if c[0] == "cmp" and c[2] in (("call", "builtins.len", (bb,), ()), ("sub", ("attr", bb, "shape"), C(0))) and is_const(c[3]) and isinstance(c[3][1], int):
                k = c[3][1]
                return {"==": ndim == k, "!=": ndim != k, "<": ndim < k, "<=": ndim <= k, ">": ndim > k, ">=": ndim >= k}.get(c[1])
            return None
        it = Interp(pkg, pkg.func(f"{WR}.write_data_header"), assume=assume)
        fq = short(it.fi.qual)
        loc = it.fi.loc()
        lines, rest = to_lines(flatten(it.returns[0].data["value"]))
        toks = [tokens(l) for l in lines]
        bl = [t for t in toks if len(t) == 4 and t[2:] in (["xlo", "xhi"], ["ylo", "yhi"], ["zlo", "zhi"])]
        ok = [t[2] for t in bl] == ["xlo", "ylo", "zlo"]
        if not ok and any((not isinstance(x, str)) and x[0] == "val" and len(x) > 2 and x[2] in ("", None) and x[1][0] in ("phi", "fstr", "call", "bin", "sub")
                          for t in toks for x in t):
            ok = None          # a spliced piece of text whose content this rule does not know may carry the missing tokens
        run.ob("R-PROTO", fq, f"{ndim}D:bounds-lines", ok, "three bounds lines labelled xlo xhi / ylo yhi / zlo zhi in this order", str([t[2:] for t in bl]),
               witness=None if ok else "LAMMPS reads the box from these labels: an axis is missing or duplicated", loc=loc, sound=True)
        for r, t in enumerate(bl[:3]):
            if r < ndim:
                got = [x[1] if not isinstance(x, str) else None for x in t[:2]]
                want = [("sub", ("sub", bb, C(r)), C(c)) for c in range(2)]
                okr = tri(*[eqv(g_, w_) for g_, w_ in zip(got, want)]) if None not in got else None
                run.ob("R-PROTO", fq, f"{ndim}D:{t[2]}", okr, f"the {t[2]} {t[3]} line carries boxbounds[{r}]", str([show(g) if g else g for g in got]),
                       witness=None if okr else f"axis {r} labelled with another axis' numbers", loc=loc, sound=True)
        cnt = [t for t in toks if len(t) == 2 and t[1] == "atoms"]
        okc = tri_lazy(lambda: (True if (len(cnt) == 1) else None), lambda: (True if (not isinstance(cnt[0][0], str)) else None), lambda: eqv(cnt[0][0][1], ("sym", "nparticle")))
        run.ob("R-PROTO", fq, f"{ndim}D:atoms", okc, "`<nparticle> atoms` line", str(cnt)[:60], witness=None if okc else "atom count line wrong", loc=loc, sound=True)
        ty = [t for t in toks if len(t) == 3 and t[1:] == ["atom", "types"]]
        okt = tri_lazy(lambda: (True if (len(ty) == 1) else None), lambda: (True if (not isinstance(ty[0][0], str)) else None), lambda: eqv(ty[0][0][1], ("sym", "nparticle_type")))
        run.ob("R-PROTO", fq, f"{ndim}D:types", okt, "`<nparticle_type> atom types` line", str(ty)[:60], witness=None if okt else "type count line wrong", loc=loc, sound=True)


# ====================================================================== text readers
def check_text_reader(run, pkg, fname, ndim, style, wtoks, light=False):
    rr = ReaderRun(pkg, fname, ndim, False, style)
    fq, cfg = rr.fq, f"{ndim}D/{style}"
    loc = rr.fi.loc()
    atom_of = rr.atom_of()
    ae = rr.ae

    def tr(t):
        T = S.Translator(atom_of)
        e = T.tr(t)
        return e, T.atoms
    nh = len(rr.header_ids)
    run.ob("R-PROTO", fq, f"{cfg}:header-lines", nh == 9, "nine header lines are consumed before the atom block - as many as the writer emits", f"{nh} header lines read",
           witness=None if nh == 9 else f"{cfg}: writer emits 9 header lines, reader consumes {nh}", loc=loc, sound=not _other_reads(rr))   # count of distinct readline() results ahead of the atom loop on this configuration's path (no other way of consuming lines present)
    if len(rr.atom_ids) != 1:
        run.ob("R-PROTO", fq, f"{cfg}:atom-branch", None, f"style '{style}' has an atom-reading branch", f"{len(rr.atom_ids)} atom-line reads",
               witness=f"{cfg}: atom block left unread" if not rr.atom_ids else None, loc=loc)
        return
    kws = rr.kwargs()
    # writer/reader agreement on the roles of header lines
    e, at = tr(ae.deep(kws["timestep"]))
    okt = e == sp.Symbol("L1_0", real=True)
    wr_ok = wtoks is not None and len(wtoks[1]) == 1 and not isinstance(wtoks[1][0], str) and wtoks[1][0][1] == ("sym", "timestep")
    okt_ = (okt and wr_ok) if (okt or not at) else None
    run.ob("R-PROTO", fq, f"{cfg}:timestep", okt_, "the timestep is read from the line (2) where the writer puts it", sp.sstr(e)[:50],
           witness=None if okt_ is not False else "written timestep and read timestep come from different lines", loc=loc, sound=True)
    Lid = rr.atom_loops[0]
    if Lid not in rr.it.loops:
        run.ob("R-PROTO", fq, f"{cfg}:count", None, "the atom block is read line by line in a loop over the particle count", "atom lines are not read in a statement loop (comprehension / bulk parser)", loc=loc)
        return
    L = rr.it.loops[Lid]
    e, at = tr(ae.deep(L.iter[2][0])) if L.iter and L.iter[0] == "call" and L.iter[1] == "builtins.range" and len(L.iter[2]) == 1 else (None, True)
    okn = e == sp.Symbol("L3_0", real=True)
    okn_ = okn if (okn or (e is not None and not at)) else None
    run.ob("R-PROTO", fq, f"{cfg}:count", okn_, "the number of atom lines read is the integer on line 4, where the writer puts the particle count", sp.sstr(e)[:50] if e is not None else "?",
           witness=None if okn_ is not False else "atom block length differs from the written count", loc=loc, sound=True)
    if light:
        return
    # bounds
    for r in range(ndim):
        for c in range(2):
            try:
                ent = ae.entry(kws["boxbounds"], (r, c))
                g, at = tr(ent)
                ok = g == sp.Symbol(f"L{5 + r}_{c}", real=True)
                run.ob("R-PROTO", fq, f"{cfg}:bounds[{r},{c}]", ok if (ok or not at) else None, f"boxbounds[{r},{c}] is token {c + 1} of header line {6 + r} (writer: lo hi of axis {r})", sp.sstr(g)[:50],
                       witness=None if ok else f"bound taken from {sp.sstr(g)[:30]}", loc=loc, sound=True)
            except (NoEntry, IndexError, TypeError) as ex:
                run.ob("R-PROTO", fq, f"{cfg}:bounds[{r},{c}]", None, "bounds entry resolvable", str(ex), loc=loc)
    for r in range(ndim):
        try:
            g, at = tr(ae.entry(kws["boxlength"], (r,)))
            want = sp.Symbol(f"L{5 + r}_1", real=True) - sp.Symbol(f"L{5 + r}_0", real=True)
            ok = sp.expand(g - want) == 0
            run.ob("R-ALG", fq, f"{cfg}:boxlength[{r}]", ok if (ok or not at) else None, f"boxlength[{r}] = hi - lo of axis {r}", sp.sstr(g)[:50], witness=None if ok else "box length wrong", loc=loc, sound=True)
            for c in range(ndim):
                g2, at2 = tr(ae.entry(kws["hmatrix"], (r, c)))
                ok2 = sp.expand(g2 - (want if r == c else 0)) == 0
                run.ob("R-ALG", fq, f"{cfg}:hmatrix[{r},{c}]", ok2 if (ok2 or not at2) else None, "cell matrix is diag(boxlength)", sp.sstr(g2)[:50], witness=None if ok2 else "cell matrix wrong", loc=loc, sound=True)
        except (NoEntry, IndexError, TypeError) as ex:
            run.ob("R-ALG", fq, f"{cfg}:boxlength[{r}]", None, "box length resolvable", str(ex), loc=loc)
    # names from line 9
    if fname == "read_lammps_centertype":
        asked = [c for c in rr.asked if c[2][1] in ("x", "xs", "xu")]
        okn = bool(asked) and all(nm[0] == "sub" and nm[2] == ("slice", C(2), NONE, NONE) and nm[1][0] == "call" and nm[1][1] == ".split" and rr.line_of(nm[1][2][0]) == 8
                                  for nm in (c[3] for c in asked))
        recog = bool(asked) and all(nm[0] == "sub" and nm[1][0] == "call" and nm[1][1] == ".split" and rr.line_of(nm[1][2][0]) is not None for nm in (c[3] for c in asked))
        okn_ = okn if (okn or recog) else None
        run.ob("R-PROTO", fq, f"{cfg}:names", okn_, "the coordinate style is taken from tokens[2:] of header line 9 (writer: id type x y [z] ...)", f"{len(asked)} style tests",
               witness=None if okn_ is not False else "style detected from another line / offset", loc=loc, sound=True)
    # ---- atom-line stores
    a = [sp.Symbol(f"a{c}", real=True) for c in range(12)]
    sts = [ev for ev in rr.it.events if ev.kind == "store" and Lid in ev.loops]
    tstore = pstore = None
    pstores = []
    for ev in sts:
        base = strip_alloc(ev.data["target"][1])
        if base[0] == "call" and base[1] == "numpy.zeros":
            shp = base[2][0]
            if shp[0] == "tuple":
                pstore = ev
                pstores.append(ev)
            else:
                tstore = ev
    for nm, ev in (("type", tstore), ("values", pstore)):
        if ev is None:
            run.ob("R-IDX", fq, f"{cfg}:{nm}:row", None, f"per-atom store of {nm} found", "missing", loc=loc)
            continue
        tg = ev.data["target"][2]
        row = tg[1][0] if tg[0] == "tuple" else tg
        g, at = tr(ae.deep(row))
        ok = sp.expand(g - (a[0] - 1)) == 0
        if not ok and at and all(x[0] == "loopvar" for x in walk(ae.deep(row)) if x[0] in ("loopvar", "sub", "call", "sym")):
            at = {}
        run.ob("R-IDX", fq, f"{cfg}:{nm}:row", ok if (ok or not at) else None, f"{nm} of an atom line are stored at row (atom id) - 1", sp.sstr(g)[:50],
               witness=None if ok else "atom lines out of id order are stored at the wrong row", loc=loc_of(rr.it, ev), sound=True)
    if tstore is not None:
        g, at = tr(ae.deep(tstore.data["value"]))
        ok = g == a[1]
        run.ob("R-IDX", fq, f"{cfg}:type", ok if (ok or not at) else None, "the particle type is token 2 of the atom line", sp.sstr(g)[:50], witness=None if ok else "type from another column", loc=loc_of(rr.it, tstore), sound=True)
    if pstore is None:
        return
    val = strip_alloc(ae.deep(pstore.data["value"]))
    if fname == "read_lammps_vector":
        # every store into the value array is an alternative (stores under different tests): each one is decided
        for k_, ps in enumerate(pstores):
            v_ = strip_alloc(ae.deep(ps.data["value"]))
            check_vector_values(run, rr, fq, cfg + (f"#{k_}" if len(pstores) > 1 else ""), v_, ps, kws, ae)
        return
    # centre-type: [float(j) for j in item[2:ndim+2]] (* boxlength for xs)
    scale = None
    comp = val
    if val[0] == "bin" and val[1] == "*":
        comp, scale = (val[2], val[3]) if val[2][0] == "comp" else (val[3], val[2])
    okc = None
    if comp[0] == "comp" and len(comp[3]) == 1 and not comp[3][0][2]:
        cv, src, _ = comp[3][0]
        elt = comp[2]
        okc = tri_lazy(lambda: eqv(elt, ("call", "builtins.float", (cv,), ())), lambda: (True if (src[0] == "sub") else None), lambda: eqv(src[2], ("slice", C(2), C(ndim + 2), NONE)), lambda: (True if (src[1][0] == "call") else None), lambda: (True if (src[1][1] == ".split") else None))
    run.ob("R-IDX", fq, f"{cfg}:coords", okc, f"coordinates are tokens 3..{ndim + 2} of the atom line, counted from the front (trailing columns ignored)", show(comp)[:90],
           witness=None if okc else "coordinates read from other columns", loc=loc_of(rr.it, pstore), sound=True)
    # scaling is decided on the final positions (it may be applied per atom or to the whole array): see check_selection
    stored_scale = scale
    check_selection(run, rr, fq, cfg, kws, pstore, tstore, style, ndim, stored_scale)


def vector_values_by_evaluation(rr, val, pstore, ae):
    """The stored value (and the tests it sits under) evaluated for concrete requests: tokens 10, 20, ... on the atom line and
    column-id lists in ascending, descending and mixed order.  Returns (True | False | None, witness)."""
    from ..concrete import ev as cev
    splits = {x for x in walk(val) if x[0] == "call" and x[1] == ".split"}
    # only tests on the request decide which alternative runs; file-state tests (end of file, header checks) hold for a well-formed frame
    guards = [(ae.deep(c), pol) for c, pol in pstore.guards]
    guards = [(c, pol) for c, pol in guards if any(x == ("sym", "columnsids") for x in walk(c))]
    for c, _ in guards:
        splits |= {x for x in walk(c) if x[0] == "call" and x[1] == ".split"}
    tokens = [str(10 * (k + 1)) for k in range(12)]
    decided = False
    for ids in ([5, 6], [3, 4, 5], [7, 5], [8, 7, 6], [6, 8, 7], [4], [3, 6]):
        env = {("sym", "columnsids"): list(ids)}
        for sp_ in splits:
            env[sp_] = list(tokens)
        try:
            if not all(bool(cev(c, env)) == pol for c, pol in guards):
                continue
            got = [float(x) for x in np.asarray(cev(val, env)).ravel().tolist()]
        except Exception:  # noqa
            return None, None
        decided = True
        want = [float(tokens[c - 1]) for c in ids]
        if got != want:
            return False, f"columnsids={ids} on a line with tokens 10 20 30 ...: stored {got}, requested columns hold {want}"
    return (True if decided else None), None


def check_vector_values(run, rr, fq, cfg, val, pstore, kws, ae=None):
    loc = loc_of(rr.it, pstore)
    ok = None
    detail = show(val)[:100]
    if val[0] == "comp" and len(val[3]) == 1 and not val[3][0][2]:
        cv, src, _ = val[3][0]
        elt = val[2]
        # elt = float(item[j]) ; src = [int(i - 1) for i in columnsids]
        e_ok = elt[0] == "call" and elt[1] == "builtins.float" and elt[2][0][0] == "sub" and elt[2][0][2] == cv and elt[2][0][1][0] == "call" and elt[2][0][1][1] == ".split"
        s_ok = None
        if src[0] == "comp" and len(src[3]) == 1 and not src[3][0][2] and src[3][0][1] == ("sym", "columnsids"):
            cv2 = src[3][0][0]
            s_elt = src[2]
            if s_elt[0] == "call" and s_elt[1] == "builtins.int" and len(s_elt[2]) == 1:
                s_elt = s_elt[2][0]
            s_ok = eqv(s_elt, ("bin", "-", cv2, C(1)))
            if not s_ok:
                detail += f" ; index {show(s_elt)}"
        elif e_ok and src == ("sym", "columnsids"):
            s_ok = False
            detail += " ; column ids used as token indices without -1"
        ok = tri(True if e_ok else None, s_ok)
    wit_ev = None
    if ok is None and ae is not None:
        okev, wit_ev = vector_values_by_evaluation(rr, val, pstore, ae)
        if okev is False:
            ok = False
        elif okev is True:
            detail += " ; agrees with the request on 7 concrete column-id lists (not a proof)"
    run.ob("R-IDX", fq, f"{cfg}:columns", ok, "value k of an atom is token (column id k) - 1 of its line, in the order of the requested ids", detail,
           witness=None if ok else (wit_ev or "columnsids=[5, 6] on `id type x y vx vy` must give (vx, vy)"), loc=loc, sound=True)
    P = strip_alloc(kws["positions"])
    okp = P == strip_alloc(pstore.data["target"][1])
    run.ob("R-IDX", fq, f"{cfg}:positions-field", True if okp else None, "the id-indexed column array is returned in the positions field", show(P)[:60], witness=None if okp else "another array returned", loc=loc)
    n_ok = strip_alloc(rr.ae.deep(kws["nparticle"]))
    okn = n_ok[0] == "call" and n_ok[1] == "builtins.int"
    run.ob("R-PROTO", fq, f"{cfg}:nparticle", True if okn else None, "nparticle is the count on line 4", show(n_ok)[:50], witness=None if okn else "count from elsewhere", loc=loc)


def check_selection(run, rr, fq, cfg, kws, pstore, tstore, style, ndim, stored_scale=None):
    loc = rr.fi.loc()
    PT = strip_alloc(tstore.data["target"][1]) if tstore is not None else None
    PZ = strip_alloc(pstore.data["target"][1])
    mt = ("sym", "moltypes")
    T = strip_alloc(kws["particle_type"])
    P = strip_alloc(kws["positions"])
    # the mask
    masks = {x[2] for x in walk(T) if x[0] == "sub" and x[1] == PT} | {x[2] for x in walk(P) if x[0] == "sub" and x[1] == PZ}
    if len(masks) != 1:
        run.ob("R-SEL", fq, f"{cfg}:mask", None, "one selection mask is applied to both positions and types", f"{len(masks)} masks",
               witness="positions and types are selected by different masks" if len(masks) > 1 else None, loc=loc)
        return
    run.ob("R-SEL", fq, f"{cfg}:mask", True, "one selection mask is applied to both positions and types", show(list(masks)[0])[:80], loc=loc)
    m = list(masks)[0]
    okm = None
    full_m = m
    if m[0] == "call" and m[1] in ("numpy.flatnonzero", "numpy.nonzero") and len(m[2]) == 1 and not m[3]:
        m = m[2][0]            # the indices of the True entries select the same rows, in the same order, as the boolean mask
    elif m[0] == "sub" and m[2] == C(0) and m[1][0] == "call" and m[1][1] in ("numpy.where", "numpy.nonzero") and len(m[1][2]) == 1:
        m = m[1][2][0]
    if m[0] == "call" and m[1] in ("numpy.array", "numpy.asarray") and m[2] and m[2][0][0] == "comp":
        m = m[2][0]
    if m[0] == "comp" and len(m[3]) == 1 and not m[3][0][2]:
        cv, src, _ = m[3][0]
        elt = m[2]
        member = [("cmp", "in", cv, ("call", ".keys", (mt,), ())), ("cmp", "in", cv, mt)]
        if elt[0] == "phi" and elt[2] == C(True) and elt[3] == C(False):
            elt = elt[1]
        okm = tri(eqv(src, PT), eqv(elt, *member, same=True))
    elif m[0] == "call" and m[1] == "numpy.isin" and m[2] and m[2][0] == PT:
        okm = True
    run.ob("R-SEL", fq, f"{cfg}:membership", okm, "an atom is selected exactly when its type is a key of the type map; the mask runs over the id-ordered type array", show(m)[:100],
           witness=None if okm else "moltypes={3:1,5:2}: atoms of other types selected / centres dropped", loc=loc, sound=True)
    m = full_m
    # relabel
    want_T = ("attr", ("call", ".map", (("call", "pandas.Series", (("sub", PT, m),), ()), mt), ()), "values")
    alt_T = ("call", ".to_numpy", (("call", ".map", (("call", "pandas.Series", (("sub", PT, m),), ()), mt), ()),), ())
    okT = True if T in (want_T, alt_T) else (False if T == ("sub", PT, m) else None)     # the bare selected types: never passed through the map
    run.ob("R-SEL", fq, f"{cfg}:relabel", okT, "selected types are relabelled through the map (key -> value), order kept", show(T)[:100],
           witness=None if okT else "molecule types are not the map's values", loc=loc, sound=True)
    n = strip_alloc(kws["nparticle"])
    okn = eqv(n, ("sub", ("attr", T, "shape"), C(0)), ("call", "builtins.len", (T,), ()), same=True)
    if okn is None:
        try:
            if S.Translator(rr.atom_of()).tr(rr.ae.deep(kws["nparticle"])) == sp.Symbol("L3_0", real=True):
                okn = False        # the count on header line 4: all atoms of the file, not the selected ones
        except Exception:  # noqa
            pass
    run.ob("R-SEL", fq, f"{cfg}:count", okn, "nparticle is the number of selected atoms", show(n)[:60], witness=None if okn else "nparticle is the atom count of the file", loc=loc, sound=True)
    # positions post-processing, decided point-wise: the selection mask only picks rows, so it is dropped and the per-atom
    # stored value (token, or token x boxlength) is substituted for the array
    sel = ("sub", PZ, m)
    BL = strip_alloc(kws["boxlength"])
    BB = strip_alloc(kws["boxbounds"])
    lo_t = ("sub", BB, ("tuple", (FULL, C(0))))
    hi_t = ("sub", BB, ("tuple", (FULL, C(1))))
    s_, L_, lo_s, hi_s = sp.symbols("s L lo hi", real=True)

    def drop_mask(t):
        return subst(t, lambda x: x[1] if (x[0] == "sub" and x[2] == m) else None)
    Pp = drop_mask(P)
    stored = s_ * (L_ if stored_scale is not None and strip_alloc(rr.ae.deep(stored_scale)) in (BL, strip_alloc(rr.ae.deep(kws["boxlength"]))) else 1)
    if stored_scale is not None and stored == s_:
        stored = None

    def at(t):
        if t == PZ:
            return stored
        if t == BL or t == strip_alloc(rr.ae.deep(kws["boxlength"])):
            return L_
        if t == lo_t:
            return lo_s
        if t == hi_t:
            return hi_s
        return None
    if stored is None:
        run.ob("R-ALG", fq, f"{cfg}:positions", None, "per-atom stored value recognised", show(stored_scale)[:60], loc=loc)
        return
    # an array that is also written by element / masked stores after it was built: its term shows the allocation or the copy
    # only, not what the stores put there - the point-wise form cannot be read off the term
    bases = {drop_mask(strip_alloc(e.data["target"][1])) for e in stores(rr.it) if e.data["target"][0] == "sub" and not e.loops}
    touched = [b for b in bases if any(strip_alloc(x) == b for x in walk(Pp)) and b[0] == "call" and b[1] in (".copy", "numpy.copy", "numpy.array", "numpy.where", "numpy.empty_like", "numpy.zeros_like")]
    if touched:
        run.ob("R-ALG", fq, f"{cfg}:positions", None, "point-wise form of the returned positions", "the returned array is filled by masked / element stores after it was built: not decided by this rule", loc=loc)
        return
    tr = S.Translator(at)
    try:
        g = tr.tr(Pp)
    except Exception as ex:  # noqa
        run.ob("R-ALG", fq, f"{cfg}:positions", None, "positions term translatable", str(ex)[:80], loc=loc)
        return
    if style == "xu":
        ok, how = S.decide_equal(g, s_)
        what = "unwrapped coordinates of the selected atoms are returned verbatim"
    elif style == "xs":
        ok, how = S.decide_equal(g, s_ * L_ + lo_s)
        what = "scaled coordinates of the selected atoms map to s x boxlength + lower box corner (scaling per atom or on the whole array)"
    else:
        w1 = sp.Piecewise((s_ + L_, s_ < lo_s), (s_, True))
        ref1 = sp.Piecewise((w1 - L_, w1 > hi_s), (w1, True))
        w2 = sp.Piecewise((s_ - L_, s_ > hi_s), (s_, True))
        ref2 = sp.Piecewise((w2 + L_, w2 < lo_s), (w2, True))
        ok, how = S.decide_equal(g, ref1)
        if ok is not True:
            ok2, how2 = S.decide_equal(g, ref2)
            if ok2 is True:
                ok, how = ok2, how2
        what = "wrapped coordinates of the selected atoms: + L below lo, - L above hi, else unchanged"
    if ok is False and tr.atoms:
        ok = None
    run.ob("R-ALG", fq, f"{cfg}:positions", ok, what, f"point-wise form {sp.sstr(g)[:120]}", witness=None if ok is not False else how, loc=loc, sound=True)


def check_dict_order(run, pkg):
    """The type map is keyed by atom type: a routine that sorts its keys but takes its values in insertion order (or the
    reverse) pairs keys and values of different entries."""
    mi = pkg.module("reader.lammps_reader_helper")
    for fi in mi.functions.values():
        if "moltypes" not in fi.params:
            continue
        it = interp(pkg, fi.qual)
        fq = short(fi.qual)
        mt = ("sym", "moltypes")
        keys_sorted = vals_raw = keys_raw = vals_sorted = None
        for e in it.events:
            for v in e.data.values():
                if not isinstance(v, tuple):
                    continue
                for x in walk(v):
                    if x[0] == "call" and x[1] in ("builtins.sorted", "numpy.sort", "numpy.unique") and x[2]:
                        inner = x[2][0]
                        src = [y for y in walk(inner) if y[0] == "call" and y[1] in (".keys", ".values", ".items") and y[2] and y[2][0] == mt] or ([inner] if inner == mt else [])
                        for y in src:
                            if y == mt or y[1] == ".keys":
                                keys_sorted = e
                            elif y[1] == ".values":
                                vals_sorted = e
                    if x[0] == "call" and x[1] == ".values" and x[2] and x[2][0] == mt:
                        vals_raw = vals_raw or e
                    if x[0] == "call" and x[1] == ".keys" and x[2] and x[2][0] == mt:
                        keys_raw = keys_raw or e
        # raw occurrences that are themselves inside a sort do not count as raw
        def raw_only(ev, which):
            if ev is None:
                return None
            for v in ev.data.values():
                if isinstance(v, tuple):
                    for x in walk(v):
                        if x[0] == "call" and x[1] == which and x[2] and x[2][0] == mt:
                            inside = any(z[0] == "call" and z[1] in ("builtins.sorted", "numpy.sort", "numpy.unique") and any(w is x or w == x for w in walk(z)) for v2 in ev.data.values() if isinstance(v2, tuple) for z in walk(v2))
                            if not inside:
                                return ev
            return None
        vr = raw_only(vals_raw, ".values")
        bad = keys_sorted is not None and vr is not None and vals_sorted is None
        if keys_sorted is None and vr is None:
            continue
        run.ob("R-SEL", fq, "map-order", not bad, "keys and values of the type map are paired entry by entry (looked up by key, or both taken in the same order)",
               (f"keys sorted at {key_of(keys_sorted)[:60]}; values in insertion order at {key_of(vr)[:60]}" if bad else "consistent"),
               witness=None if not bad else "moltypes = {5: 1, 3: 2}: sorted keys [3, 5] are paired with values [1, 2]: atoms of type 5 become molecule type 2",
               loc=loc_of(it, vr) if bad else fi.loc(), sound=True)


# ====================================================================== read_additions
def check_additions(run, pkg, wtoks):
    it = interp(pkg, f"{MOD}.read_additions")
    fi = it.fi
    fq = short(fi.qual)
    loc = fi.loc()
    content = None
    for e in it.events:
        if e.kind == "assign" and e.data["value"][0] == "call" and e.data["value"][1] == ".readlines":
            content = e.data["value"]
    if content is None:
        raise AnalysisError(f"{fq}: file content not read with readlines()")
    N, n, Ln = sp.symbols("N n Len", integer=True, positive=True)
    npart = ("call", "builtins.int", (("sub", content, C(3)),), ())
    st = [e for e in stores(it) if e.loops and e.data["target"][2][0] == "tuple"]
    if len(st) != 1:
        raise AnalysisError(f"{fq}: expected one store into the result array")
    ev = st[0]
    Lf, Li = it.loops[ev.loops[0]], it.loops[ev.loops[1]]
    nvar = Lf.target

    def atom_of(t):
        if t == npart:
            return N
        if t == nvar:
            return n
        if t == ("call", "builtins.len", (content,), ()):
            return Ln
        return None
    uses3 = any(x == npart for e in it.events for v in e.data.values() if isinstance(v, tuple) for x in walk(v))
    wr_ok = wtoks is not None and len(wtoks[3]) == 1
    other_lines = sorted({x[2][0][2][1] for e in it.events for v in e.data.values() if isinstance(v, tuple) for x in walk(v)
                          if x[0] == "call" and x[1] == "builtins.int" and len(x[2]) == 1 and x[2][0][0] == "sub" and x[2][0][1] == content and is_const(x[2][0][2]) and x[2][0][2][1] != 3})
    okcl = True if (uses3 and wr_ok) else (False if (not uses3 and other_lines and wr_ok) else None)
    run.ob("R-PROTO", fq, "count-line", okcl, "the particle count is the integer on line 4 (index 3), where the writer puts it", show(npart),
           witness=None if uses3 and wr_ok else f"count read from header line index {other_lines}", loc=loc, sound=True)
    # frames
    fr = Lf.iter
    okf = None
    if fr[0] == "call" and fr[1] == "builtins.range" and len(fr[2]) == 1:
        tr = S.Translator(atom_of)
        try:
            g = tr.tr(fr[2][0])
            okf = True if (not tr.atoms and any(sp.simplify(g - f_) == 0 for f_ in (S.PyInt(Ln / (N + 9)), sp.floor(Ln / (N + 9)), S.PyInt(Ln // (N + 9))))) else None
            if not okf:
                # Len // (N+9)
                okf = eqv(fr[2][0], ("bin", "//", ("call", "builtins.len", (content,), ()), ("bin", "+", npart, C(9))))
        except Exception:  # noqa
            okf = None
    run.ob("R-PROTO", fq, "frames", okf, "number of frames = file length / (N + 9): nine header lines per frame as written", show(fr)[:80],
           witness=None if okf else "header size assumed by the stride differs from the nine lines the writer emits", loc=loc, sound=True)
    # block slice
    sl = Li.iter
    oks = None
    if sl[0] == "sub" and sl[1] == content and sl[2][0] == "slice" and sl[2][3] == NONE:
        tr = S.Translator(atom_of)
        try:
            lo, hi = tr.tr(sl[2][1]), tr.tr(sl[2][2])
            if not tr.atoms:
                oks = sp.expand(lo - (n * (N + 9) + 9)) == 0 and sp.expand(hi - (n + 1) * (N + 9)) == 0
                wit = None if oks else f"frame n: atom block taken as lines [{sp.expand(lo)}, {sp.expand(hi)}), the writer's layout puts it at [n(N+9)+9, (n+1)(N+9))"
        except Exception:  # noqa
            oks = None
    run.ob("R-PROTO", fq, "atom-block", oks, "frame n's atom lines are content[n(N+9)+9 : (n+1)(N+9)] (polynomial identity in n, N)", show(sl)[:100],
           witness=None if oks else (wit if oks is False else None), loc=loc, sound=True)   # polynomial identity in (n, N) with no other constructs
    # placement
    item = Li.target
    tg = ev.data["target"][2][1]
    row_ok = eqv(tg[0], nvar)
    col = tg[1]
    sp_item = ("call", ".split", (item,), ())
    okc = eqv(col, ("bin", "-", ("call", "builtins.int", (("sub", sp_item, C(0)),), ()), C(1)))
    run.ob("R-IDX", fq, "placement", tri(row_ok, okc), "value of an atom line is stored at [frame, atom id - 1]", show(ev.data["target"][2])[:80],
           witness=None if row_ok and okc else "values placed by line order / wrong frame row", loc=loc_of(it, ev), sound=True)
    v = ev.data["value"]
    if v[0] == "call" and v[1] == "builtins.float":
        v = v[2][0]
    okv = eqv(v, ("sub", sp_item, ("sym", "ncol")))
    run.ob("R-IDX", fq, "column", okv, "the requested zero-based column of the atom line is taken", show(ev.data["value"])[:60], witness=None if okv else "another column returned", loc=loc_of(it, ev), sound=True)


# ====================================================================== HOOMD
def check_gsd(run, pkg, fname, dcd):
    it = interp(pkg, f"reader.gsd_reader_helper.{fname}")
    fi = it.fi
    fq = short(fi.qual)
    loc = fi.loc()
    f = ("sym", "f_gsd" if dcd else "f")
    ctor = pkg.cls("reader.reader_utils.SingleSnapshot").qual
    cs = calls(it, ctor)
    in_comp = cs[0].data.get("in_comp") if len(cs) == 1 else None
    if len(cs) != 1 or not ((len(cs[0].loops) == 1 and not in_comp) or (not cs[0].loops and in_comp and len(in_comp) == 1)):
        raise AnalysisError(f"{fq}: expected one SingleSnapshot construction per frame (in the frame loop or a comprehension over the frames)")
    ce = cs[0]
    enum_index = None
    if in_comp:
        fr, frames_iter = in_comp[0]
        lnode = ce.node
    else:
        L = it.loops[ce.loops[0]]
        fr, frames_iter, lnode = L.target, L.iter, L.node
    if frames_iter is not None and frames_iter[0] == "call" and frames_iter[1] == "builtins.enumerate" and len(frames_iter[2]) == 1:
        # for i, frame in enumerate(f): the frame object is component 1 of the target, the counter component 0
        frames_iter = frames_iter[2][0]
        enum_index, fr = ("elem", fr, 0), ("elem", fr, 1)
    okl = eqv(frames_iter, f)
    run.ob("R-LOOPDOM", fq, "frames", okl, "every frame object of the trajectory is converted, in order", show(frames_iter)[:40], witness=None if okl else "frames skipped", loc=fi.loc(lnode), sound=True)
    kws = dict(ce.data["call"][3])
    nd = ("sym", "ndim")
    cut = ("slice", NONE, nd, NONE)
    want = {
        "timestep": (("attr", ("attr", fr, "configuration"), "step"), "timestep = configuration.step"),
        "nparticle": (("attr", ("attr", fr, "particles"), "N"), "nparticle = particles.N"),
        "particle_type": (("bin", "+", ("attr", ("attr", fr, "particles"), "typeid"), C(1)), "types = typeid + 1 (HOOMD ids start at 0, the library's at 1)"),
        "boxlength": (("sub", ("attr", ("attr", fr, "configuration"), "box"), cut), "boxlength = configuration.box[:ndim]"),
    }
    for k, (w, what) in want.items():
        got = kws.get(k)
        ok = eqv(got, w)
        if ok is None and got is not None and k == "particle_type":
            ok = eqv(strip_casts(strip_alloc(got)), w)       # integer conversions of the id array keep its values
        run.ob("R-IDX" if k == "particle_type" else "R-ALG", fq, k, ok, what, show(got)[:70] if got else "missing",
               witness=None if ok else ("typeid 0 stays 0: every per-type table indexed with type - 1 reads row -1" if k == "particle_type" else f"{k} taken from another field"), loc=loc_of(it, ce), sound=True)
    hm = kws.get("hmatrix")
    okh = eqv(hm, ("call", "numpy.diag", (want["boxlength"][0],), ()))
    run.ob("R-ALG", fq, "hmatrix", okh, "cell matrix = diag(boxlength)", show(hm)[:60] if hm else "missing", witness=None if okh else "cell matrix wrong", loc=loc_of(it, ce), sound=True)
    pos = ("sub", ("attr", ("attr", fr, "particles"), "position"), ("tuple", (FULL, cut)))
    if not dcd:
        ok = eqv(kws.get("positions"), pos)
        if ok is None and kws.get("positions") == pos[1]:
            ok = False         # the full (N, 3) position array: never cut to the requested dimension
        run.ob("R-IDX", fq, "positions", ok, "positions are particles.position cut to the first ndim columns", show(kws.get("positions"))[:70], witness=None if ok else "2D: the z column is kept / wrong columns", loc=loc_of(it, ce), sound=True)
    # frame count
    ret = [r for r in it.returns if r.data["value"][0] == "call"]
    if len(ret) != 1:
        raise AnalysisError(f"{fq}: expected one Snapshots return")
    rk = dict(ret[0].data["value"][3])
    okn = eqv(rk.get("nsnapshots"), ("call", "builtins.len", (f,), ()), ("call", "builtins.len", (rk.get("snapshots"),), ()))
    run.ob("R-LOOPDOM", fq, "nsnapshots", okn, "nsnapshots is the number of frames", show(rk.get("nsnapshots"))[:50], witness=None if okn else "frame count wrong", loc=loc_of(it, ret[0]), sound=True)
    # dimension guard
    g = [r for r in it.returns if r.data["value"] == NONE and r.guards]
    okg = any(c == ("cmp", "!=", ("attr", ("attr", ("sub", f, C(0)), "configuration"), "dimensions"), nd) and pol for r in g for c, pol in r.guards)
    run.ob("R-DISPATCH", fq, "dimension-guard", True if okg else None, "a trajectory of another dimension is rejected", f"{len(g)} guarded None-returns", witness=None if okg else "3D file read as 2D silently", loc=loc)
    if not dcd:
        return
    # DCD positions attached per frame without storing into the frozen record
    dpos = ("sub", ("call", ".read", (("sym", "f_dcd"),), ()), C(0))
    lst_stores = [e for e in stores(it) if e.loops and e.loops != ce.loops]
    attr_stores = [e for e in stores(it) if e.data["target"][0] == "attr" and e.data["target"][2] == "positions"]
    run.ob("R-FROZEN", fq, "no-field-store", not attr_stores, "positions are not assigned to a field of a (frozen) SingleSnapshot", f"{len(attr_stores)} attribute stores",
           witness=None if not attr_stores else "FrozenInstanceError for every GSD+DCD pair", loc=loc_of(it, attr_stores[0]) if attr_stores else loc, sound=True)
    direct = kws.get("positions")
    if direct is not None and direct != NONE and not lst_stores and enum_index is not None:
        # the DCD positions are handed to the constructor frame by frame: for i, frame in enumerate(f_gsd): ... positions[i] ...
        dstrip = strip_phi_none(direct)
        okdir = eqv(dstrip, ("sub", ("sub", dpos, enum_index), ("tuple", (FULL, cut))))
        if okdir is None and dstrip == ("sub", dpos, enum_index):
            okdir = False
        run.ob("R-IDX", fq, "dcd:install", okdir, "frame i is built with DCD positions[i] cut to the first ndim columns", show(direct)[:100],
               witness=None if okdir else "ndim = 2: the frame carries the (N, 3) DCD array next to a 2 x 2 cell matrix - positions are not cut to the dimension", loc=loc_of(it, ce), sound=True)
        return
    if len(lst_stores) != 1:
        # comprehension form: [replace(s, positions=p[:, :ndim]) for s, p in zip(snapshots, positions)]
        okz = None
        snaps_t = rk.get("snapshots")
        if snaps_t is not None and snaps_t[0] == "comp" and len(snaps_t[3]) == 1 and not snaps_t[3][0][2]:
            cv, src, _ = snaps_t[3][0]
            elt = snaps_t[2]
            if src[0] == "call" and src[1] == "builtins.zip" and len(src[2]) == 2 and src[2][1] == dpos and elt[0] == "call" and elt[1] == "dataclasses.replace":
                okz = tri_lazy(lambda: (True if (elt[2]) else None), lambda: eqv(elt[2][0], ("elem", cv, 0)), lambda: eqv(dict(elt[3]).get("positions"), ("sub", ("elem", cv, 1), ("tuple", (FULL, cut)))))
        run.ob("R-IDX", fq, "dcd:install", okz, "each frame receives its DCD positions (frame i <- positions[i][:, :ndim])", f"{len(lst_stores)} list stores; returned list {show(snaps_t)[:80] if snaps_t else None}",
               witness=None if okz is not False else "frames paired with the wrong DCD frame / uncut columns", loc=loc, sound=True)
        return
    e = lst_stores[0]
    Li = it.loops[e.loops[0]]
    i = Li.target
    okd = eqv(Li.iter, ("call", "builtins.range", (("sub", ("attr", dpos, "shape"), C(0)),), ()))
    run.ob("R-LOOPDOM", fq, "dcd:frames", okd, "all DCD frames are attached", show(Li.iter)[:70], witness=None if okd else "frames without positions", loc=fi.loc(Li.node), sound=True)
    tgt_ok = eqv(e.data["target"][2], i)
    v = e.data["value"]
    okv = tri_lazy(lambda: (True if (v[0] == "call") else None), lambda: (True if (v[1] in ("dataclasses.replace",)) else None), lambda: (True if (v[2]) else None), lambda: (True if (v[2][0][0] == "sub") else None), lambda: (True if (v[2][0][2] == i) else None), lambda: eqv(dict(v[3]).get("positions"), ("sub", ("sub", dpos, i), ("tuple", (FULL, cut)))))
    run.ob("R-IDX", fq, "dcd:install", tri(tgt_ok, okv), "frame i is replaced by a copy of frame i carrying DCD positions[i][:, :ndim]", show(v)[:110],
           witness=None if tgt_ok and okv else "frame i receives positions of another frame / uncut columns", loc=loc_of(it, e), sound=True)
    chk = [r for r in it.returns if r.data["value"] == NONE and any(c[0] == "cmp" and c[1] == "!=" and ("call", "builtins.len", (rk.get("snapshots"),), ()) in (c[2], c[3]) for c, _ in r.guards)]
    run.ob("R-DISPATCH", fq, "dcd:consistency", True if chk else None, "GSD and DCD frame counts are compared before attaching", f"{len(chk)} guards", loc=loc) if chk else None


# ====================================================================== log
def check_log(run, pkg):
    it = interp(pkg, "reader.simulation_log.read_lammpslog")
    fi = it.fi
    fq = short(fi.qual)
    loc = fi.loc()
    data = None
    for e in it.events:
        if e.kind == "assign" and e.data["value"][0] == "call" and e.data["value"][1] == ".readlines":
            data = e.data["value"]
    if data is None:
        raise AnalysisError(f"{fq}: log not read with readlines()")

    def marker_list(t):
        """[i for i, val in enumerate(data) if val.startswith(S)] -> S"""
        if t[0] == "call" and t[1] == "numpy.array" and t[2]:
            t = t[2][0]
        while t[0] in ("appended", "phi"):
            if t[0] == "appended":
                t = t[1]            # a trailing incomplete section may be appended; complete sections come from the marker scan
            else:
                arms = {marker_list(t[2]), marker_list(t[3])}
                return arms.pop() if len(arms) == 1 else None
        if t[0] == "comp" and len(t[3]) == 1:
            cv, src, conds = t[3][0]
            if src == ("call", "builtins.enumerate", (data,), ()) and t[2] == ("elem", cv, 0) and len(conds) == 1:
                c = conds[0]
                if c[0] == "call" and c[1] == ".startswith" and c[2][0] == ("elem", cv, 1) and is_const(c[2][1]):
                    return c[2][1][1]
        return None
    rc = calls(it, "pandas.read_csv")
    if len(rc) != 1 or len(rc[0].loops) != 1:
        raise AnalysisError(f"{fq}: expected one read_csv per section")
    c = rc[0].data["call"]
    L = it.loops[rc[0].loops[0]]
    i = L.target
    skip = kw(c, "skiprows")
    nrows = kw(c, "nrows")
    start_t = skip[1] if skip and skip[0] == "sub" and skip[2] == i else None
    ln_t = nrows[1] if nrows and nrows[0] == "sub" and nrows[2] == i else None
    ms = marker_list(start_t) if start_t else None
    oks = True if ms == "Step " else None
    run.ob("R-PROTO", fq, "section-start", oks, "a section starts at a line beginning with `Step ` (the column header); reading skips exactly the lines before it", repr(ms),
           witness=None if oks else "sections start at another marker / offset: the header row is lost", loc=loc_of(it, rc[0]))
    okn = None
    me = None
    if ln_t is not None:
        # rows as an integer expression in the two marker-line arrays
        E_, S_ = sp.symbols("end start", integer=True)
        unknown = []

        def at_rows(t):
            if t[0] in ("call", "comp", "appended", "phi"):
                mk_ = marker_list(t)
                if mk_ == "Step ":
                    return S_
                if mk_ == "Loop time of ":
                    return E_
                if mk_ is not None:
                    unknown.append(mk_)
            return None
        try:
            trr = S.Translator(at_rows)
            trr.ufuncs = False
            g_rows = sp.expand(trr.tr(ln_t))
            if not trr.atoms and not unknown:
                okn = bool(sp.expand(g_rows - (E_ - S_ - 1)) == 0)
        except Exception:  # noqa
            okn = None
    run.ob("R-ALG", fq, "section-rows", okn, "rows of a section = (line of `Loop time of `) - (line of `Step `) - 1: every thermo line, none of the footer", show(ln_t)[:90] if ln_t else "?",
           witness=None if okn else "Step at line 10, Loop time at line 15: 4 data rows expected", loc=loc_of(it, rc[0]), sound=True)
    okd = (True if L.iter == ("call", "builtins.range", (("sub", ("attr", ln_t, "shape"), C(0)),), ()) else None) if ln_t else None
    run.ob("R-LOOPDOM", fq, "sections", okd, "every section is read", show(L.iter)[:70], witness=None if okd else "sections skipped", loc=fi.loc(L.node))
    okf = tri_lazy(lambda: (True if (c[2]) else None), lambda: eqv(c[2][0], ("sym", "filename")))
    sep = kw(c, "sep")
    run.ob("R-PROTO", fq, "whitespace", tri_lazy(lambda: (True if (bool(okf)) else None), lambda: eqv(sep, C(r"\s+"))), "sections are parsed from the same file with whitespace-separated columns", show(sep) if sep else "default",
           witness=None if okf and sep == C(r"\s+") else "columns not split on whitespace", loc=loc_of(it, rc[0]), sound=True)
    # a section may be skipped only when it holds no thermo line: any guard under which the section's read is not reached
    # is evaluated as a function of D = (line of `Loop time of`) - (line of `Step `) for D = 2..6 (1..5 data rows)
    D_ = sp.Symbol("D", integer=True)

    def norm_guard(c_):
        """short, stable rendering of a section test: marker-line arrays shown by role"""
        def fn(x):
            if x[0] == "sub" and x[2] == i:
                mk_ = marker_list(x[1])
                if mk_ == "Step ":
                    return ("sym", "start[i]")
                if mk_ == "Loop time of ":
                    return ("sym", "end[i]")
            return None
        return show(subst(c_, fn))[:60]

    def at_skip(t):
        if t[0] == "sub" and t[2] == i:
            mk_ = marker_list(t[1])
            if mk_ == "Step ":
                return sp.Symbol("start", integer=True)
            if mk_ == "Loop time of ":
                return sp.Symbol("start", integer=True) + D_
            if t[1][0] == "bin" and t[1][1] == "-":
                # linenum = end - start - 1 as an array
                try:
                    tr2 = S.Translator(lambda y: (sp.Symbol("start", integer=True) if marker_list(y) == "Step " else (sp.Symbol("start", integer=True) + D_ if marker_list(y) == "Loop time of " else None)))
                    tr2.ufuncs = False
                    e2 = tr2.tr(t[1])
                    if not tr2.atoms:
                        return e2
                except Exception:  # noqa
                    return None
        return None
    for c_, pol in rc[0].guards:
        if not any(x == i for x in walk(c_)):
            continue
        try:
            trs = S.Translator(at_skip)
            trs.ufuncs = False
            from ..concrete import ev as cev
            g_ = trs.rel(c_)
            if g_ is None or trs.atoms:
                raise ValueError("opaque")
            badD = None
            for dv in range(2, 7):
                val = g_.subs({D_: dv, sp.Symbol("start", integer=True): 7})
                if val not in (sp.true, sp.false):
                    raise ValueError("undecided")
                if bool(val) != pol:
                    badD = dv
                    break
            oksk = badD is None
            run.ob("R-LOOPDOM", fq, f"skip-guard:{'not ' if not pol else ''}{norm_guard(c_)}", True if oksk else False, "a complete section with at least one thermo line is never skipped",
                   f"the section's read is reached only when {show(c_)[:70]} is {pol}", witness=None if oksk else
                   f"`Step ` at line 7, `Loop time of ` at line {7 + badD}: the section holds {badD - 1} thermo line(s) but the test skips it; later sections shift position", loc=loc_of(it, rc[0]), sound=True)
        except Exception:  # noqa
            run.ob("R-LOOPDOM", fq, f"skip-guard:{'not ' if not pol else ''}{norm_guard(c_)}", None, "a complete section with at least one thermo line is never skipped", f"guard not evaluable: {show(c_)[:80]}", loc=loc_of(it, rc[0]))
    app = [e for e in it.events if e.kind == "call" and e.data["call"][1] == ".append" and e.loops == rc[0].loops and e.data["call"][2][1] == rc[0].data["result"]]
    ret = it.returns[0].data["value"] if it.returns else None
    okr = len(app) == 1 and ret is not None and ret[0] == "appended" and ret[2] == rc[0].data["result"]
    run.ob("R-LOOPDOM", fq, "return", True if okr else None, "the list of all section tables is returned, in order", show(ret)[:60] if ret else "?", witness=None if okr else "sections dropped", loc=loc)


def strip_phi_none(t):
    """`x if x is not None else y` with a definitely given x (the caller passes it): the value is x"""
    while t[0] == "phi" and t[1][0] == "cmp" and t[1][1] in ("is", "is not") and NONE in (t[1][2], t[1][3]):
        other = t[1][3] if t[1][2] == NONE else t[1][2]
        given = t[3] if t[1][1] == "is" else t[2]
        if other == given or other != NONE:
            t = given
        else:
            break
    return t
