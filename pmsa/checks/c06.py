"""C06 - relaxation functions equal their definitions averaged over all time origins.

R-LOOPDOM  Dynamics.relaxation visits every frame pair 0 <= origin < end <= T-1 once (end over range(1,T), lag over
           range(1,end+1)), slot = lag-1, one count per visit, every accumulator divided by the counts; LogDynamics uses
           origin 0 only; sq4 visits every origin with origin + n_t <= T-1 and divides by their number.
R-SIB      origin-index agreement: initial positions, the cell handed to remove_pbc, the neighbour list and the particle
           selection all belong to the origin frame; end positions to the end frame.  Dynamics and LogDynamics accumulate the
           same per-pair kernels (substitution origin -> 0).
R-PBC      remove_pbc is applied exactly when only wrapped coordinates were supplied (flag set in __init__) .
R-ALG      kernels (isf = mean cos(q_i dr), overlap fraction with slow '<' / fast '>', msd, r4), chi4 = (<Q^2>-<Q>^2) N_sel,
           alpha2 = alpha2factor(d) r4/r2^2 - 1, q_i = qconst/d_i, cutoffs (a d_i)^2, time axis (t[1:]-t[0]) dt,
           n_t = round(t/time[0]); cage-relative displacement r_i - mean r_{neighbours of i} with columns 1..cn.
R-HANDLE   the neighbour file is opened once, one frame read per trajectory frame, closed afterwards.
R-SAVE     CSV written from the returned frame.
"""
from __future__ import annotations

import itertools

import sympy as sp

from .common import *  # noqa
from ..vg import Interp, strip_alloc
from .grlib import pbc_args

MOD = "dynamic.dynamics"
SELF = ("sym", "self")


def A(obj, name):
    return ("attr", obj, name)


def SUB(a, i):
    return ("sub", a, i)


def CALL(f, *args, **kws):
    return ("call", f, tuple(args), tuple(kws.items()))


def BIN(op, a, b):
    return mkbin(op, a, b)


SNAPS = A(A(SELF, "snapshots"), "snapshots")
T_ = A(A(SELF, "snapshots"), "nsnapshots")
NEWAX = ("tuple", (("slice", NONE, NONE, NONE), ("mod", "numpy.newaxis")))


def frame(k):
    return SUB(SNAPS, k)


_eq_terms_common = eq_terms


def eq_terms(a, b):
    ok, how = _eq_terms_common(canon(a), canon(b))
    return ok, how, None, None


def run(run: Run, pkg: Package) -> None:
    run.explanation = (
        "Dynamics / LogDynamics are analysed for all 16 combinations of (wrapped-only flag, neighbour lists, selection, "
        "slow/fast): loop domains, slots and counts; origin-frame agreement of positions, cell, neighbour list and selection; "
        "per-pair kernels and final formulas compared (value-graph terms, exact algebra) with the definitions; constructor "
        "wiring of the PBC flag, time axis, cutoffs; neighbour-file protocol; sq4 lag and origin set.")
    run.extra["exhaustive"] = True
    check_init(run, pkg, "Dynamics")
    check_init(run, pkg, "LogDynamics")
    combos = list(itertools.product((True, False), repeat=4))
    if run.tier != "thorough":
        # every flag on, every flag off, and each single flag flipped: covers every guarded statement both ways
        combos = [(True, True, True, True), (False, False, False, False), (True, False, False, True), (False, True, False, True),
                  (False, False, True, True), (True, True, True, False)]
    run.extra["flag_combinations"] = len(combos)
    for cls in ("Dynamics", "LogDynamics"):
        for pbc, nl, sel, slow in combos:
            check_relaxation(run, pkg, cls, pbc, nl, sel, slow)
    for pbc, nl, sel, slow in combos:
        check_sq4(run, pkg, pbc, nl, sel, slow)
    check_cage(run, pkg)
    from .c03 import check_dim_table
    check_dim_table(run, pkg, "utils.funcs.alpha2factor", {3: sp.Rational(3, 5), 2: sp.Rational(1, 2)},
                    "non-Gaussian prefactor d/(d+2): 3/5 (3D), 1/2 (2D)")
    run.minimum("R-SIB", 60)
    run.minimum("R-LOOPDOM", 60)
    run.minimum("R-ALG", 60)


# ------------------------------------------------------------------ constructors
def check_init(run, pkg, cls):
    q = f"{MOD}.{cls}.__init__"
    fq = short(pkg.func(q).qual)
    for has_x, has_xu in ((True, True), (False, True), (True, False)):
        def assume(c):
            if c == ("sym", "x_snapshots"):
                return has_x
            if c == ("sym", "xu_snapshots"):
                return has_xu
            return None
        it = interp(pkg, q, assume=assume)
        cfg = f"x={'yes' if has_x else 'no'},xu={'yes' if has_xu else 'no'}"
        at = it.self_attrs
        want_pbc = has_x and not has_xu
        got = at.get("PBC")
        ok = eqv(got, C(want_pbc))
        run.ob("R-PBC", fq, f"{cfg}:PBC", ok, f"minimum-image flag is {'on' if want_pbc else 'off'} when " +
               ("only wrapped coordinates are supplied" if want_pbc else "unwrapped coordinates are supplied"), f"self.PBC = {show(got) if got else None}",
               witness=None if ok else f"{cfg}: displacements are {'not ' if want_pbc else ''}minimum-imaged", loc=it.fi.loc(), sound=True)
        want_s = ("sym", "xu_snapshots") if has_xu else ("sym", "x_snapshots")
        ok = eqv(at.get("snapshots"), want_s)
        run.ob("R-SIB", fq, f"{cfg}:snapshots", ok, "displacements are measured on the unwrapped trajectory when available", show(at.get("snapshots", NONE)),
               witness=None if ok else "wrapped coordinates used although unwrapped ones were given", loc=it.fi.loc(), sound=True)
        want_x = ("sym", "x_snapshots") if (has_x and has_xu) else NONE
        ok = True if at.get("x_snapshots") == want_x else None
        run.ob("R-SIB", fq, f"{cfg}:x_snapshots", ok, "the wrapped trajectory is kept for S4(q) only when both are given", show(at.get("x_snapshots", NONE)),
               witness=None if ok else "S4 evaluated on the wrong coordinates", loc=it.fi.loc())
        if want_pbc:
            raises = [e for e in it.events if e.kind == "raise"]
            ok = any(any(g == ("un", "not", CALL(".any", ("sym", "ppp"))) and pol for g, pol in e.guards) for e in raises)
            run.ob("R-PBC", fq, f"{cfg}:mask-required", True if ok else None, "wrapped-only input without any periodic axis is rejected", f"{len(raises)} raise sites",
                   witness=None if ok else "x-only input with ppp=0 silently returns un-imaged displacements", loc=it.fi.loc())
    it = interp(pkg, q, assume=lambda c: True if c == ("sym", "xu_snapshots") else (False if c == ("sym", "x_snapshots") else None))
    at = it.self_attrs
    # time axis
    ts, t0, dt, dia, a_ = sp.symbols("ts t0 dt dia a", positive=True)
    tm = at.get("time")
    TS = None
    for e in it.events:
        if e.kind == "assign" and e.data["value"][0] == "comp" and e.data["value"][2][0] == "attr" and e.data["value"][2][2] == "timestep":
            TS = e.data["value"]
    ok_ts = TS is not None and TS[3][0][1] == A(("sym", "xu_snapshots"), "snapshots")
    run.ob("R-ALG", fq, "timesteps", True if ok_ts else None, "timesteps are those of the trajectory used for displacements", show(TS)[:80] if TS else "?",
           witness=None if ok_ts else "time axis from another trajectory", loc=it.fi.loc())
    if tm is not None and TS is not None:
        def atom_of(t):
            if t == SUB(CALL("numpy.array", TS), ("slice", C(1), NONE, NONE)):
                return ts
            if t == SUB(TS, C(0)) or t == SUB(CALL("numpy.array", TS), C(0)):
                return t0
            if t == ("sym", "dt"):
                return dt
            return None
        check_algebra(run, "R-ALG", it, "time", "time[k] = (timestep[k+1] - timestep[0]) * dt", tm, (ts - t0) * dt, atom_of, it.fi.loc())
    d = at.get("diameters")
    want_d = A(CALL(".map", CALL("pandas.Series", A(SUB(A(("sym", "xu_snapshots"), "snapshots"), C(0)), "particle_type")), ("sym", "diameters")), "values")
    ok = eqv(d, want_d)
    run.ob("R-ALG", fq, "diameters", ok, "per-particle diameter = diameters[type] of frame 0", show(d)[:100] if d else "?",
           witness=None if ok else "diameters not mapped from particle types", loc=it.fi.loc(), sound=True)
    a2 = at.get("a2_cuts")
    if a2 is not None and d is not None:
        def atom2(t):
            if t == d:
                return dia
            if t == ("sym", "a"):
                return a_
            return None
        check_algebra(run, "R-ALG", it, "a2_cuts", "squared mobility cutoff = (a * diameter)^2", a2, (a_ * dia) ** 2, atom2, it.fi.loc(), positive=True)
    # neighbour file protocol
    itn = interp(pkg, q, assume=lambda c: True if c in (("sym", "xu_snapshots"), ("sym", "neighborfile")) else (False if c == ("sym", "x_snapshots") else None))
    rn = calls(itn, "PyMatterSim.neighbors.read_neighbors.read_neighbors")
    opens = [e for e in itn.events if e.kind == "call" and e.data["call"][1] == "builtins.open"]
    closes = [e for e in itn.events if e.kind == "call" and e.data["call"][1] == ".close"]
    if len(rn) != 1 or len(opens) != 1:
        run.ob("R-HANDLE", fq, "neighbour-file", None, "one open / one reader call site", f"{len(opens)} opens, {len(rn)} reader calls", loc=itn.fi.loc())
        return
    r, o = rn[0], opens[0]
    kws = dict(r.data["call"][3])
    args = list(r.data["call"][2])
    handle = kws.get("f", args[0] if args else None)
    if cls == "Dynamics":
        ok_loop = len(r.loops) == 1 and itn.loops[r.loops[0]].iter == CALL("builtins.range", A(("sym", "xu_snapshots"), "nsnapshots"))
        n = itn.loops[r.loops[0]].target if r.loops else None
        okh = ok_loop and not o.loops and handle == o.data["result"] and (not closes or all(not c_.loops and c_.seq > r.seq for c_ in closes))
        # loop membership of the recognised open() / close() relative to the reader's frame loop: definite
        okh = True if okh else (False if (handle == o.data["result"] and r.loops and (set(o.loops) & set(r.loops) or any(set(c_.loops) & set(r.loops) for c_ in closes))) else None)
        run.ob("R-HANDLE", fq, "neighbour-file", okh, "file opened once before the frame loop, one frame read per trajectory frame, closed after the loop",
               f"reader in loops {r.loops}", witness=None if okh else "every frame gets the neighbour list of frame 0 / file re-read", loc=loc_of(itn, r), sound=True)
        npart = kws.get("nparticle", args[1] if len(args) > 1 else None)
        okn = eqv(npart, A(SUB(A(("sym", "xu_snapshots"), "snapshots"), n), "nparticle")) if n is not None else None
        run.ob("R-PROTO", fq, "nparticle", okn, "reader consumes the particle number of the same frame", show(npart)[:60] if npart else "?",
               witness=None if okn else "wrong row count per frame", loc=loc_of(itn, r), sound=True)
        app = [e for e in itn.events if e.kind == "call" and e.data["call"][1] == ".append" and e.loops == r.loops]
        oka = len(app) == 1 and app[0].data["call"][2][1] == r.data["result"]
        run.ob("R-HANDLE", fq, "list-order", True if oka else None, "neighbour lists are stored in frame order", f"{len(app)} appends",
               witness=None if oka else "list index does not correspond to the frame index", loc=loc_of(itn, r))
    else:
        okh = not r.loops and handle == o.data["result"]
        run.ob("R-HANDLE", fq, "neighbour-file", True if okh else None, "the neighbour list of the first frame (the only origin) is read", f"reader in loops {r.loops}",
               witness=None if okh else "wrong frame's neighbour list", loc=loc_of(itn, r))
    okm = eqv(kws.get("Nmax", args[2] if len(args) > 2 else None), ("sym", "max_neighbors"))
    run.ob("R-PROTO", fq, "Nmax", okm, "max_neighbors is forwarded to the reader", show(kws.get("Nmax", NONE)), witness=None if okm else "neighbour truncation ignores the request",
           loc=loc_of(itn, r), sound=True)


# ------------------------------------------------------------------ relaxation
def flags_assume(pbc, nl, sel, slow, log=False):
    def assume(c):
        c = strip_alloc(c)
        if c == A(SELF, "PBC"):
            return pbc
        if c == A(SELF, "neighborlists"):
            return nl
        if c == CALL(".any", A(SELF, "neighborlists")):
            return nl
        if c == ("cmp", "is not", ("sym", "condition"), NONE):
            return sel
        if c == ("cmp", "==", A(SELF, "cal_type"), C("slow")):
            return slow
        if c == ("cmp", "==", A(SELF, "cal_type"), C("fast")):
            return not slow
        return None
    return assume


def check_relaxation(run, pkg, cls, pbc, nl, sel, slow):
    log = cls == "LogDynamics"
    q = f"{MOD}.{cls}.relaxation"
    it = Interp(pkg, pkg.func(q), assume=flags_assume(pbc, nl, sel, slow), track_alloc=True)
    fi = it.fi
    fq = short(fi.qual)
    cfg = f"{'pbc' if pbc else 'nopbc'},{'cage' if nl else 'abs'},{'sel' if sel else 'all'},{'slow' if slow else 'fast'}"
    loc = fi.loc()
    if len(it.returns) != 1:
        raise AnalysisError(f"{fq}: expected one return")
    ret = it.returns[0].data["value"]
    if not (ret[0] == "call" and ret[1] == "pandas.DataFrame" and ret[2] and ret[2][0][0] == "call" and ret[2][0][1] == "numpy.column_stack"):
        raise AnalysisError(f"{fq}: returned frame is not DataFrame(np.column_stack(...))")
    cols = kw(ret, "columns")
    colterms = ret[2][0][2][0][1] if ret[2][0][2][0][0] == "tuple" else ()
    names = [c[1] for c in cols[1]] if cols is not None and cols[0] == "list" else []
    want_names = ["t", "isf", "Qt", "X4_Qt", "msd", "alpha2"]
    okn = sorted(names) == sorted(want_names) and len(colterms) == 6
    run.ob("R-ALG", fq, f"{cfg}:columns", True if okn else None, "the result has the columns t, isf, Qt, X4_Qt, msd, alpha2, one data column each (each column is checked under its own name)", f"{names}", loc=loc)
    if not okn:
        return
    col = dict(zip(names, colterms))
    # ---- accumulators: arrays written inside loops; their ROLE is read from the final columns, not from their order
    acc = {}
    for e in stores(it):
        tg = e.data["target"]
        if tg[1][0] == "call" and tg[1][1] in ("numpy.zeros", "numpy.zeros_like") and e.loops:
            acc.setdefault(tg[1], []).append(e)
    counts_arr = None
    for arr, evs in acc.items():
        if all(e.data["value"] == C(1) and e.data["op"] == "+" for e in evs):
            counts_arr = arr
    asym = {arr: sp.Symbol(f"A{k}", positive=True) for k, arr in enumerate(acc) if arr != counts_arr}
    cnt = sp.Symbol("counts", positive=True)
    nsel, fac = sp.Symbol("N_sel", positive=True), sp.Symbol("alpha2factor", positive=True)
    closed = {}

    def atom_cols(t):
        if t in asym:
            return asym[t]
        if counts_arr is not None and t == counts_arr:
            return cnt
        t2 = strip_alloc(t)
        if t2 == CALL("PyMatterSim.utils.funcs.alpha2factor", A(SELF, "ndim")):
            return fac
        if t2[0] == "call" and t2[1] == "builtins.len":
            closed.setdefault("nsel", t2)
            return nsel
        if counts_arr is None and t2[0] == "call" and t2[1] == "numpy.arange":
            closed["counts"] = t2
            return cnt
        return None
    gcol = {}
    for name in ("isf", "Qt", "X4_Qt", "msd", "alpha2"):
        if log and name == "X4_Qt":
            continue
        tr = S.Translator(atom_cols, True)
        try:
            gcol[name] = (tr.tr(col[name]), dict(tr.atoms))
        except Exception as ex:  # noqa
            run.ob("R-ALG", fq, f"{cfg}:col-{name}", None, "final column", str(ex), loc=loc)
            return
    inv = {v: k for k, v in asym.items()}

    def arrays_in(g):
        return {x for x in g.free_symbols if x in inv}
    # roles by kernel: an accumulator whose statement IS one of the definition's kernels (built from the frames the code uses)
    role = {}
    fr0 = None
    for arr in asym:
        for e in acc[arr]:
            for x in walk(strip_alloc(e.data["value"])):
                if fr0 is None and x[0] == "bin" and x[1] == "-" and x[2][0] == "attr" and x[3][0] == "attr" and x[2][2] == "positions" and x[3][2] == "positions" \
                        and x[2][1][0] == "sub" and x[3][1][0] == "sub" and strip_alloc(x[2][1][1]) == SNAPS and strip_alloc(x[3][1][1]) == SNAPS:
                    fr0 = (x[2][1][2], x[3][1][2])
    by_kernel = {}
    if fr0 is not None:
        K0 = expected_kernels(fr0[1], fr0[0], pbc, nl, sel, slow, log)
        for arr in asym:
            if len(acc[arr]) == 1:
                for k, kt in K0.items():
                    if eq_terms(acc[arr][0].data["value"], kt)[0] is True:
                        by_kernel.setdefault(k, []).append(arr)
    needed = ("isf", "qt", "r2", "r4") if log else ("isf", "qt", "qt2", "r2", "r4")
    if all(len(by_kernel.get(k, [])) == 1 for k in needed) and len({by_kernel[k][0] for k in needed}) == len(needed):
        role = {k: asym[by_kernel[k][0]] for k in needed}
    try:
        if role:
            raise StopIteration
        (role["isf"],) = arrays_in(gcol["isf"][0])
        (role["qt"],) = arrays_in(gcol["Qt"][0])
        (role["r2"],) = arrays_in(gcol["msd"][0])
        (role["r4"],) = arrays_in(gcol["alpha2"][0]) - {role["r2"]}
        if not log:
            (role["qt2"],) = arrays_in(gcol["X4_Qt"][0]) - {role["qt"]}
    except StopIteration:
        pass
    except ValueError:
        run.ob("R-ALG", fq, f"{cfg}:roles", None, "each output column is built from its own accumulator array(s)",
               "accumulators feeding the columns could not be identified one-to-one (intermediate arrays / other structure)", loc=loc)
        return
    if len(set(role.values())) != len(role):
        run.ob("R-ALG", fq, f"{cfg}:roles", None, "each output column is built from its own accumulator", f"roles {role}", loc=loc)
        return
    sy = {k: v for k, v in role.items()}
    arr_of = {k: inv[v] for k, v in role.items()}
    # the rules below are written for plain accumulation over the pair loop nest; any other shape (per-lag temporaries reduced by
    # .mean(), vectorised origins, ...) is outside the idiom table: undecided, never a violation
    want_depth = 1 if log else 2
    shape_ok = all(len(acc[a_]) == 1 and len(acc[a_][0].loops) == want_depth and acc[a_][0].data["op"] == (None if log else "+") for a_ in arr_of.values())
    if not shape_ok:
        run.ob("R-SIB", fq, f"{cfg}:structure", None, "accumulators are " + ("assigned once per end frame" if log else "summed over the (end frame, lag) loop nest"),
               "; ".join(f"{k}: {len(acc[a_])} statements in loops {[e.loops for e in acc[a_]][:2]} op {[e.data['op'] for e in acc[a_]][:2]}" for k, a_ in list(arr_of.items())[:3]), loc=loc)
        return
    # ---- final columns as formulas of the accumulators
    log_div = sp.Integer(1)
    c_ = log_div if log else cnt
    want = {"isf": sy["isf"] / c_, "Qt": sy["qt"] / c_, "msd": sy["r2"] / c_,
            "alpha2": fac * (sy["r4"] / c_) / (sy["r2"] / c_) ** 2 - 1}
    if not log:
        want["X4_Qt"] = (sy["qt2"] / c_ - (sy["qt"] / c_) ** 2) * nsel
    for name in ("isf", "Qt", "X4_Qt", "msd", "alpha2"):
        if log and name == "X4_Qt":
            term = col[name]
            ok = strip_alloc(term)[0] == "call" and strip_alloc(term)[1] == "numpy.zeros_like"
            run.ob("R-ALG", fq, f"{cfg}:col-X4_Qt", ok if ok else None, "single-origin variant reports zero susceptibility", show(strip_alloc(term))[:60], loc=loc)
            continue
        g, atoms = gcol[name]
        ok, how = S.decide_equal(g, want[name])
        if ok is False and atoms:
            ok = None
        if ok is False and (g.free_symbols - want[name].free_symbols) & (set(asym.values()) - set(sy.values())):
            # the column involves an array whose role was not identified (e.g. visit counts assigned in closed form instead of
            # incremented): not comparable with the reference monomial - undecided, never a violation
            ok = None
        run.ob("R-ALG", fq, f"{cfg}:col-{name}", ok, {"isf": "isf = accumulated/counts", "Qt": "Qt = accumulated/counts", "msd": "msd = accumulated/counts",
               "alpha2": "alpha2 = alpha2factor(d) <r^4>/<r^2>^2 - 1", "X4_Qt": "chi4 = (<Q^2> - <Q>^2) * N_selected"}[name],
               f"code: {sp.sstr(g)[:140]}", witness=None if ok is not False else how, loc=loc, sound=True)    # monomials in the identified accumulators and counts
    # ---- the accumulation statement of every role
    st_of = {}
    for k, arr in arr_of.items():
        evs = acc[arr]
        if len(evs) != 1:
            run.ob("R-SIB", fq, f"{cfg}:kernel-{k}", None, f"one accumulation statement for {k}", f"{len(evs)} statements", loc=loc)
            return
        st_of[k] = evs[0]
    e0 = st_of["r2"]
    # frames of the displacement: positions[END] - positions[ORIGIN]
    fr = None
    for x in walk(strip_alloc(e0.data["value"])):
        if x[0] == "bin" and x[1] == "-" and x[2][0] == "attr" and x[3][0] == "attr" and x[2][2] == "positions" and x[3][2] == "positions" \
                and x[2][1][0] == "sub" and x[3][1][0] == "sub" and strip_alloc(x[2][1][1]) == SNAPS and strip_alloc(x[3][1][1]) == SNAPS:
            fr = (x[2][1][2], x[3][1][2])
            break
    if fr is None:
        run.ob("R-SIB", fq, f"{cfg}:displacement", None, "displacement = positions[end frame] - positions[origin frame] of the displacement trajectory", show(strip_alloc(e0.data["value"]))[:120], loc=loc_of(it, e0))
        return
    end, origin = fr
    loops = [it.loops[l] for l in e0.loops]
    if any(st.loops != e0.loops for st in st_of.values()):
        run.ob("R-LOOPDOM", fq, f"{cfg}:loops", None, "all accumulators are updated in the same loop nest", "different nests", loc=loc)
        return
    slot = e0.data["target"][2]
    # ---- visited (origin, end, slot) tuples, enumerated on the extracted loop bounds and index forms for T = 2..6
    import math as _m
    bad = None
    per_slot = {}
    try:
        for T in range(2, 7):
            visited = []

            def rec(k, env):
                if k == len(loops):
                    visited.append((int(eval_num(strip_alloc(origin), env)), int(eval_num(strip_alloc(end), env)), int(eval_num(strip_alloc(slot), env))))
                    return
                L = loops[k]
                itr = strip_alloc(L.iter)
                if not (itr[0] == "call" and itr[1] == "builtins.range"):
                    raise NotEvaluable("loop iterator " + show(itr)[:40])
                args = [int(eval_num(a_, env)) for a_ in itr[2]]
                for v_ in range(*args):
                    e2 = dict(env)
                    e2[L.target] = v_
                    rec(k + 1, e2)
            rec(0, {T_: T})
            want_set = sorted((o, e_, e_ - o - 1) for e_ in range(1, T) for o in (range(e_) if not log else [0]))
            if sorted(visited) != want_set:
                miss = [x for x in want_set if x not in visited]
                extra = [x for x in visited if x not in want_set or visited.count(x) > 1]
                bad = f"T={T}: visited (origin, end, slot) = {sorted(set(visited))[:6]}..., required every pair 0 <= origin < end <= {T - 1}" + (" with origin 0" if log else "") + \
                      f" once with slot = end - origin - 1; missing {miss[:3]}, surplus/repeated {extra[:3]}"
                break
            per_slot[T] = [sum(1 for x in visited if x[2] == k) for k in range(T - 1)]
        run.ob("R-LOOPDOM", fq, f"{cfg}:pairs", bad is None, ("every frame pair 0 <= origin < end <= T-1 is visited once" if not log else "every end frame 1..T-1 is paired with origin 0 once") +
               ", stored at slot = lag - 1 (enumerated on the extracted loop bounds and index forms, T = 2..6)", f"loops {[show(strip_alloc(L.iter))[:40] for L in loops]}; origin {show(strip_alloc(origin))}, end {show(strip_alloc(end))}, slot {show(strip_alloc(slot))}",
               witness=bad, loc=loc_of(it, e0), sound=True)     # exact enumeration of the extracted integer loop bounds and index forms
    except (NotEvaluable, Exception) as ex:  # noqa
        run.ob("R-LOOPDOM", fq, f"{cfg}:pairs", None, "visited frame pairs enumerable", f"{type(ex).__name__}: {str(ex)[:80]}", loc=loc_of(it, e0))
    for k, st in st_of.items():
        oks = eqv(strip_alloc(st.data["target"][2]), strip_alloc(slot))
        okop = True if (st.data["op"] == "+" or (log and st.data["op"] is None)) else (False if (not log and st.data["op"] is None) else None)
        run.ob("R-LOOPDOM", fq, f"{cfg}:slot-{k}", tri(oks, okop), f"{k} is " + ("assigned" if log else "accumulated") + " in the slot of its lag, like the other accumulators",
               f"slot {show(strip_alloc(st.data['target'][2]))}, op {st.data['op']}", witness=None if oks and okop else "origins overwrite each other / different slot than the other accumulators", loc=loc_of(it, st), sound=True)
    # ---- counts
    if not log:
        if counts_arr is not None:
            ce_ = acc[counts_arr]
            okc = tri(True if (len(ce_) == 1 and ce_[0].loops == e0.loops) else None, eqv(strip_alloc(ce_[0].data["target"][2]), strip_alloc(slot)))
            run.ob("R-LOOPDOM", fq, f"{cfg}:count", okc, "one count per visited pair in the slot of its lag", f"{len(ce_)} count statements",
                   witness=None if okc else "the divisor is not the number of origins that contributed to the lag", loc=loc, sound=True)
        elif "counts" in closed and per_slot:
            from ..concrete import ev as cev
            badc = None
            try:
                for T, ws in per_slot.items():
                    got = [int(x) for x in cev(closed["counts"], {T_: T})]
                    if got != ws:
                        badc = f"T={T}: divisor {got}, number of origins per lag {ws}"
                        break
                run.ob("R-LOOPDOM", fq, f"{cfg}:count", badc is None, "the closed-form divisor equals the number of origins per lag (T = 2..6)", show(closed["counts"])[:60], witness=badc, loc=loc, sound=True)
            except Exception as ex:  # noqa
                run.ob("R-LOOPDOM", fq, f"{cfg}:count", None, "divisor decidable", str(ex)[:80], loc=loc)
        else:
            run.ob("R-LOOPDOM", fq, f"{cfg}:count", None, "divisor of the origin average recognised", "no count array and no closed form", loc=loc)
    # ---- expected kernels, built from the frames the code itself uses for the displacement
    K = expected_kernels(origin, end, pbc, nl, sel, slow, log)
    a2 = SUB(A(SELF, "a2_cuts"), (("sym", "condition") if log else SUB(("sym", "condition"), origin))) if sel else CALL(".copy", A(SELF, "a2_cuts"))
    for k, st in st_of.items():
        v = st.data["value"]
        okk, how, gx, gy = eq_terms(v, K[k])
        if not okk:
            other = [k2 for k2 in K if k2 != k and k2 in st_of and eq_terms(v, K[k2])[0] is True]
            if other:
                okk, how = False, f"the column built from this accumulator is '{k}' but the accumulated quantity is the {other[0]} kernel: output columns are exchanged"
        if okk is None and pbc and not any(x[0] == "call" and x[1] == "PyMatterSim.utils.pbc.remove_pbc" for x in walk(v)):
            from . import grlib
            grlib.find_inline_image(strip_alloc(v))
        run.ob("R-SIB", fq, f"{cfg}:kernel-{k}", okk, f"per-pair contribution to {k} equals the kernel of the definition (origin-frame cell / neighbour list / selection, end-frame positions, "
               f"{'<' if slow else '>'} for {'slow' if slow else 'fast'})", f"code: {show(strip_alloc(v))[:200]}" + ("" if okk else f" ; expected: {show(K[k])[:200]}"),
               witness=f"{cfg}: {how[:220]}" if okk is False else None, loc=loc_of(it, st), sound=True)
    nsel_t = closed.get("nsel")
    if not log and nsel_t is not None:
        okn2 = nsel_t == CALL("builtins.len", strip_alloc(a2)) or nsel_t[2][0][0] in ("attr", "sub", "call")
        run.ob("R-ALG", fq, f"{cfg}:nsel", True if nsel_t == CALL("builtins.len", strip_alloc(a2)) else None, "chi4 prefactor is the number of selected particles (length of the selected cutoff array)", show(nsel_t)[:70], loc=loc)
    okt = eqv(strip_alloc(col["t"]), A(SELF, "time"))
    run.ob("R-ALG", fq, f"{cfg}:col-t", okt, "time column is the lag time axis built in __init__", show(strip_alloc(col["t"]))[:50],
           witness=None if okt else "time axis replaced", loc=loc, sound=True)
    for e in calls(it, ".to_csv"):
        c = e.data["call"]
        ok = c[2][0] == ret and strip_alloc(c[2][1]) == ("sym", "outputfile")
        run.ob("R-SAVE", fq, f"{cfg}:csv", True if ok else None, "CSV written from the returned frame", show(strip_alloc(c))[:60], witness=None if ok else "file differs from returned values",
               loc=loc_of(it, e))


def expected_kernels(origin, end, pbc, nl, sel, slow, log):
    pos_o, pos_e = A(frame(origin), "positions"), A(frame(end), "positions")
    R = BIN("-", pos_e, pos_o)
    if pbc:
        R = CALL("PyMatterSim.utils.pbc.remove_pbc", R, A(frame(origin), "hmatrix"), A(SELF, "ppp"))
    if nl:
        nlist = A(SELF, "neighborlists") if log else SUB(A(SELF, "neighborlists"), origin)
        R = CALL("PyMatterSim.dynamic.dynamics.cage_relative", R, nlist)
    qc_all = BIN("/", ("sym", "qconst"), A(SELF, "diameters"))
    if sel:
        selection = ("sym", "condition") if log else SUB(("sym", "condition"), origin)
        R = SUB(R, selection)
        qc = SUB(qc_all, selection)
        a2 = SUB(A(SELF, "a2_cuts"), selection)
    else:
        qc = CALL(".copy", qc_all)
        a2 = CALL(".copy", A(SELF, "a2_cuts"))
    dist = CALL(".sum", CALL("numpy.square", R), axis=C(1))
    medium = CALL(".mean", ("cmp", "<" if slow else ">", dist, a2))
    return {
        "isf": CALL(".mean", CALL("numpy.cos", BIN("*", R, SUB(qc, NEWAX)))),
        "qt": medium,
        "qt2": BIN("**", medium, C(2)),
        "r2": CALL(".mean", dist),
        "r4": CALL(".mean", CALL("numpy.square", dist)),
    }


# ------------------------------------------------------------------ sq4
def check_sq4(run, pkg, pbc, nl, sel, slow):
    q = f"{MOD}.Dynamics.sq4"
    for both in (False, True):
        base = flags_assume(pbc, nl, sel, slow)

        def assume(c, both=both):
            if c == ("cmp", "is", A(SELF, "x_snapshots"), NONE):
                return not both
            return base(c)
        it = interp(pkg, q, assume=assume)
        fi = it.fi
        fq = short(fi.qual)
        cfg = f"{'pbc' if pbc else 'nopbc'},{'cage' if nl else 'abs'},{'sel' if sel else 'all'},{'slow' if slow else 'fast'},{'x+xu' if both else 'single'}"
        loc = fi.loc()
        cs = calls(it, "PyMatterSim.static.sq.conditional_sq")
        if len(cs) != 1 or len(cs[0].loops) != 1:
            run.ob("R-LOOPDOM", fq, f"{cfg}:structure", None, "one conditional_sq call inside the origin loop", f"{len(cs)} calls", loc=loc)
            continue
        ce = cs[0]
        L = it.loops[ce.loops[0]]
        n = L.target
        nt = CALL("builtins.round", BIN("/", ("sym", "t"), SUB(A(SELF, "time"), C(0))))
        okd = eqv(L.iter, CALL("builtins.range", BIN("-", T_, nt)))
        run.ob("R-LOOPDOM", fq, f"{cfg}:origins", okd, "origins 0..T-1-n_t with n_t = round(t / time[0]) frames", show(L.iter)[:90],
               witness=None if okd else "origin set / lag in frames differ from the definition", loc=loc, sound=True)
        R = BIN("-", A(frame(BIN("+", n, nt)), "positions"), A(frame(n), "positions"))
        if pbc:
            R = CALL("PyMatterSim.utils.pbc.remove_pbc", R, A(frame(n), "hmatrix"), A(SELF, "ppp"))
        if nl:
            R = CALL("PyMatterSim.dynamic.dynamics.cage_relative", R, SUB(A(SELF, "neighborlists"), n))
        d2 = CALL(".sum", CALL("numpy.square", R), axis=C(1))
        mob = ("cmp", "<" if slow else ">", d2, A(SELF, "a2_cuts"))
        if sel:
            mob = BIN("*", mob, CALL(".astype", SUB(("sym", "condition"), n), ("builtin", "bool")))
        call = ce.data["call"]
        kws = dict(call[3])
        args = list(call[2])
        snap = args[0] if args else kws.get("snapshot")
        condt = kws.get("condition", args[2] if len(args) > 2 else None)
        src = A(A(SELF, "x_snapshots"), "snapshots") if both else SNAPS
        oks = eqv(snap, SUB(src, n))
        run.ob("R-SIB", fq, f"{cfg}:sq-frame", oks, "S4 is evaluated on the origin frame" + (" of the wrapped trajectory" if both else ""), show(snap)[:70] if snap else "?",
               witness=None if oks else "structure factor taken at another frame / trajectory", loc=loc_of(it, ce), sound=True)
        okm, how, gx, gy = eq_terms(condt, mob) if condt is not None else (None, "", None, None)
        if okm is None and condt is not None:
            # both are combinations of the same leaf masks (mobility test, selection): decided by truth table
            okb, howb = bool_equiv(canon(condt), canon(mob))
            if okb is not None:
                okm, how = okb, howb
        run.ob("R-SIB", fq, f"{cfg}:mobility", okm, f"selected particles are the {'slow (<' if slow else 'fast (>'} cutoff) ones of the pair (origin, origin+n_t), "
               "with origin-frame cell / neighbour list / selection", f"code: {show(condt)[:200] if condt else '?'}",
               witness=None if okm is not False else f"{cfg}: mobility mask differs from the definition; expected {show(mob)[:160]} ({how[:120]})", loc=loc_of(it, ce), sound=True)
        res = ce.data["result"]
        ret = it.returns[0].data["value"] if it.returns else NONE
        okr = any(x in (SUB(res, C(1)), ("elem", res, 1)) for x in walk(ret))
        wrong = any(x in (SUB(res, C(0)), ("elem", res, 0)) for x in walk(ret))
        run.ob("R-ALG", fq, f"{cfg}:component", True if okr else (False if wrong else None), "the |q|-averaged table (second component) is accumulated", show(ret)[:80],
               witness=None if okr or not wrong else "per-vector table averaged instead", loc=loc, sound=True)
        okdiv = eqv(ret[3], BIN("-", T_, nt)) if (ret[0] == "bin" and ret[1] == "/") else None
        run.ob("R-LOOPDOM", fq, f"{cfg}:average", okdiv, "sum over origins divided by the number of origins", show(ret)[-70:], witness=None if okdiv else "not an average over origins", loc=loc, sound=True)
    # wave vectors (configuration independent)
    it = interp(pkg, q, assume=flags_assume(True, False, False, True))
    cw = calls(it, "PyMatterSim.utils.wavevector.choosewavevector")
    if len(cw) == 1:
        kws = dict(cw[0].data["call"][3])
        L0 = sp.Symbol("Lmin", positive=True)
        qr = sp.Symbol("qrange", positive=True)
        okq = tri(eqv(kws.get("ndim"), A(SELF, "ndim")), eqv(kws.get("onlypositive"), C(False)))
        run.ob("R-ALG", short(it.fi.qual), "wavevectors", okq, "default wave-vector set for the system's dimension, both signs", show(cw[0].data["call"])[:100],
               witness=None if okq else "wave-vector set restricted / wrong dimension", loc=loc_of(it, cw[0]), sound=True)


def check_cage(run, pkg):
    it = interp(pkg, f"{MOD}.cage_relative")
    fi = it.fi
    fq = short(fi.qual)
    Rp, Cn = ("sym", fi.params[0]), ("sym", fi.params[1])
    st = [e for e in stores(it) if e.loops]
    if len(st) != 1:
        # loop-free (vectorised) form: decide the extracted return term on small padded neighbour tables
        import numpy as np
        from ..concrete import ev as cev, Unsupported
        if len(it.returns) != 1 or it.loops:
            run.ob("R-ALG", fq, "form", None, "cage-relative displacement form recognised", f"{len(st)} per-particle stores", loc=fi.loc())
            return
        ret = it.returns[0].data["value"]
        rng = np.random.default_rng(7)
        bad = None
        try:
            for trial in range(4):
                N, d = 5, 2 + trial % 2
                Rm = rng.normal(size=(N, d))
                cns = [2, 3, 1, 4, 2] if trial % 2 == 0 else [4, 1, 2, 2, 3]
                cn = np.zeros((N, 5), dtype=int)
                for i_ in range(N):
                    others = [j for j in range(N) if j != i_]
                    rng.shuffle(others)
                    cn[i_, 0] = cns[i_]
                    cn[i_, 1:1 + cns[i_]] = others[:cns[i_]]
                want = np.array([Rm[i_] - Rm[cn[i_, 1:1 + cn[i_, 0]]].mean(axis=0) for i_ in range(N)])
                got = np.asarray(cev(ret, {Rp: Rm, Cn: cn}))
                if got.shape != want.shape or not np.allclose(got, want):
                    k = int(np.argmax(np.abs(got - want).sum(axis=1))) if got.shape == want.shape else 0
                    bad = (f"neighbour table with coordination numbers {cns} (zero padded to 4 columns): particle {k} gets "
                           f"{np.round(got[k], 4).tolist() if got.shape == want.shape else got.shape} instead of {np.round(want[k], 4).tolist()}")
                    break
            run.ob("R-ALG", fq, "kernel", bad is None, "r_i - mean over the cn_i listed neighbours of r_j (zero padding and the count column excluded), "
                   "decided on 4 padded neighbour tables", show(ret)[:140], witness=bad, loc=fi.loc(), sound=True)   # concrete neighbour table on which the extracted term differs
        except (Unsupported, Exception) as e:  # noqa
            run.ob("R-ALG", fq, "form", None, "cage-relative displacement form recognised", f"{type(e).__name__}: {e}", loc=fi.loc())
        return
    e = st[0]
    L = it.loops[e.loops[0]]
    i = L.target
    okd = eqv(L.iter, CALL("builtins.range", SUB(A(Rp, "shape"), C(0))), CALL("builtins.range", CALL("builtins.len", Rp)), same=True)
    run.ob("R-LOOPDOM", fq, "particles", okd, "every particle is processed", show(L.iter)[:60], witness=None if okd else "particles skipped", loc=fi.loc(), sound=True)
    cn = SUB(Cn, ("tuple", (i, C(0))))
    nb = SUB(Cn, ("tuple", (i, ("slice", C(1), BIN("+", cn, C(1)), NONE))))
    want = BIN("-", SUB(Rp, i), CALL(".mean", SUB(Rp, nb), axis=C(0)))
    ok, how, gx, gy = eq_terms(e.data["value"], want)
    if ok is None:
        alt = BIN("-", SUB(Rp, i), CALL(".mean", SUB(Rp, SUB(Cn, ("tuple", (i, ("slice", C(1), BIN("+", C(1), cn), NONE))))), axis=C(0)))
        ok = eq_terms(e.data["value"], alt)[0]
    run.ob("R-ALG", fq, "kernel", ok, "r_i - mean over neighbours (columns 1..cn_i of row i) of r_j", show(e.data["value"])[:140],
           witness=None if ok is not False else "neighbour slice / mean axis differ: zero padding or the count column enters the mean", loc=loc_of(it, e), sound=True)
    okt = eqv(e.data["target"][2], i) if e.data["op"] is None else None
    run.ob("R-IDX", fq, "row", okt, "result stored at the particle's own row", show(e.data["target"][2]), witness=None if okt else "rows permuted", loc=loc_of(it, e), sound=True)
    ret = it.returns[0].data["value"] if it.returns else NONE
    okr = ret == e.data["target"][1] and ret[0] == "call" and ret[1] in ("numpy.zeros_like", "numpy.zeros", "numpy.empty_like")
    run.ob("R-ALG", fq, "fresh", True if okr else (False if ret == Rp else None), "a fresh array is returned (input displacements are read, not overwritten)", show(ret)[:60],
           witness=None if okr else "neighbour means computed from partially updated displacements", loc=fi.loc(), sound=True)
