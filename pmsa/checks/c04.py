"""C04 - S(q): every total and partial column equals the density-mode definition.

R-ROUTE   per-particle routing: type t feeds exactly accumulators "all" and "tt" (partition of 1..K), accumulators reset per frame.
R-ALG     phase exp(-i q.r) with q.r summed over axes; columns Sq_ab += Re(acc[aa] * conj(acc[bb])), a <= b as named;
          normalisations T*N_a and T*sqrt(N_a N_b) with indices matching names; q = 2 pi n / L per axis; |q| column.
R-ORDER   round(6) precedes the group-by-|q| mean.
R-LOOPDOM choosewavevector: same half-open range on every axis, predicate uses every loop variable, zero vector and unused
          buffer rows removed, buffer capacity, onlypositive semantics for bool and axis strings.
R-DISPATCH getresults on K;  R-SAVE CSV from the returned frame.
"""
from __future__ import annotations

import sympy as sp

from .common import *  # noqa

CLS = "static.sq.sq"
METHODS = {1: "unary", 2: "binary", 3: "ternary", 4: "quarternary", 5: "quinary"}
SN = ("sym", "snapshots")
F0 = ("sub", ("attr", SN, "snapshots"), C(0))
T_ = ("attr", SN, "nsnapshots")
N_ = ("attr", F0, "nparticle")
L0 = ("attr", F0, "boxlength")
UNIQ = ("call", "numpy.unique", (("attr", F0, "particle_type"),), (("return_counts", C(True)),))
TYPECOUNT = ("elem", UNIQ, 1)
TYPENUMBER = ("elem", UNIQ, 0)
sT, sN, sc = sp.symbols("T N c", positive=True)
sNk = {k: sp.Symbol(f"N_{k}", positive=True) for k in range(1, 7)}


def strip_conj(t):
    if t[0] == "call" and t[1] in ("numpy.conj", "numpy.conjugate", ".conj", ".conjugate") and len(t[2]) == 1:
        return t[2][0], True
    return t, False


def run(run: Run, pkg: Package) -> None:
    run.explanation = (
        "sq.unary..quinary: the per-particle routing chain is decided for every type id 1..K; each column's accumulation is "
        "parsed into Re(acc[aa] conj(acc[bb])) and matched with its name; the 39 normalisation statements are compared as "
        "monomials in (T, N, N_a); wave vectors, rounding-before-grouping and the default wave-vector generator are checked "
        "structurally; dispatch on K and the CSV write as for g(r).")
    run.extra["exhaustive"] = True
    attrs = init_attrs(pkg, CLS)

    def ex(t):
        return push_sub(expand_self(t, attrs))
    check_init(run, pkg, attrs, ex)
    for K, m in METHODS.items():
        check_method(run, pkg, K, m, attrs, ex)
    check_dispatch(run, pkg, attrs)
    for nd in (2, 3):
        check_wavevector(run, pkg, nd)
    run.minimum("R-ROUTE", 15 + 5)
    run.minimum("R-ALG", 39 + 39 + 5)


def check_init(run, pkg, attrs, ex):
    fi = pkg.cls(CLS).methods["__init__"]
    fq = short(fi.qual)
    loc = fi.loc()
    two_pi_L = canon(("bin", "/", ("bin", "*", C(2), ("mod", "numpy.pi")), L0))
    # both arms: explicit qvector and default
    for explicit in (True, False):
        def assume(c):
            if c == ("cmp", "is not", ("sym", "qvector"), NONE):
                return explicit
            return None
        it = interp(pkg, fi.qual, assume=assume)
        at = it.self_attrs
        arm = "explicit" if explicit else "default"
        qv = at.get("qvector")
        src = ("sym", "qvector") if explicit else None
        if not explicit:
            cw = calls(it, "PyMatterSim.utils.wavevector.choosewavevector")
            if len(cw) != 1:
                run.ob("R-ALG", fq, f"{arm}:generator", None, "default wave vectors come from choosewavevector", f"{len(cw)} calls", loc=loc)
                continue
            call = cw[0].data["call"]
            src = cw[0].data["result"]
            a = list(call[2]) + [v for _, v in call[3]]
            nd = ("sub", ("attr", ("attr", F0, "positions"), "shape"), C(1))
            Lm, qr = sp.symbols("Lmin qrange", positive=True)

            def atom_of(t):
                if t == ("call", ".min", (two_pi_L,), ()):
                    return 2 * sp.pi / Lm      # min over axes of 2 pi / L_axis  (role symbol: smallest spacing)
                if t == ("sym", "qrange"):
                    return qr
                return None
            ok_nd = eqv(a[0], nd) if a else None
            run.ob("R-ALG", fq, f"{arm}:ndim", ok_nd, "generator is told the dimension of the positions", show(a[0])[:60] if a else "?",
                   witness=None if ok_nd else "wrong dimension", loc=loc, sound=True)
            if len(a) >= 2:
                tr = S.Translator(atom_of, True)
                g = tr.tr(a[1])
                ref = S.PyInt(qr * 2 / (2 * sp.pi / Lm))
                ok, how = S.decide_equal(g, ref)
                if ok is not True and tr.atoms:
                    # reductions over the box lengths the algebra does not interpret (min / max ...): the extracted argument is
                    # evaluated for boxes with unequal edges and several q ranges
                    import numpy as np
                    from ..concrete import ev as cev
                    try:
                        for Lv, qv_ in ((np.array([5.0, 7.0, 12.0]), 4.0), (np.array([9.0, 6.0]), 2.5), (np.array([10.0, 10.0, 10.0]), 3.0)):
                            got = cev(a[1], {L0: Lv, ("sym", "qrange"): qv_})
                            want_n = int(qv_ * 2.0 / (2 * np.pi / Lv).min())
                            if int(got) != want_n:
                                ok, how = False, (f"box {Lv.tolist()}, qrange {qv_}: the generator is asked for {int(got)} integer steps, int(2 qrange / min(2 pi / L)) = {want_n} "
                                                  f"(the smallest spacing 2 pi / L belongs to the LONGEST edge)")
                                tr.atoms.clear()
                                break
                    except Exception:  # noqa
                        pass
                run.ob("R-ALG", fq, f"{arm}:numofq", ok if not (ok is False and tr.atoms) else None, "number of integer steps = int(2 qrange / min(2 pi / L))",
                       sp.sstr(g)[:100], witness=None if ok is not False else how, loc=loc, sound=True)
            okp = eqv(a[2], ("sym", "onlypositive")) if len(a) >= 3 else None
            run.ob("R-ALG", fq, f"{arm}:onlypositive", okp, "the onlypositive option is forwarded", show(a[2])[:40] if len(a) > 2 else "?",
                   witness=None if okp else "option ignored", loc=loc, sound=True)
        want = canon(("bin", "*", ("call", ".astype", (src, ("mod", "numpy.float64")), ()), ("sub", two_pi_L, ("tuple", (("mod", "numpy.newaxis"), ("slice", NONE, NONE, NONE))))))
        ok = qv == want
        if not ok and qv is not None:
            # algebraic comparison with atoms n (integer vector) and per-axis 2 pi / L
            n_, k_ = sp.symbols("n twopidl")

            def at2(t):
                if t == src or (t[0] == "call" and t[1] == ".astype" and t[2] and t[2][0] == src):
                    return n_
                if t == two_pi_L or (t[0] == "sub" and t[1] == two_pi_L and t[2][0] == "tuple"):
                    return k_
                if t[0] == "sub" and t[1] == two_pi_L and is_const(t[2]):
                    return sp.Symbol(f"twopidl_axis{t[2][1]}")     # a single axis' spacing used for all components
                return None
            tr = S.Translator(at2)
            try:
                okk, how = S.decide_equal(tr.tr(qv), n_ * k_)
                ok = okk if not (okk is False and tr.atoms) else None
            except Exception:
                ok = None
        wit_q = None
        if ok is None and qv is not None:
            # definite: the box lengths enter the wave-vector unit only through a reduction over the axes (max / min / mean / a
            # single axis): one scalar spacing for all components, which is 2 pi / L of each axis only for cubic boxes
            bl = [x for x in walk(qv) if x[0] == "attr" and x[2] == "boxlength"]
            red = [x for x in walk(qv) if x[0] == "call" and x[1] in (".max", ".min", ".mean", "numpy.max", "numpy.min", "numpy.mean", "numpy.amax", "numpy.amin", "builtins.max", "builtins.min")
                   and x[2] and x[2][0][0] == "attr" and x[2][0][2] == "boxlength"]
            bare = [b for b in bl if not any(r[2][0] == b for r in red)]
            if bl and red and not bare:
                ok = False
                wit_q = ("box 9 x 6 x 7.5: every component is scaled by 2 pi / 9 (one scalar from the box lengths) instead of 2 pi / L of its own axis - "
                         "n = (0, 1, 0) gets q = 0.698 instead of 1.047; the vectors are not commensurate with the box")
        run.ob("R-ALG", fq, f"{arm}:qvector", ok, "q = integer vector * 2 pi / L, axis by axis (frame 0 box)", show(qv)[:120] if qv else "?",
               witness=None if ok is not False else (wit_q or "wave vectors are not commensurate with the box axis by axis"), loc=loc, sound=True)
        qval = at.get("qvalue")
        from .grlib import is_rowwise_norm
        okq = True if (qv is not None and qval is not None and is_rowwise_norm(qval) == qv) else (eqv(qval, ("call", "numpy.linalg.norm", (qv,), (("axis", C(1)),))) if qv is not None else None)
        run.ob("R-ALG", fq, f"{arm}:qvalue", okq, "|q| is the row-wise norm of the scaled wave vectors", show(qval)[:80] if qval else "?",
               witness=None if okq else "|q| computed from unscaled vectors / wrong axis", loc=loc, sound=True)
    ok_tc = tri(eqv(attrs.get("typecount"), TYPECOUNT), eqv(attrs.get("nparticle"), N_), eqv(attrs.get("nsnapshots"), T_))
    run.ob("R-ALG", fq, "counts", ok_tc, "N, N_a (type counts of frame 0) and T come from the trajectory", "",
           witness=None if ok_tc else "normalisation counts taken from something else", loc=loc, sound=True)


def check_method(run, pkg, K, m, attrs, ex):
    it = interp(pkg, f"{CLS}.{m}")
    fi = it.fi
    fq = short(fi.qual)
    loc = fi.loc()
    if len(it.returns) != 1:
        raise AnalysisError(f"{fq}: expected one return")
    ret = it.returns[0].data["value"]
    # frame being filled
    dfs = [e.data["value"] for e in it.events if e.kind == "assign" and e.data["value"][0] == "call" and e.data["value"][1] == "pandas.DataFrame"]
    if len(dfs) != 1:
        raise AnalysisError(f"{fq}: expected one result frame")
    df = dfs[0]
    cols = kw(df, "columns")
    colnames = [c[1] for c in cols[1]] if cols is not None and cols[0] == "list" else []
    want_cols = ["q", "Sq"] + [f"Sq{a}{a}" for a in range(1, K + 1) if K > 1] + [f"Sq{a}{b}" for a in range(1, K + 1) for b in range(a + 1, K + 1)]
    okc = True if set(colnames) == set(want_cols) else (False if (colnames and set(want_cols) - set(colnames)) else None)
    run.ob("R-ROUTE", fq, "declared-columns", okc, f"{K}-species result declares q, Sq and all partial columns", f"{colnames}",
           witness=None if okc else f"missing {sorted(set(want_cols) - set(colnames))} extra {sorted(set(colnames) - set(want_cols))}", loc=loc, sound=True)
    acc_ev, norm_ev, q_ev = {}, {}, []
    for e in stores(it):
        tg = e.data["target"]
        if tg[1] == df and is_const(tg[2]):
            name = tg[2][1]
            if name == "q":
                q_ev.append(e)
            elif e.data["op"] == "+":
                acc_ev.setdefault(name, []).append(e)
            elif e.data["op"] == "/":
                norm_ev.setdefault(name, []).append(e)
            else:
                run.ob("R-ALG", fq, f"{name}:statement", None, "column statement recognised", key_of(e)[:80], loc=loc_of(it, e))
    okq = eqv(ex(q_ev[0].data["value"]), ex(attrs["qvalue"])) if len(q_ev) == 1 else None
    run.ob("R-ALG", fq, "q-column", okq, "the q column is |q| of the scaled wave vectors", show(q_ev[0].data["value"])[:60] if q_ev else "missing",
           witness=None if okq else "q column does not hold |q|", loc=loc, sound=True)
    # ---- loops
    loop_ids = sorted({l for evs in acc_ev.values() for e in evs for l in e.loops})
    if len(loop_ids) != 1:
        raise AnalysisError(f"{fq}: column accumulation expected directly inside the frame loop")
    Lf = it.loops[loop_ids[0]]
    snap = Lf.target
    okf = eqv(ex(Lf.iter), ("attr", SN, "snapshots"))
    run.ob("R-LOOPDOM", fq, "frames", okf, "every frame contributes", show(ex(Lf.iter))[:60], witness=None if okf else "frames skipped", loc=loc, sound=True)
    # ---- density-mode accumulators
    if K == 1:
        # scalar accumulator: exp_thetas += exp(-1j thetas)
        augs = [e for e in it.events if e.kind == "aug" and len(e.loops) == 2]
        accs = {"all": [(e, ()) for e in augs]}
        medium_of = {id(e): e.data["value"] for e in augs}
        inits = [e for e in it.events if e.kind == "assign" and e.data["value"] == C(0) and e.loops == (Lf.id,)]
        acc_reset = True if inits else None
        if not inits and augs:
            nm_ = augs[0].data.get("name")
            outer = [e for e in it.events if e.kind == "assign" and e.data["name"] == nm_ and not e.loops]
            inner = [e for e in it.events if e.kind == "assign" and e.data["name"] == nm_ and e.loops]
            if outer and not inner:
                acc_reset = False      # the accumulator is zeroed once before the frame loop and never inside it
        acc_term = {"all": augs[0].data["new"] if augs else None}
    else:
        dict_assign = [e for e in it.events if e.kind == "assign" and e.data["value"][0] == "dict"]
        if len(dict_assign) != 1:
            raise AnalysisError(f"{fq}: expected one accumulator dict")
        D = dict_assign[0].data["value"]
        acc_reset = True if (dict_assign[0].loops == (Lf.id,) and all(v == C(0) for _, v in D[1])) else None
        if acc_reset is None and not dict_assign[0].loops and not [e for e in stores(it) if e.data["target"][1] == D and e.data["op"] is None and Lf.id in e.loops]:
            acc_reset = False          # built once before the frame loop, no entry is ever re-assigned inside it
        keys = [k[1] for k, _ in D[1]]
        want_keys = ["all"] + [f"{a}{a}" for a in range(1, K + 1)]
        okk = sorted(keys) == sorted(want_keys)
        run.ob("R-ROUTE", fq, "accumulators", True if okk else None, f"one density-mode accumulator per species plus 'all'", f"{keys}",
               witness=None if okk else f"accumulators {keys}", loc=loc_of(it, dict_assign[0]))
        accs = {}
        for e in stores(it):
            tg = e.data["target"]
            if tg[1] == D and is_const(tg[2]) and e.data["op"] == "+":
                accs.setdefault(tg[2][1], []).append((e, e.guards))
        acc_term = {k: ("sub", D, C(k)) for k in keys}
    run.ob("R-ROUTE", fq, "reset-per-frame", acc_reset, "density-mode accumulators are reset at the start of every frame", "",
           witness=None if acc_reset else "modes of different frames are summed coherently before squaring", loc=loc, sound=True)
    # particle loop and phase
    any_ev = next(iter(accs.values()))[0][0] if accs and next(iter(accs.values())) else None
    if any_ev is None:
        raise AnalysisError(f"{fq}: no accumulation of density modes found")
    Lp = it.loops[any_ev.loops[-1]]
    i = Lp.target
    okp = True if (Lp.iter == ("call", "builtins.range", (("attr", snap, "nparticle"),), ()) or ex(Lp.iter) == ("call", "builtins.range", (N_,), ())) else eqv(Lp.iter, ("call", "builtins.range", (("attr", snap, "nparticle"),), ()))
    wit_p = "particles skipped"
    if okp is not True:
        cov = block_coverage(it, Lp, snap, any_ev)
        if cov is not None:
            okp, wit_p = cov
    run.ob("R-LOOPDOM", fq, "particles", okp, "every particle of the frame contributes", show(Lp.iter)[:60], witness=None if okp else wit_p, loc=loc, sound=True)
    medium = any_ev.data["value"]
    qv = ex(attrs["qvector"])
    thetas = ("call", ".sum", (("bin", "*", attrs_q(it), ("sub", ("sub", ("attr", snap, "positions"), i), ("tuple", (("mod", "numpy.newaxis"), ("slice", NONE, NONE, NONE))))),),
              (("axis", C(1)),))
    want_medium = ("call", "numpy.exp", (("bin", "*", C(-1j), thetas),), ())
    okm = medium == want_medium
    if not okm:
        # algebraic: exp(-I * theta) with theta the q.r sum
        th = sp.Symbol("theta", real=True)

        def at(t):
            if t == thetas:
                return th
            return None
        tr = S.Translator(at)
        try:
            g = tr.tr(medium)
            okk, how = S.decide_equal(g, sp.exp(-sp.I * th))
            okm = okk if not (okk is False and tr.atoms) else None
        except Exception:
            okm = None
    run.ob("R-ALG", fq, "phase", okm, "each particle contributes exp(-i q.r_i) with q.r summed over the axes, r_i of the current frame", show(medium)[:140],
           witness=None if okm is not False else "phase sign / reduction axis / particle index differ from exp(-i q.r)", loc=loc_of(it, any_ev), sound=True)
    # routing decided for each type id
    ptype_i = ("sub", ("attr", snap, "particle_type"), i)
    if K > 1:
        # the species tested must be that of particle i in the frame being processed
        subjects = set()
        for lst in accs.values():
            for e, guards in lst:
                for g, _ in guards:
                    for x in walk(g):
                        if x[0] == "cmp" and x[1] in ("==", "!=") and is_const(x[3]) and isinstance(x[3][1], int):
                            subjects.add(x[2])
        foreign = set()
        for sj in subjects:
            sx = ex(sj)
            if sx != ptype_i and sx[0] == "sub" and sx[2] == i and sx[1][0] == "attr" and sx[1][2] == "particle_type":
                foreign.add(sj)
        fixed_foreign = [x for x in foreign if (lambda sx: sx[1][1][0] == "sub" and is_const(sx[1][1][2]) and not any(y[0] in ("loopvar", "mu", "elem") for y in walk(sx[1][1])))(ex(x))]
        run.ob("R-ROUTE", fq, "type-source", True if not foreign else (False if fixed_foreign else None), "the species of particle i is read from the frame being processed",
               ", ".join(show(ex(x))[:70] for x in foreign) if foreign else show(ptype_i)[:60],
               witness=None if not foreign else "two frames in which particles 0 and 1 exchange species at fixed composition: frame 1's densities rho_a are "
               "summed over the wrong particles (total S(q) unchanged, every partial column wrong)", loc=loc, sound=True)
        for t in range(1, K + 1):
            def leaf(c, t=t):
                if c[0] == "cmp" and c[1] in ("==", "!=") and (c[2] == ptype_i or c[2] in foreign) and is_const(c[3]):
                    return (t == c[3][1]) if c[1] == "==" else (t != c[3][1])
                return None
            got = []
            und = False
            for k, lst in accs.items():
                for e, guards in lst:
                    r = guard_eval(guards, lambda c: eval_bool(c, leaf))
                    if r is None:
                        und = True
                    elif r:
                        got.append(k)
                    if e.data["value"] != medium:
                        und = und or False
            want = sorted(["all", f"{t}{t}"])
            ok = None if und else sorted(got) == want
            run.ob("R-ROUTE", fq, f"type {t}", ok, f"a particle of type {t} feeds exactly the accumulators 'all' and '{t}{t}'", f"feeds {sorted(got)}",
                   witness=None if ok is not False else f"type id {t} -> {sorted(got)}", loc=loc, sound=True)   # every routing guard decided for this type id
        same_val = all(e.data["value"] == medium for lst in accs.values() for e, _ in lst)
        run.ob("R-ROUTE", fq, "same-phase", True if same_val else None, "every accumulator receives the same per-particle phase factor", "",
               witness=None if same_val else "species accumulators use different phase factors", loc=loc)
    # ---- column products
    for name in want_cols:
        if name == "q":
            continue
        evs = acc_ev.get(name, [])
        if len(evs) != 1:
            run.ob("R-ALG", fq, f"{name}:product", None, f"column {name} is accumulated once per frame", f"{len(evs)} statements", loc=loc)
            continue
        e = evs[0]
        v = e.data["value"]
        real = False
        if v[0] == "attr" and v[2] == "real":
            real, v = True, v[1]
        elif v[0] == "call" and v[1] == "numpy.real":
            real, v = True, v[2][0]
        if name == "Sq":
            a = b = "all"
        else:
            a, b = name[2] * 2, name[3] * 2
        okpr = None
        detail = show(v)[:120]
        if v[0] == "bin" and v[1] == "*":
            x, cx = strip_conj(v[2])
            y, cy = strip_conj(v[3])
            kx = [k for k, t_ in acc_term.items() if t_ == x]
            ky = [k for k, t_ in acc_term.items() if t_ == y]
            if kx and ky:
                # both factors are identified accumulators: which ones, and whether exactly one is conjugated, are read off exactly
                okpr = tri(True if real else None, cx != cy, sorted([kx[0], ky[0]]) == sorted([a, b]))
                detail = f"Re? {real}; factors acc[{kx[0]}]{'*' if cx else ''} x acc[{ky[0]}]{'*' if cy else ''}"
        elif v[0] == "call" and v[1] in ("numpy.square", "numpy.abs") or (v[0] == "bin" and v[1] == "**"):
            okpr = None
        run.ob("R-ALG", fq, f"{name}:product", okpr, f"{name} accumulates Re(rho_{a[0] if a != 'all' else ''} conj(rho_{b[0] if b != 'all' else ''}))", detail,
               witness=None if okpr is not False else f"{name} is built from {detail}", loc=loc_of(it, e), sound=True)
        oks = e.loops == (Lf.id,) and all(e.seq > x_[0].seq for lst in accs.values() for x_ in lst)
        run.ob("R-LOOPDOM", fq, f"{name}:per-frame", True if oks else None, "the product is taken once per frame, after all particles were summed", f"loops {e.loops}",
               witness=None if oks else "squared inside the particle loop", loc=loc_of(it, e))
        # normalisation
        nv = norm_ev.get(name, [])
        if len(nv) != 1:
            run.ob("R-ALG", fq, f"{name}:norm", None, f"{name} is normalised exactly once", f"{len(nv)} statements", loc=loc)
            continue
        ne = nv[0]
        if name == "Sq":
            ref = sT * sN
            what = "Sq / (T N)"
        elif a == b:
            ref = sT * sNk[int(a[0])]
            what = f"{name} / (T N_{a[0]})"
        else:
            ref = sT * sp.sqrt(sNk[int(a[0])] * sNk[int(b[0])])
            what = f"{name} / (T sqrt(N_{a[0]} N_{b[0]}))"

        def atom_of(t):
            if t == T_:
                return sT
            if t == N_:
                return sN
            if t[0] == "sub" and t[1] == TYPECOUNT and is_const(t[2]) and 0 <= t[2][1] < 6:
                return sNk[t[2][1] + 1]
            return None
        okseq = ne.seq > e.seq and not ne.loops
        check_algebra(run, "R-ALG", it, f"{name}:norm", what, ex(ne.data["value"]), ref, atom_of, loc_of(it, ne), positive=True)
        if not okseq:
            run.ob("R-ALG", fq, f"{name}:norm-order", False if ne.loops else None, "normalisation happens once, after the frame loop", f"loops {ne.loops}",
                   witness="divided once per frame", loc=loc_of(it, ne), sound=True)
    # ---- rounding before grouping
    def find(t, f):
        return [x for x in walk(t) if x[0] == "call" and x[1] == f]
    rd = find(ret, ".round")
    gb = find(ret, ".groupby")
    ok_ord = None
    detail = show(ret)[:140]
    if len(gb) == 1 and rd:
        g = gb[0]
        rounded = g[2][0]
        key = g[2][1] if len(g[2]) > 1 else kw(g, "by")
        ok_ord = rounded[0] == "call" and rounded[1] == ".round" and rounded[2][0] == df and (rounded[2][1:] == (C(6),) or kw(rounded, "decimals") == C(6)) \
            and key == ("sub", rounded, C("q"))
        mean = [x for x in walk(ret) if x[0] == "call" and x[1] == ".mean" and x[2] and x[2][0] == g]
        ok_ord = True if (ok_ord and mean) else None
        if ok_ord is None and rounded == df and key == ("sub", df, C("q")):
            ok_ord = False         # the raw table is grouped by its raw float |q| column; rounding comes after the means
        if ok_ord is None and key is not None:
            # a key that involves neither the table's q column nor the scaled wave vectors cannot be a function of |q| for every box
            qish = [x for x in walk(ex(key)) if (x[0] == "sub" and x[2] == C("q")) or x == ex(attrs["qvalue"]) or x == ex(attrs["qvector"])] + \
                   [x for x in walk(key) if (x[0] == "sub" and x[2] == C("q")) or (x[0] == "attr" and x[2] in ("qvalue", "qvector"))]
            if not qish and any(x[0] == "attr" and x[2] == "df_qvector" for x in walk(key)):
                ok_ord = False
                detail = "grouped by " + show(key)[:100]
    run.ob("R-ORDER", fq, "round-then-group", ok_ord, "per-vector values are rounded to 6 decimals, then averaged over equal |q| (grouped by the rounded q column)", detail,
           witness=None if ok_ord else "equal |q| with different float noise are not merged / unrounded values averaged / other precision", loc=loc, sound=True)
    # ---- save
    for e in calls(it, ".to_csv"):
        c = e.data["call"]
        path = ex(c[2][1]) if len(c[2]) > 1 else None
        if path == ("sym", "outputfile"):
            ok = True if c[2][0] == ret else (False if c[2][0] == df else None)     # the per-vector frame instead of the averaged one that is returned
            run.ob("R-SAVE", fq, "csv", ok, "the CSV holds the returned (q-averaged) frame", show(c[2][0])[:60], witness=None if ok else "file differs from returned values",
                   loc=loc_of(it, e), sound=True)


def attrs_q(it):
    return ("attr", ("sym", "self"), "qvector")


def check_dispatch(run, pkg, attrs):
    it = interp(pkg, f"{CLS}.getresults")
    fq = short(it.fi.qual)
    nk = ("call", "builtins.len", (("attr", ("sym", "self"), "typenumber"),), ())
    ok_tn = eqv(attrs.get("typenumber"), TYPENUMBER)
    run.ob("R-DISPATCH", short(pkg.cls(CLS).methods["__init__"].qual), "typenumber", ok_tn, "species are the distinct type ids of frame 0", "",
           witness=None if ok_tn else "species count taken from something else", sound=True)
    for K in range(1, 8):
        def leaf(c, K=K):
            if c[0] == "cmp" and is_const(c[3]) and c[2] == nk:
                b = c[3][1]
                return {"==": K == b, "!=": K != b, ">": K > b, ">=": K >= b, "<": K < b, "<=": K <= b}.get(c[1])
            return None
        sel = [r for r in it.returns if guard_eval(r.guards, lambda c: eval_bool(c, leaf)) is True]
        und = [r for r in it.returns if guard_eval(r.guards, lambda c: eval_bool(c, leaf)) is None]
        want = METHODS.get(K, "unary")
        if und:
            run.ob("R-DISPATCH", fq, f"K={K}", None, "guard decidable", "", loc=it.fi.loc())
            continue
        if not sel:
            run.ob("R-DISPATCH", fq, f"K={K}", False, f"{K} species are dispatched to sq.{want}", "falls through (None)", witness=f"{K} distinct types", loc=it.fi.loc(), sound=True)
            continue
        val = sel[0].data["value"]
        ok = val[0] == "call" and val[1] == pkg.cls(CLS).methods[want].qual
        others = {pkg.cls(CLS).methods[m_].qual for m_ in METHODS.values() if m_ != want}
        ok = True if ok else (False if (val[0] == "call" and val[1] in others) else None)
        run.ob("R-DISPATCH", fq, f"K={K}", ok, f"{K} species are dispatched to sq.{want}" + (" (total only)" if K > 5 else ""), show(val)[:60],
               witness=None if ok else f"{K} types -> {show(val)[:50]}", loc=loc_of(it, sel[0]), sound=True)
    run.minimum("R-DISPATCH", 7)


def block_coverage(it, Lp, snap, ev):
    """A loop over blocks of particles: positions[lo(n):hi(n)] with integer-affine bounds in the block counter.  The set of
    particle indices swept is enumerated on the extracted range and slice bounds for a few particle numbers; a particle that
    is never (or twice) covered is a definite difference.  (verdict, witness) or None when the form is not a block loop."""
    from .grlib import eval_int, Undecidable
    n = Lp.target
    Nt = ("attr", snap, "nparticle")
    sl = None
    for x in walk(ev.data["value"]):
        if x[0] == "sub" and x[1] == ("attr", snap, "positions") and x[2][0] == "slice" and any(y == n for y in walk(x[2])):
            sl = x[2]
            break
    if sl is None or not (Lp.iter[0] == "call" and Lp.iter[1] == "builtins.range"):
        return None
    try:
        for N in (257, 100, 7, 300):
            env = {Nt: N}
            rng = range(*[eval_int(a, env) for a in Lp.iter[2]])
            seen = [0] * N
            for k in rng:
                e2 = dict(env)
                e2[n] = k
                lo = 0 if sl[1] == NONE else eval_int(sl[1], e2)
                hi = N if sl[2] == NONE else eval_int(sl[2], e2)
                for j in range(N)[lo:hi]:
                    seen[j] += 1
            missed = [j for j, c in enumerate(seen) if c == 0]
            twice = [j for j, c in enumerate(seen) if c > 1]
            if missed or twice:
                what = f"particles {missed[0]}..{missed[-1]} ({len(missed)} of {N}) never enter the density modes" if missed else f"{len(twice)} particles are counted twice"
                return False, f"N = {N}: blocks {show(Lp.iter)[:40]} x positions[{show(sl)[:40]}]: {what}, but the sum is still normalised by N"
    except (Undecidable, Exception):  # noqa
        return None
    return None


def check_wavevector(run, pkg, ndim):
    q = "utils.wavevector.choosewavevector"

    def assume(c):
        if c[0] == "cmp" and c[1] == "==" and c[2] == ("sym", "ndim") and is_const(c[3]):
            return c[3][1] == ndim
        return None
    it = interp(pkg, q, assume=assume)
    fi = it.fi
    fq = short(fi.qual)
    loc = fi.loc()
    option_filters(run, pkg, q, fq, fi, ndim)
    numofq = ("sym", "numofq")
    st = [e for e in stores(it) if len(e.loops) == ndim and e.data["value"][0] in ("list", "tuple")]
    if len(st) != 1:
        run.ob("R-LOOPDOM", fq, f"{ndim}D:store", None, "one vector store inside the axis loops", f"{len(st)} stores", loc=loc)
        return
    e = st[0]
    loops = [it.loops[l] for l in e.loops]
    lvs = [L.target for L in loops]
    nhalf = ("call", "builtins.int", (("bin", "/", numofq, C(2)),), ())
    want_iter = ("call", "builtins.range", (("un", "-", nhalf), nhalf), ())
    for k, L in enumerate(loops):
        # relational: every axis must cover the range of axis 0 (definite when the range arguments differ); axis 0 against the documented range
        ok = True if L.iter == want_iter else (eqv(L.iter, loops[0].iter) if k > 0 else None)
        if ok is True and k > 0 and loops[0].iter != want_iter:
            ok = None
        wit_ax = f"axis {k} covers {show(L.iter)[:50]}: the vector set is not symmetric between axes"
        if L.iter[0] == "call" and L.iter[1] == "builtins.range" and len(L.iter[2]) == 2 and L.iter[2][0][0] == "phi" and L.iter != want_iter:
            # a scan whose lower end depends on an option: every arm must still start at or below 0, otherwise vectors with a
            # zero component along this axis - (n, 0[, 0]) and the like, part of the documented set [0, N/2] - are never generated
            arms = []

            def arms_of(x):
                if x[0] == "phi":
                    arms_of(x[2])
                    arms_of(x[3])
                else:
                    arms.append(x)
            arms_of(L.iter[2][0])
            lows = [a[1] for a in arms if is_const(a) and isinstance(a[1], int)]
            if any(v > 0 for v in lows):
                ok = False
                wit_ax = (f"with the option that selects the lower end {max(lows)} the scan of axis {k} starts above 0: vectors with a zero component along it, "
                          f"e.g. {(3, 0) if ndim == 2 else (3, 4, 0)} -> norm {3 if ndim == 2 else 5}, are missing from the default wave-vector set")
        run.ob("R-LOOPDOM", fq, f"{ndim}D:axis{k}", ok, f"axis {k} runs over the same range(-nhalf, nhalf), nhalf = int(numofq/2)", show(L.iter)[:70],
               witness=None if ok else wit_ax, loc=fi.loc(L.node), sound=True)
    okv = tuple(e.data["value"][1]) == tuple(lvs)
    run.ob("R-LOOPDOM", fq, f"{ndim}D:vector", True if okv else (False if (all(x in lvs for x in e.data["value"][1]) and len(set(e.data["value"][1])) < ndim) else None), "the stored vector is (loop variable of axis 0, 1[, 2]) in order", show(e.data["value"])[:60],
           witness=None if okv else "a loop variable is stored twice: one component never varies", loc=loc_of(it, e), sound=True)
    # predicate: integer norm using all loop variables
    g = [c for c, pol in e.guards if pol]
    okg = None
    detail = [show(c)[:80] for c in g]
    for c in g:
        if c[0] == "cmp" and c[1] == "==" and c[3] in (C(0), C(0.0)):
            inner = c[2]
            used = {x for x in walk(inner) if x in lvs}
            sq = [x for x in walk(inner) if x[0] == "call" and x[1] in ("math.sqrt", "numpy.sqrt")]
            if sq:
                s_ = sp.symbols("i0 i1 i2")
                tr = S.Translator(lambda t: s_[lvs.index(t)] if t in lvs else None)
                try:
                    arg = tr.tr(sq[0][2][0])
                    same_poly = sp.expand(arg - sum(s_[k] ** 2 for k in range(ndim))) == 0
                    form = ((inner[0] == "sub" and inner[2] == C(0)) or (inner[0] == "elem" and inner[2] == 0)) and inner[1][0] == "call" and inner[1][1] == "math.modf"
                    # the radicand is a polynomial in the loop variables only: compared exactly
                    okg = (True if (same_poly and used == set(lvs) and form) else (False if (not tr.atoms and not same_poly and form) else None))
                except Exception:
                    okg = None
    run.ob("R-LOOPDOM", fq, f"{ndim}D:predicate", okg, "a vector is kept iff sqrt(sum of squares of ALL components) has zero fractional part", detail,
           witness=None if okg else "predicate ignores a component / is not the integer-norm test", loc=loc_of(it, e), sound=True)
    # index increments once per stored vector, starts at 0
    augs = [a for a in it.events if a.kind == "aug" and a.loops == e.loops and a.guards == e.guards and a.data["op"] == "+" and a.data["value"] == C(1)]
    idx = e.data["target"][2]
    okidx = len(augs) == 1 and idx == augs[0].data["old"] and idx[0] == "mu" and augs[0].seq > e.seq
    run.ob("R-LOOPDOM", fq, f"{ndim}D:index", True if okidx else None, "row index advances by one per stored vector", show(idx)[:40],
           witness=None if okidx else "vectors overwrite each other / gaps", loc=loc_of(it, e))
    # capacity
    buf = e.data["target"][1]
    okcap = buf[0] == "call" and buf[1] == "numpy.zeros" and buf[2] and buf[2][0] == ("tuple", (("bin", "**", numofq, ("sym", "ndim")), ("sym", "ndim")))
    run.ob("R-LOOPDOM", fq, f"{ndim}D:capacity", True if okcap else None, "buffer holds numofq**ndim >= (2*int(numofq/2))**ndim rows", show(buf)[:70],
           witness=None if okcap else "buffer may be too small for the loop nest", loc=loc)
    # zero rows removed, onlypositive
    ret = it.returns[0].data["value"] if it.returns else NONE
    txt = show(ret)
    zero_removed = any(x[0] == "un" and x[1] == "~" and any(y[0] == "cmp" and y[1] == "==" and y[3] == C(0) for y in walk(x)) and
                       any(y[0] == "call" and y[1] == ".all" for y in walk(x)) for x in walk(ret))
    any_form = any(x[0] == "un" and x[1] == "~" and any(y[0] == "cmp" and y[1] == "==" and y[3] == C(0) for y in walk(x)) and
                   any(y[0] == "call" and y[1] == ".any" for y in walk(x)) and not any(y[0] == "call" and y[1] == ".all" for y in walk(x)) for x in walk(ret))
    run.ob("R-LOOPDOM", fq, f"{ndim}D:zero-removed", True if zero_removed else (False if any_form else None), "the zero vector and the unused (all-zero) buffer rows are removed", txt[:100],
           witness=None if zero_removed else "rows with ANY zero component are removed: axis vectors such as (n, 0, 0) are lost", loc=loc, sound=True)
    # onlypositive bool semantics
    pos = [x for x in walk(ret) if x[0] == "phi"]
    okpos = any(p[1][0] == "bool" and ("call", "builtins.isinstance", (("sym", "onlypositive"), ("builtin", "bool")), ()) in p[1][2] and ("sym", "onlypositive") in p[1][2]
                for p in pos)
    run.ob("R-LOOPDOM", fq, f"{ndim}D:onlypositive", True if okpos else None, "onlypositive=True (and only a bool True) restricts to non-negative components", "",
           witness=None if okpos else "axis strings 'x'/'y'/'z' are treated as True (or True ignored)", loc=loc)
    for p_ in pos:
        if p_[1][0] == "bool" and ("sym", "onlypositive") in p_[1][2]:
            cmps = [x for x in walk(p_[2]) if x[0] == "cmp" and x[1] in (">", ">=", "<", "<=") and (x[3] in (C(0), C(-1)) or x[2] in (C(0), C(-1)))
                    and not any(y == x for y in walk(p_[3]))]
            okc = bool(cmps) and all((x[1] == ">=" and x[3] == C(0)) or (x[1] == ">" and x[3] == C(-1)) or (x[1] == "<=" and x[2] == C(0)) for x in cmps) \
                and any(y[0] == "call" and y[1] == ".all" and kw(y, "axis", 1) == C(1) for y in walk(p_[2]))
            run.ob("R-CMP", fq, f"{ndim}D:onlypositive-cmp", True if (okc and cmps) else None, "onlypositive keeps vectors whose components are all >= 0 (documented range [0, N/2]: axis vectors stay)",
                   [show(x)[:50] for x in cmps], witness=None if okc else "vectors with a zero component such as (n, 0, 0) are dropped / sign test wrong", loc=loc)


def option_filters(run, pkg, q, fq, fi, ndim):
    """The post-filter of choosewavevector for every value of `onlypositive` (False, True, 'x', 'y'[, 'z']): the returned term, with
    the option and the dimension bound, is evaluated with the loop-filled buffer replaced by ALL integer vectors of [-2, 2]^d
    (plus unused all-zero rows) - a complete set of sign / zero patterns - and compared with the documented selection."""
    import itertools
    import numpy as np
    from .. import concrete as _cc
    _cc.FUNCS.setdefault("builtins.isinstance", isinstance)
    _cc.FUNCS.setdefault("builtins.str", str)
    Q = np.array(list(itertools.product(range(-2, 3), repeat=ndim)) + [[0] * ndim] * 3, dtype=np.int32)
    opts = [False, True, "x", "y"] + (["z"] if ndim == 3 else [])
    for opt in opts:
        key = f"{ndim}D:filter onlypositive={opt!r}"
        try:
            it = interp(pkg, q, bind={"ndim": C(ndim), "onlypositive": C(opt)})
            if len(it.returns) != 1:
                raise ValueError("several returns")
            ret = it.returns[0].data["value"]
            bufs = {x for x in walk(ret) if x[0] == "call" and x[1] in ("numpy.zeros", "numpy.empty") and x[2] and x[2][0][0] == "tuple"}
            if len(bufs) != 1:
                raise ValueError(f"{len(bufs)} buffers")
            env = {next(iter(bufs)): Q, ("builtin", "bool"): bool, ("builtin", "str"): str}
            got = np.asarray(_cc.ev(ret, env))
        except Exception as e:  # noqa
            run.ob("R-LOOPDOM", fq, key, None, "post-filter evaluated on the complete lattice [-2, 2]^d", f"not evaluable: {type(e).__name__}: {str(e)[:60]}", loc=fi.loc())
            continue
        nz = Q[~(Q == 0).all(axis=1)]
        if opt is False:
            want = nz
        elif opt is True:
            want = nz[(nz >= 0).all(axis=1)]
        else:
            a = "xyz".index(opt)
            others = [k for k in range(ndim) if k != a]
            want = nz[(nz[:, a] > 0) & (nz[:, others] == 0).all(axis=1)]
        gs = {tuple(r) for r in np.atleast_2d(got).tolist()} if got.size else set()
        ws = {tuple(r) for r in want.tolist()}
        ok = gs == ws and (got.shape[0] == want.shape[0] if got.ndim == 2 else not ws)
        extra, missing = sorted(gs - ws), sorted(ws - gs)
        what = {False: "all non-zero vectors are kept", True: "exactly the non-zero vectors with all components >= 0 are kept"}.get(opt, f"exactly the vectors along +{opt} (the other components zero) are kept")
        run.ob("R-LOOPDOM", fq, key, ok, f"onlypositive={opt!r}: {what} (returned term evaluated on all integer vectors of [-2, 2]^{ndim})",
               f"{len(gs)} vectors kept, {len(ws)} expected", witness=None if ok else
               (f"kept although excluded: {extra[:3]}" if extra else (f"dropped although included: {missing[:3]}" if missing else "duplicated rows")), loc=fi.loc(), sound=True)
