"""C13 - conditional g(r) and S(q) are the weighted pair histogram / Fourier sum of the per-particle quantity.

The two functions are interpreted once per condition kind (dtype / conditiontype / rank tests folded):
  conditional_gr : bool, complex scalar, real scalar, vector, tensor, unknown kind
  conditional_sq : bool selection, vector, scalar
R-DISPATCH each kind reaches its own weight form; an unknown conditiontype raises.
R-ALG      weight = Re(A_j conj A_i) / Re sum_c A_jc conj A_ic / tr(A_i A_j); normalisation monomials
           2 c V /(N^2 shell) with N = selected count (bool) or particle count; bin grid; gA_norm only for real scalars;
           S(q): phase exp(-i q.r_i), q = 2 pi n / L, division by sqrt(N_sel) before the modulus, |.|^2 (summed over components).
R-SIB      the bool arm's monomial is the diagonal partial g_aa of gr.* with T = 1 and N_a = selected count; the bool S(q) arm
           is the S_aa of sq.* (sum over the selected particles / sqrt(N_a)).
R-ALIGN    the weight slice belongs to the same particles as the distance slice (tensor loop j <-> j+i+1); in S(q) the weight
           and the position carry the same particle index.
R-PBC      pair differences are minimum-imaged with the snapshot's cell and the caller's mask.
R-ORDER    S(q) values are rounded before the average over equal |q|.
"""
from __future__ import annotations

import sympy as sp

from .common import *  # noqa
from .grlib import no_wrap_possible, is_rowwise_norm, pbc_args, pair_difference, index_kind, hist_info, classify_index, Misaligned, Undecidable
from ..vg import Interp

GR = "static.gr.conditional_gr"
SQ = "static.sq.conditional_sq"
SNAP = ("sym", "snapshot")
COND = ("sym", "condition")
NP_ = ("attr", SNAP, "nparticle")
L_ = ("attr", SNAP, "boxlength")
V_ = ("call", "numpy.prod", (L_,), ())
D_ = ("sub", ("attr", ("attr", SNAP, "positions"), "shape"), C(1))
LMIN = ("call", ".min", (L_,), ())
FULL = ("slice", NONE, NONE, NONE)

sN, sV, sd, sF, sdel, sLmin, sc, rhi, rlo, sNsel = sp.symbols("N V d F_d rdelta L_min c r_hi r_lo N_sel", positive=True)

KINDS = [("bool", "bool", None), ("complex", "complex128", None), ("scalar", "float64", None), ("vector", "float64", "vector"),
         ("tensor", "float64", "tensor")]


def gr_interp(pkg, dtype, ctype):
    def assume(c):
        if c[0] == "cmp" and c[1] == "==" and c[2] == ("attr", COND, "dtype") and is_const(c[3]):
            return c[3][1] == dtype
        if c[0] == "cmp" and c[1] == "==" and c[3] == ("attr", COND, "dtype") and is_const(c[2]):
            return c[2][1] == dtype
        if c[0] in ("sym",) and c == ("sym", "conditiontype"):
            return bool(ctype)
        return None
    return Interp(pkg, pkg.func(GR), bind={"conditiontype": C(ctype)}, assume=assume)


def strip(t):
    """remove .copy(), .astype(int) wrappers; report conjugation and real-part wrappers separately."""
    conj = False
    real = False
    changed = True
    while changed:
        changed = False
        if t[0] == "call" and t[1] in (".copy", "numpy.copy") and len(t[2]) == 1:
            t, changed = t[2][0], True
        elif t[0] == "call" and t[1] in ("numpy.conj", "numpy.conjugate", ".conj", ".conjugate") and len(t[2]) == 1:
            t, conj, changed = t[2][0], not conj, True
        elif t[0] == "attr" and t[2] == "real":
            t, real, changed = t[1], True, True
        elif t[0] == "call" and t[1] == "numpy.real" and len(t[2]) == 1:
            t, real, changed = t[2][0], True, True
    return t, conj, real


def factor(t, base):
    """A factor `base'[idx]` with base' = base up to copy/conj  ->  (idx, conj) ; trailing [np.newaxis, :] ignored."""
    if t[0] == "sub" and t[2][0] == "tuple" and t[2][1] and t[2][1][0] == ("mod", "numpy.newaxis"):
        t = t[1]
    t0, cj, _ = strip(t)
    if t0[0] != "sub":
        return None
    b, cj2, _ = strip(t0[1])
    if b != base:
        return None
    return t0[2], cj != cj2


def run(run: Run, pkg: Package) -> None:
    run.explanation = (
        "conditional_gr and conditional_sq are interpreted once per kind of per-particle quantity with the kind tests folded; in "
        "each arm the weight handed to np.histogram (or the term accumulated into the Fourier sum) is parsed into its two "
        "factors, their particle indices, conjugation and reduction, and compared with the definition; normalisations are "
        "reduced to monomials and compared with the definition and with the diagonal partial of gr.* / sq.*.")
    for name, dtype, ctype in KINDS:
        check_gr_arm(run, pkg, name, dtype, ctype)
    check_gr_unknown(run, pkg)
    check_sq(run, pkg)
    run.minimum("R-ALG", 40)
    run.minimum("R-ALIGN", 10)
    run.minimum("R-PBC", 10)


# ====================================================================== conditional_gr
def check_gr_arm(run, pkg, name, dtype, ctype):
    it = gr_interp(pkg, dtype, ctype)
    fi = it.fi
    fq = short(fi.qual)
    if len(it.returns) != 1:
        raise AnalysisError(f"{fq}[{name}]: expected one return")
    df = it.returns[0].data["value"]
    if not (df[0] == "call" and df[1] == "pandas.DataFrame"):
        raise AnalysisError(f"{fq}[{name}]: returned value is not the frame built in the function")
    acc, post = {}, {}
    for ev in stores(it):
        tg = ev.data["target"]
        if tg[0] == "sub" and tg[1] == df and is_const(tg[2]):
            (acc if ev.loops else post).setdefault(tg[2][1], []).append(ev)
    cond_now = COND
    if name == "bool":
        # bool selections are converted to 0/1 integers first
        cond_now = None
        for e in it.events:
            if e.kind == "assign" and e.data["name"] == "condition":
                cond_now = e.data["value"]
        ok = tri_lazy(lambda: (True if (cond_now is not None) else None), lambda: (True if (cond_now[0] == "call") else None), lambda: (True if (cond_now[1] == ".astype") else None), lambda: eqv(cond_now[2][0], COND))
        run.ob("R-DISPATCH", fq, "bool:as-int", ok, "a boolean selection is turned into 0/1 weights", show(cond_now)[:60] if cond_now else "not converted",
               witness=None if ok else "bool * bool weights", loc=fi.loc(), sound=True)
        if not ok:
            cond_now = COND
    # ---- loop and histograms
    for col in ("gr", "gA"):
        evs = acc.get(col, [])
        if len(evs) != 1:
            run.ob("R-ALG", fq, f"{name}:{col}:accumulate", None, f"column {col} accumulates one histogram per centre particle", f"{len(evs)} statements", loc=fi.loc())
            return
    e_gr, e_ga = acc["gr"][0], acc["gA"][0]
    if len(e_ga.loops) != 1 or e_gr.loops != e_ga.loops:
        raise AnalysisError(f"{fq}[{name}]: accumulations are not in one particle loop")
    Lp = it.loops[e_ga.loops[0]]
    ivar = Lp.target
    okp = eqv(Lp.iter, ("call", "builtins.range", (("bin", "-", NP_, C(1)),), ()), ("call", "builtins.range", (NP_,), ()))
    run.ob("R-LOOPDOM", fq, f"{name}:centres", okp, "centre index i runs over range(N-1) (with j > i: every unordered pair once)", show(Lp.iter)[:70],
           witness=None if okp else f"i in {show(Lp.iter)[:50]}", loc=fi.loc(Lp.node), sound=True)
    maxbin = ("call", "builtins.int", (("bin", "/", ("bin", "/", LMIN, C(2.0)), ("sym", "rdelta")),), ())
    info = {}
    for col, ev in (("gr", e_gr), ("gA", e_ga)):
        v = ev.data["value"]
        loc = loc_of(it, ev)
        if ev.data["op"] != "+" or not (v[0] == "elem" and v[2] == 0 and v[1][0] == "call" and v[1][1] == "numpy.histogram"):
            run.ob("R-ALG", fq, f"{name}:{col}:accumulate", None, "histogram counts are accumulated", key_of(ev)[:100], loc=loc)
            return
        hi = hist_info(v[1])
        info[col] = hi
        # bins / range
        def _lm(t, col=col):
            if t == LMIN:
                return sLmin
            if t == ("sym", "rdelta"):
                return sdel
            kind, why = cell_scalar_kind(t, SNAP)
            if kind == "Lmin":
                return sLmin
            if kind == "Lmin?":
                run.ob("R-ALG", fq, f"{name}:{col}:cell-Lmin", False, "L_min in the bin count is the smallest box length of the frame's cell, for orthogonal and triclinic cells",
                       show(t)[:90], witness=why, loc=fi.loc(), sound=True)
                return sLmin
            return None
        tr = S.Translator(_lm, True)
        try:
            gb = tr.tr(hi["bins"]) if hi["bins"] is not None else None
            okb = S.decide_equal(gb, S.PyInt(sLmin / (2 * sdel)))[0] if gb is not None else None
            rg = hi["range"]
            okr = tri_lazy(lambda: (True if (rg is not None) else None), lambda: (True if (rg[0] == "tuple") else None), lambda: (True if (len(rg[1]) == 2) else None), lambda: eqv(rg[1][0], C(0), C(0.0)), lambda: (True if (S.decide_equal(tr.tr(rg[1][1]), S.PyInt(sLmin / (2 * sdel)) * sdel)[0] is True) else None))
        except Exception:  # noqa
            okb = okr = None
        run.ob("R-ALG", fq, f"{name}:{col}:bins", okb, "bins = int(L_min / (2 rdelta))", show(hi["bins"])[:70] if hi["bins"] else "default",
               witness=None if okb else "bin count differs from the row count", loc=loc, sound=True)
        run.ob("R-ALG", fq, f"{name}:{col}:range", okr, "range = (0, maxbin * rdelta)", show(hi["range"])[:80] if hi["range"] else "default",
               witness=None if okr else "bin edges differ from k * rdelta", loc=loc, sound=True)
        if hi["mask"] is not None:
            run.ob("R-ALG", fq, f"{name}:{col}:unmasked", None, "every pair enters the histogram", show(hi["mask"])[:60], loc=loc)
        inner = is_rowwise_norm(hi["data"]) if hi["data"] is not None else None
        pa = pbc_args(inner) if inner is not None else None
        pdiff = pair_difference(pa[0]) if pa else None
        if not pdiff:
            plain = pair_difference(inner) if inner is not None else None
            plain = plain and no_wrap_possible(hi["data"])
            run.ob("R-PBC", fq, f"{name}:{col}:distance", False if plain else None, "histogrammed quantity is |minimum image of r_j - r_i|",
                   show(hi["data"])[:100] if hi["data"] else "?", witness="distances across the periodic boundary are not imaged" if plain else None, loc=loc, sound=True)
            continue
        kinds = {index_kind(pdiff["left"], ivar), index_kind(pdiff["right"], ivar)}
        ok_al = tri_lazy(lambda: eqv(pdiff["snap"], SNAP), lambda: (True if (kinds == {"i", "after_i"}) else None))
        run.ob("R-ALIGN", fq, f"{name}:{col}:pairs", ok_al, "distances are between centre i and the particles j > i", f"[{show(pdiff['left'])}] - [{show(pdiff['right'])}]",
               witness=None if ok_al else "pair set is not {(i, j): j > i}", loc=loc, sound=True)
        okh = eqv(pa[1], ("attr", SNAP, "hmatrix"))
        run.ob("R-PBC", fq, f"{name}:{col}:cell", okh, "minimum image uses the snapshot's cell", show(pa[1])[:50], witness=None if okh else "another cell", loc=loc, sound=True)
        okm = eqv(pa[2], ("sym", "ppp")) if pa[2] is not None else False
        run.ob("R-PBC", fq, f"{name}:{col}:mask", okm, "the caller's periodicity mask is forwarded", show(pa[2])[:40] if pa[2] else "default",
               witness=None if okm else "mask not forwarded", loc=loc, sound=True)
    if "gr" in info:
        okw = info["gr"]["weights"] is None
        run.ob("R-ALG", fq, f"{name}:gr:unweighted", True if okw else None, "the reference g(r) counts pairs without weights", show(info["gr"]["weights"])[:60] if not okw else "no weights",
               witness=None if okw else "reference g(r) weighted", loc=loc_of(it, e_gr))
    if "gA" in info:
        same = eqv(info["gA"]["data"], info["gr"]["data"]) if info.get("gr", {}).get("data") is not None else None
        run.ob("R-ALIGN", fq, f"{name}:gA:same-distances", same, "weighted and unweighted histograms bin the same distances", "",
               witness=None if same else "gA and gr histogram different distance arrays", loc=loc_of(it, e_ga), sound=True)
        check_weight(run, it, fq, name, info["gA"]["weights"], cond_now, ivar, e_ga)
    # ---- normalisation
    edges_ok = lambda call: True

    def atom_of(t):
        table = {NP_: sN, V_: sV, D_: sd, LMIN: sLmin, ("sym", "rdelta"): sdel,
                 ("call", "PyMatterSim.utils.funcs.nidealfac", (D_,), ()): sF}
        if t in table:
            return table[t]
        kind, why = cell_scalar_kind(t, SNAP)
        if kind in ("V", "Lmin"):
            return sV if kind == "V" else sLmin
        if kind in ("V?", "Lmin?"):
            run.ob("R-ALG", fq, f"{name}:cell-{kind[:-1]}", False, "the cell volume / smallest box length entering the normalisation is that of the frame's cell for orthogonal and triclinic cells",
                   show(t)[:90], witness=why, loc=fi.loc(), sound=True)
            return sV if kind == "V?" else sLmin
        if name == "bool" and t == ("call", ".sum", (cond_now,), ()):
            return sNsel
        if t[0] == "sub" and t[1] == df and is_const(t[2]):
            return sc
        if t[0] == "sub" and t[1][0] == "elem" and t[1][2] == 1 and t[1][1][0] == "call" and t[1][1][1] == "numpy.histogram":
            if t[2] == ("slice", C(1), NONE, NONE):
                return rhi
            if t[2] == ("slice", NONE, C(-1), NONE):
                return rlo
        return None
    nideal = sF * sp.pi * (rhi ** sd - rlo ** sd)
    Nw = sNsel if name == "bool" else sN
    refs = {"r": (rhi - sdel / 2, "r is the bin centre r_hi - rdelta/2"),
            "gr": (sc * 2 * sV / (sN ** 2 * nideal), "reference g(r) = 2 c V / (N^2 shell)"),
            "gA": (sc * 2 * sV / (Nw ** 2 * nideal), "g_A = 2 w V / (N^2 shell) with N = " + ("number of selected particles (the partial g_aa monomial of gr.* with T = 1)" if name == "bool" else "particle number"))}
    for col, (ref, what) in refs.items():
        evs = post.get(col, [])
        if len(evs) != 1 or evs[0].data["op"] is not None:
            run.ob("R-ALG", fq, f"{name}:{col}:norm", None, what, f"{len(evs)} assignments", loc=fi.loc())
            continue
        ev = evs[0]
        val = ev.data["value"]
        reads = {x[2][1] for x in walk(val) if x[0] == "sub" and x[1] == df and is_const(x[2])}
        if col != "r" and reads != {col}:
            run.ob("R-ALG", fq, f"{name}:{col}:norm", None, what, f"normalises counts read from {sorted(reads)}", loc=loc_of(it, ev))
            continue
        check_algebra(run, "R-ALG", it, f"{name}:{col}:norm", what, val, ref, atom_of, loc_of(it, ev), positive=True,
                      prep=lambda e_: sp.simplify(e_.subs(rlo, rhi - sdel)))
    # ---- normalised scalar variant
    gn = post.get("gA_norm", [])
    if name == "scalar":
        if len(gn) != 1:
            run.ob("R-ALG", fq, "scalar:gA_norm", None, "real scalars also get gA_norm", f"{len(gn)} assignments", loc=fi.loc())
        else:
            m1, m2, g = sp.symbols("meanA meanA2 gA")

            def at(t):
                if t == ("call", ".mean", (COND,), ()) or t == ("call", "numpy.mean", (COND,), ()):
                    return m1
                if t in (("call", ".mean", (("call", "numpy.square", (COND,), ()),), ()), ("call", "numpy.mean", (("call", "numpy.square", (COND,), ()),), ()),
                         ("call", ".mean", (("bin", "**", COND, C(2)),), ()), ("call", ".mean", (("bin", "*", COND, COND),), ())):
                    return m2
                if t == ("sub", df, C("gA")):
                    return g
                return None
            check_algebra(run, "R-ALG", it, "scalar:gA_norm", "gA_norm = (g_A - <A>^2) / (<A^2> - <A>^2)", gn[0].data["value"], (g - m1 ** 2) / (m2 - m1 ** 2), at,
                          loc_of(it, gn[0]), positive=False)
            okafter = gn[0].seq > max(e.seq for e in post.get("gA", gn))
            run.ob("R-ALG", fq, "scalar:gA_norm:order", okafter, "gA_norm is computed from the normalised g_A", "", witness=None if okafter else "raw counts used", loc=loc_of(it, gn[0]))
    else:
        # definite only when the assignment is reached unconditionally in this configuration: a guard the configuration does not
        # decide (a kind computed by a helper / looked up in a table) leaves it open whether this kind gets the column
        base_guards = set(g_ for e_ in post.get("gA", []) for g_ in e_.guards)
        open_guard = bool(gn) and all(any(g_ not in base_guards for g_ in e_.guards) for e_ in gn)
        v_gn = True if not gn else (None if open_guard else False)
        run.ob("R-DISPATCH", fq, f"{name}:no-gA_norm", v_gn, "gA_norm is produced only for real scalar quantities", f"{len(gn)} assignments" + (" under an undecided test" if open_guard else ""),
               witness=None if v_gn is not False else f"{name} quantity gets a variance-normalised column", loc=fi.loc(), sound=True)


def check_weight(run, it, fq, name, w, cond_now, ivar, ev):
    loc = loc_of(it, ev)
    if w is None:
        run.ob("R-ALG", fq, f"{name}:weight", False, "g_A is a weighted histogram", "no weights", witness="gA equals the plain pair count", loc=loc, sound=True)
        return
    if name == "tensor":
        # w = zeros(N-(i+1)) filled by SIJ[j] = trace(matmul(cond[i], cond[j+i+1])), j over range(len)
        fills = [e for e in stores(it) if e.data["target"][1] == w]
        if len(fills) != 1 or len(fills[0].loops) != 2:
            run.ob("R-ALG", fq, "tensor:weight", None, "tensor weights are filled pair by pair", f"{len(fills)} stores into {show(w)[:50]}", loc=loc)
            return
        f = fills[0]
        Lj = it.loops[f.loops[1]]
        j = Lj.target
        oklen = eqv(w, ("call", "numpy.zeros", (("bin", "-", NP_, ("bin", "+", ivar, C(1))),), ()))
        okdom = eqv(Lj.iter, ("call", "builtins.range", (("sub", ("attr", w, "shape"), C(0)),), ()))
        run.ob("R-ALIGN", fq, "tensor:length", tri(oklen, okdom), "one weight per particle j > i, all filled", f"{show(w)[:60]} ; {show(Lj.iter)[:60]}",
               witness=None if oklen and okdom else "weights missing / surplus for the distance slice [i+1:]", loc=loc_of(it, f), sound=True)
        v = f.data["value"]
        A = B = None
        if v[0] == "call" and v[1] == "numpy.trace" and v[2]:
            m = v[2][0]
            if m[0] == "call" and m[1] in ("numpy.matmul", "numpy.dot") and len(m[2]) == 2:
                A, B = m[2]
            elif m[0] == "bin" and m[1] == "@":
                A, B = m[2], m[3]
        if A is None:
            # sum of the element-wise product of the two bare tensors (no transpose anywhere): sum_ab A_ab B_ab
            elementwise = v[0] == "call" and v[1] in (".sum", "numpy.sum") and len(v[2]) == 1 and not v[3] and v[2][0][0] == "bin" and v[2][0][1] == "*" \
                and factor(v[2][0][2], COND) is not None and factor(v[2][0][3], COND) is not None
            run.ob("R-ALG", fq, "tensor:weight", False if elementwise else None, "tensor weight is the trace of the matrix product tr(A_i A_j)", show(v)[:100],
                   witness="sum_ab A_ab B_ab differs from tr(A B) for non-symmetric tensors" if elementwise else None, loc=loc_of(it, f), sound=True)
            return
        fa, fb = factor(A, COND), factor(B, COND)
        if fa is None or fb is None:
            run.ob("R-ALG", fq, "tensor:weight", None, "factors are the tensors of two particles", f"{show(A)[:50]}, {show(B)[:50]}", loc=loc_of(it, f))
            return
        slot = f.data["target"][2]
        # slot j of the weights <-> particle i+1+j of the distances
        n = 6
        bad = None
        try:
            from .grlib import eval_int
            for iv in range(n - 1):
                for jv in range(n - 1 - iv):
                    env = {ivar: iv, j: jv}
                    got = {eval_int(fa[0], env), eval_int(fb[0], env)}
                    s = eval_int(slot, env)
                    want = {iv, iv + 1 + s}
                    if got != want:
                        bad = f"N={n}, i={iv}, slot {s}: tensors of particles {sorted(got)} multiplied, the distance in that slot is between particles {iv} and {iv + 1 + s}"
                        break
                if bad:
                    break
            run.ob("R-ALIGN", fq, "tensor:pair", bad is None, "weight slot j holds tr(A_i A_{i+1+j}): the pair whose distance sits in slot j", f"{show(fa[0])}, {show(fb[0])} -> slot {show(slot)}",
                   witness=bad, loc=loc_of(it, f), sound=True)
        except Undecidable as e:
            run.ob("R-ALIGN", fq, "tensor:pair", None, "tensor pair indices decidable", str(e), loc=loc_of(it, f))
        return
    # scalar-like and vector weights
    w0, _, real = strip(w)
    red = None
    if name == "vector":
        if w0[0] == "call" and w0[1] in (".sum", "numpy.sum") and kw(w0, "axis", 1) in (C(1), C(-1)):
            red = "sum"
            w0, _, real2 = strip(w0[2][0])
            real = real or real2
        okred = True if red == "sum" else None
        if red is None and w0[0] == "call" and w0[1] in (".sum", "numpy.sum") and is_const(kw(w0, "axis", 1) or NONE) and kw(w0, "axis", 1) not in (C(1), C(-1)):
            okred = False          # the recognised reduction runs over another axis (or over everything)
        run.ob("R-ALG", fq, "vector:reduction", okred, "vector weights are summed over components (axis 1)", show(w)[:100],
               witness=None if red == "sum" else "the product is not reduced over the component axis: weights are not one number per pair (j > i)", loc=loc, sound=True)
        if red != "sum":
            return
    if not (w0[0] == "bin" and w0[1] == "*"):
        run.ob("R-ALG", fq, f"{name}:weight", None, "weight is a product of the quantity at j and at i", show(w)[:100], loc=loc)
        return
    fa, fb = factor(w0[2], cond_now), factor(w0[3], cond_now)
    if fa is None or fb is None:
        # one factor is not the quantity: e.g. weights = condition[i+1:] only
        run.ob("R-ALG", fq, f"{name}:weight", None, "both factors are values of the per-particle quantity", f"{show(w0[2])[:60]} , {show(w0[3])[:60]}", loc=loc)
        return
    try:
        ka, kb = classify_index(fa[0], ivar), classify_index(fb[0], ivar)
        okidx = {ka, kb} == {"i", "j"}
        wit = None if okidx else f"weights pair the quantity at [{show(fa[0])}] with [{show(fb[0])}]"
    except Misaligned as e:
        okidx, wit = False, str(e)
    except Undecidable as e:
        okidx, wit = None, str(e)
    run.ob("R-ALIGN", fq, f"{name}:weight:pair", okidx, "the weight multiplies the quantity of the centre i with that of the particles j > i (same slice as the distances)",
           f"[{show(fa[0])}] x [{show(fb[0])}]", witness=wit, loc=loc, sound=True)
    if name in ("complex", "vector"):
        okc = fa[1] != fb[1]
        run.ob("R-ALG", fq, f"{name}:weight:conj", okc, "exactly one factor is complex-conjugated: Re(A_j conj A_i)", f"conj flags {fa[1]}, {fb[1]}",
               witness=None if okc else "complex A: Re(A_i A_j) instead of Re(A_i conj A_j)", loc=loc, sound=True)
        run.ob("R-ALG", fq, f"{name}:weight:real", True if real else None, "the real part of the product is histogrammed", show(w)[:80],
               witness=None if real else "complex weights passed to np.histogram", loc=loc)
    else:
        run.ob("R-ALG", fq, f"{name}:weight:conj", True, "real quantity: conjugation is the identity", f"conj flags {fa[1]}, {fb[1]}", loc=loc, nontrivial=False)


def check_gr_unknown(run, pkg):
    it = gr_interp(pkg, "float64", "spam")
    fq = short(it.fi.qual)
    raises = [e for e in it.events if e.kind == "raise" and not e.loops]
    # a return that can only execute after a raise on the same path (e.g. a raise inside a helper interpreted in place) is dead
    reach_ret = [r for r in it.returns if not any(e.seq < r.seq and set(e.guards) <= set(r.guards) for e in raises)]
    ok = True if (bool(raises) and not reach_ret) else None
    # a return reached without any undecided test of the (folded) kind string: definite
    if reach_ret and any(not [g for g, _ in r.guards if C("spam") in set(walk(g))] for r in reach_ret):
        ok = False
    run.ob("R-DISPATCH", fq, "unknown-kind", ok, "an unknown conditiontype raises instead of returning numbers", f"{len(raises)} raise, {len(reach_ret)} reachable returns",
           witness=None if ok else "conditiontype='spam' returns a table", loc=it.fi.loc(), sound=True)


# ====================================================================== conditional_sq
def sq_interp(pkg, kind):
    def assume(c):
        if c[0] == "cmp" and c[1] == "==" and c[2] == ("attr", COND, "dtype") and is_const(c[3]):
            return (c[3][1] == "bool") == (kind == "bool")
        if c[0] == "cmp" and c[1] in (">", ">=", "==", "!=", "<", "<=") and is_const(c[3]):
            rank = None
            if c[2] == ("call", "builtins.len", (("attr", COND, "shape"),), ()) or c[2] == ("attr", COND, "ndim"):
                rank = 2 if kind == "vector" else 1
            if rank is not None:
                b = c[3][1]
                return {">": rank > b, ">=": rank >= b, "==": rank == b, "!=": rank != b, "<": rank < b, "<=": rank <= b}[c[1]]
        return None
    return Interp(pkg, pkg.func(SQ), assume=assume)


def check_sq(run, pkg):
    for kind in ("bool", "vector", "scalar"):
        it = sq_interp(pkg, kind)
        fi = it.fi
        fq = short(fi.qual)
        if len(it.returns) != 1:
            raise AnalysisError(f"{fq}[{kind}]: expected one return")
        ret = it.returns[0].data["value"]
        dfs = [e.data["value"] for e in it.events if e.kind == "assign" and e.data["name"] == "sqresults" and e.data["value"][0] == "call" and e.data["value"][1] == "pandas.DataFrame"]
        if not dfs:
            raise AnalysisError(f"{fq}: result frame not found")
        df = dfs[0]
        st = {e.data["target"][2][1]: e for e in stores(it) if e.data["target"][1] == df and is_const(e.data["target"][2])}
        # ---- q = 2 pi n / L, |q|
        Q = None
        if "q" in st:
            qn = st["q"].data["value"]
            Q = is_rowwise_norm(qn)
        okq = None
        if Q is not None and Q[0] == "bin" and Q[1] == "*":
            a, b = Q[2], Q[3]
            for x, y in ((a, b), (b, a)):
                x0 = x[2][0] if x[0] == "call" and x[1] == ".astype" else x
                if x0 == ("sym", "qvector") and y[0] == "sub" and y[2] == ("tuple", (("mod", "numpy.newaxis"), FULL)):
                    Ls = sp.Symbol("L", positive=True)
                    trq = S.Translator(lambda t: Ls if t == L_ else None, True)
                    ok_, _ = S.decide_equal(trq.tr(y[1]), 2 * sp.pi / Ls)
                    okq = ok_ if not trq.atoms else (True if ok_ else None)
        run.ob("R-ALG", fq, f"{kind}:q", okq, "wave vectors are integer vectors x 2 pi / L axis by axis; the q column is their row norm", show(Q)[:100] if Q else "?",
               witness=None if okq else "q != 2 pi n / L (per axis)", loc=loc_of(it, st["q"]) if "q" in st else fi.loc(), sound=True)
        q_components(run, it, fq, kind, Q)
        if "Sq" not in st or Q is None:
            run.ob("R-ALG", fq, f"{kind}:Sq", None, "Sq column assigned", "not found", loc=fi.loc())
            continue
        ev = st["Sq"]
        loc = loc_of(it, ev)
        v, _, real = strip(ev.data["value"])
        comp_sum = False
        if v[0] == "call" and v[1] in (".sum", "numpy.sum") and kw(v, "axis", 1) in (C(1), C(-1)):
            comp_sum = True
            v, _, r2 = strip(v[2][0])
            real = real or r2
        okred = True if comp_sum == (kind == "vector") else None
        if kind == "vector" and not comp_sum and v[0] == "sub" and v[2][0] == "tuple" and any(is_const(x) and isinstance(x[1], int) for x in v[2][1]):
            okred = False          # one component picked instead of the sum over components
            v = v[1]
        run.ob("R-ALG", fq, f"{kind}:components", okred, "the modulus is summed over vector components (only for vector quantities)", f"component sum = {comp_sum}",
               witness=None if okred else "vector field: S is not the sum over components", loc=loc, sound=True)
        E = None
        okmod = False
        if v[0] == "bin" and v[1] == "*":
            a, ca, _ = strip(v[2])
            b, cb, _ = strip(v[3])
            okmod = a == b and ca != cb
            E = a
        elif v[0] == "call" and v[1] in ("numpy.square", ) and v[2][0][0] == "call" and v[2][0][1] in ("numpy.abs", "numpy.absolute"):
            E = v[2][0][2][0]
            okmod = True
            real = True
        elif v[0] == "bin" and v[1] == "**" and v[3] == C(2) and v[2][0] == "call" and v[2][1] in ("numpy.abs", "numpy.absolute", "builtins.abs"):
            E = v[2][2][0]
            okmod = True
            real = True
        verdict_mod = True if (okmod and real) else None
        wit_mod = None if okmod and real else "not the squared modulus of the Fourier sum"
        if verdict_mod is None and v[0] == "bin" and v[1] == "+":
            # C**2 + S**2 of the cosine and sine sums: the squared modulus only when both sums are real, i.e. when the per-particle
            # weights are; plain squares of sums weighted by a complex quantity are not a modulus
            def sq_arg(t):
                if t[0] == "call" and t[1] == "numpy.square" and len(t[2]) == 1:
                    return t[2][0]
                if t[0] == "bin" and t[1] == "**" and t[3] in (C(2), C(2.0)):
                    return t[2]
                return None
            A_, B_ = sq_arg(v[2]), sq_arg(v[3])
            if A_ is not None and B_ is not None:
                trig = lambda t, f: any(x[0] == "call" and x[1] == f for x in walk(t))      # noqa: E731
                if (trig(A_, "numpy.cos") and trig(B_, "numpy.sin")) or (trig(A_, "numpy.sin") and trig(B_, "numpy.cos")):
                    weighted = any(x == COND for x in walk(A_)) or any(x == COND for x in walk(B_))
                    absd = any(x[0] == "call" and x[1] in ("numpy.abs", "numpy.absolute", "builtins.abs") for x in walk(v))
                    if kind != "bool" and weighted and not absd:
                        verdict_mod = False
                        wit_mod = ("a complex per-particle quantity: one particle at the origin with A = 1j gives cosine sum 1j and sine sum 0, C**2 + S**2 = -1, "
                                   "while |sum A exp(-i q.r)|**2 = 1 (plain squares of complex sums are not a squared modulus)")
        run.ob("R-ALG", fq, f"{kind}:modulus", verdict_mod, "S = Re(F conj F) = |F|^2 of one Fourier sum F", show(ev.data["value"])[:100],
               witness=wit_mod, loc=loc, sound=True)
        if E is None:
            continue
        # F = SUM / sqrt(Nsel)
        Nsel = ("call", ".sum", (COND,), ()) if kind == "bool" else NP_
        oknorm = None
        SUM = None
        if E[0] == "bin" and E[1] == "/":
            SUM, den = E[2], E[3]
            oknorm = eqv(den, ("call", "math.sqrt", (Nsel,), ()), ("call", "numpy.sqrt", (Nsel,), ()), ("bin", "**", Nsel, C(0.5)), same=True)
            other = NP_ if kind == "bool" else None
            if oknorm is None and other is not None and eqv(den, ("call", "math.sqrt", (other,), ()), ("call", "numpy.sqrt", (other,), ())) is True:
                oknorm = False     # the total particle number where the number of selected particles belongs
        run.ob("R-ALG", fq, f"{kind}:norm", oknorm, "the Fourier sum is divided by sqrt(" + ("number of selected particles" if kind == "bool" else "N") + ") before the modulus: S = |sum|^2 / N"
               + (" (the S_aa of sq.* with N_a = selected count)" if kind == "bool" else ""), show(E[3])[:60] if E[0] == "bin" else show(E)[:60],
               witness=None if oknorm else "normalisation is not 1/N" + ("_selected" if kind == "bool" else ""), loc=loc, sound=True)
        if SUM is None or split_acc(SUM) is None:
            run.ob("R-ALG", fq, f"{kind}:sum", None, "Fourier sum accumulated in a particle loop", show(SUM)[:80] if SUM else "?", loc=loc)
            continue
        mu, X = split_acc(SUM)
        L = it.loops[mu[1]]
        ivar = L.target
        okinit = eqv(mu[3], C(0), C(0.0), C(0j))
        okdom = eqv(L.iter, ("call", "builtins.range", (Nsel,), ()))
        run.ob("R-LOOPDOM", fq, f"{kind}:particles", tri(okdom, True if okinit else None), "the sum starts at 0 and runs over all " + ("selected " if kind == "bool" else "") + "particles", show(L.iter)[:60],
               witness="particles skipped / counted twice", loc=fi.loc(L.node), sound=True)
        # X = phase [* weight]
        phase, weight = X, None
        if X[0] == "bin" and X[1] == "*":
            cand = [X[2], X[3]]
            ph = [c for c in cand if any(y[0] == "call" and y[1] == "numpy.exp" for y in walk(c))]
            if len(ph) == 1:
                phase = ph[0]
                weight = cand[1] if cand[0] is phase else cand[0]
        if phase[0] == "sub" and phase[2] == ("tuple", (FULL, ("mod", "numpy.newaxis"))):
            phase = phase[1]
        P = ("sub", ("attr", SNAP, "positions"), COND) if kind == "bool" else ("attr", SNAP, "positions")
        th = sp.Symbol("theta", real=True)
        okph = None
        theta_terms = []

        def at(t):
            if t[0] == "call" and t[1] == ".sum" and kw(t, "axis", 1) in (C(1), C(-1)) and t[2][0][0] == "bin" and t[2][0][1] == "*":
                a, b = t[2][0][2], t[2][0][3]
                for x, y in ((a, b), (b, a)):
                    if x == Q:
                        yy = y[1] if (y[0] == "sub" and y[2] == ("tuple", (("mod", "numpy.newaxis"), FULL))) else y
                        theta_terms.append(yy)
                        return th
            return None
        if phase[0] == "call" and phase[1] == "numpy.exp":
            tr = S.Translator(at)
            try:
                g = tr.tr(phase)
                okk, how = S.decide_equal(g, sp.exp(-sp.I * th))
                okph = okk if not (okk is False and tr.atoms) else None
            except Exception:  # noqa
                okph = None
        run.ob("R-ALG", fq, f"{kind}:phase", okph, "each particle contributes exp(-i q.r_i), q.r summed over the axes", show(phase)[:110],
               witness=None if okph is not False else "phase sign or reduction differ from exp(-i q.r)", loc=loc, sound=True)
        okpos = tri(*[eqv(t, ("sub", P, ivar)) for t in theta_terms]) if theta_terms else None
        if okpos is None and kind == "bool" and theta_terms and all(t == ("sub", ("attr", SNAP, "positions"), ivar) for t in theta_terms):
            okpos = False          # index i of the selected-particle loop applied to the unselected position array
        run.ob("R-ALIGN", fq, f"{kind}:position", okpos, "r_i is the position of particle i of the " + ("selected set" if kind == "bool" else "snapshot"),
               ", ".join(show(t)[:50] for t in theta_terms) or "?", witness=None if okpos else "positions of other particles / unselected particles enter the sum", loc=loc, sound=True)
        if kind == "bool":
            run.ob("R-ALG", fq, "bool:weight", True if weight is None else None, "selected particles contribute with weight 1 (partial S_aa)", show(weight)[:60] if weight else "none",
                   witness=None if weight is None else "selected particles are re-weighted", loc=loc)
        else:
            wi = weight
            if wi is not None and wi[0] == "sub" and wi[2] == ("tuple", (("mod", "numpy.newaxis"), FULL)):
                wi = wi[1]
            okw = eqv(wi, ("sub", COND, ivar))
            run.ob("R-ALIGN", fq, f"{kind}:weight", okw, "the quantity multiplying the phase of particle i is A_i", show(weight)[:60] if weight else "none",
                   witness=None if okw else "A of another particle (or no A) multiplies exp(-i q.r_i)", loc=loc, sound=True)
        # ---- FFT column(s) hold F
        if kind != "vector" and "FFT" in st:
            okf = st["FFT"].data["value"] == E
            run.ob("R-ALG", fq, f"{kind}:FFT", True if okf else None, "the FFT column is the normalised Fourier sum whose modulus is S", "", witness=None if okf else "FFT column is another quantity", loc=loc_of(it, st["FFT"]))
        # ---- rounding precedes the |q| average, returned pair
        okret = ret[0] == "tuple" and len(ret[1]) == 2
        if okret:
            full, ave = ret[1]
            okround = full[0] == "call" and full[1] == ".round" and len(full[2]) == 2
            want_ave = ("call", ".reset_index", (("call", ".mean", (("call", ".groupby", (("sub", full, C("Sq")), ("sub", full, C("q"))), ()),), ()),), ())
            okave = ave == want_ave
            okra = True if (okround and okave) else None
            import ast as _ast
            rounding = [n_ for n_ in _ast.walk(fi.node) if (isinstance(n_, _ast.Attribute) and "round" in n_.attr) or (isinstance(n_, _ast.Name) and "round" in n_.id)]
            if not okround and okave and not rounding:
                okra = False       # nothing in the routine rounds: the table is grouped by its raw float |q| column
            wit_av = "equal |q| with float noise are not merged"
            if okra is None:
                # the grouping key: a label that does not involve the box lengths at all (e.g. the integer |n|^2) merges wave
                # vectors of different wavenumber |2 pi n / L| whenever the box edges differ
                gb = [x for x in walk(ave) if x[0] == "call" and x[1] == ".groupby" and len(x[2]) >= 2]
                if len(gb) == 1:
                    keyt = gb[0][2][1]
                    uses_q = any(x in (C("q"),) for x in walk(keyt)) or any(x[0] == "attr" and x[2] in ("boxlength", "hmatrix") for x in walk(keyt))
                    from_n = any(x == ("sym", "qvector") for x in walk(keyt))
                    if from_n and not uses_q:
                        okra = False
                        wit_av = (f"the per-|q| average groups rows by {show(keyt)[:70]}, which does not depend on the box: in a 9 x 11 x 14 box the vectors n = (1,0,0), (0,1,0), (0,0,1) have "
                                  f"three different |q| = 2 pi / L_k but share one label and are averaged into one row")
            run.ob("R-ORDER", fq, f"{kind}:average", okra, "values are rounded, then averaged over equal |q| of the rounded table; (table, average) returned",
                   show(ave)[:90], witness=None if okround and okave else wit_av, loc=fi.loc(), sound=True)
        else:
            run.ob("R-ORDER", fq, f"{kind}:average", None, "(table, average) returned", show(ret)[:80], loc=fi.loc())


def q_components(run, it, fq, kind, Q, rule="R-ALG"):
    """the component columns q0..q{d-1} of the returned table hold the same (scaled) wave vector whose row norm is the q column"""
    fi = it.fi
    comp = [e for e in it.events if e.kind == "assign" and e.data["value"][0] == "call" and e.data["value"][1] == "pandas.DataFrame" and e.data["value"][2]
            and any(x[0] == "fstr" and x[1] and x[1][0] == C("q") for x in walk(kw(e.data["value"], "columns", 1) or NONE))]
    if len(comp) != 1 or Q is None:
        run.ob(rule, fq, f"{kind}:q-components", None, "component columns of the wave vector found", f"{len(comp)} candidate frames", loc=fi.loc())
        return
    X = comp[0].data["value"][2][0]
    ok = True if X == Q else None
    x0 = X[2][0] if X[0] == "call" and X[1] == ".astype" and X[2] else X
    if ok is None and x0 == ("sym", "qvector") and Q != X and any(x[0] == "attr" and x[2] == "boxlength" for x in walk(Q)):
        ok = False      # the raw integer indices next to the norm of the scaled vector
    run.ob(rule, fq, f"{kind}:q-components", ok, "columns q0..q{d-1} hold the wave vector 2 pi n / L whose row norm is the q column (q_k / q is the unit vector)", show(X)[:80],
           witness=None if ok else "columns q_k hold the integer indices n_k while q = |2 pi n / L|: in a 10 x 16 box n = (-3, 2) gives q = (-1.885, 0.785) but (q_0, q_1) = (-3, 2) - "
                                   "another direction unless the box is square / cubic", loc=loc_of(it, comp[0]), sound=True)
