"""C05 - neighbour lists hold exactly the right particles, nearest first, and survive the file.

R-SELECTK  the value written for particle i is decoded into a *selection pipeline* (argpartition / argsort / mask ->
           prefix -> sort by the gathered distances -> drop the first -> +1) and interpreted abstractly: the pipeline must
           denote "ranks 1..N of the distance order" (N nearest) or "all particles with d <= cutoff, ranks 1.." (cutoff).
           numpy's contract for argpartition(kth=k) only fixes the *set* of the first k (or k+1) entries.
R-CMP      cutoff boundary is inclusive; the comparison is between the distance to particle j and the cutoff for (i, j).
R-IDX      per-type cutoff row = centre type - 1, column = neighbour type - 1; ids are 1-based in the file, 0-based after reading;
           rows are placed by particle id.
R-PBC      distances are minimum-image distances of position differences within the frame, with the frame's cell and the mask.
R-PROTO    writers: per frame one header line carrying the token `neighborlist`, then one line per particle `id cn n1..ncn`;
           reader: one header line + nparticle lines per call, four (kind x overflow) row cases decided symbolically,
           trimming to the largest coordination number, integer cast only for neighbour lists.
R-HANDLE   every consumer opens the file once outside its frame loop and reads once per frame from that handle.
"""
from __future__ import annotations

import sympy as sp

from .common import *  # noqa
from .grlib import is_rowwise_norm, pbc_args, pair_difference, REMOVE_PBC
from ..vg import Interp, strip_alloc

MOD = "neighbors.calculate_neighbors"
READER = "PyMatterSim.neighbors.read_neighbors.read_neighbors"
SN = ("sym", "snapshots")
FULL = ("slice", NONE, NONE, NONE)


def run(run: Run, pkg: Package) -> None:
    run.explanation = (
        "The three neighbour routines are read as selection pipelines over the distance array of one centre particle and "
        "interpreted abstractly against numpy's documented contracts; cutoff comparators and per-type cutoff indices are "
        "decided on the value graph; the text the writers emit is reconstructed as line templates and matched with what "
        "read_neighbors consumes; the reader's four row cases and its trimming are decided symbolically in (cn, Nmax); every "
        "read_neighbors call site in the package is checked for the one-handle / one-read-per-frame protocol.")
    check_nnearests(run, pkg)
    check_cutoff(run, pkg, "cutoffneighbors", typed=False)
    check_cutoff(run, pkg, "cutoffneighbors_particletype", typed=True)
    check_reader(run, pkg)
    check_handles(run, pkg)
    run.minimum("R-SELECTK", 7)
    run.minimum("R-PROTO", 30)
    run.minimum("R-HANDLE", 12)
    run.minimum("R-PBC", 9)


# ====================================================================== distance term
def distance_info(run, it, fq, D, frame_loop, part_loop, loc):
    """D must be |remove_pbc(positions - positions[i], frame.hmatrix, ppp)| row-wise, all of one frame."""
    snap = frame_loop.target
    i = part_loop.target
    inner = is_rowwise_norm(D)
    pa = pbc_args(inner) if inner is not None else None
    if pa is None:
        # distances without minimum image: positive witness if it is a plain difference norm
        if inner is not None and pair_difference(inner):
            run.ob("R-PBC", fq, "minimum-image", False, "distances are minimum-image distances", show(D)[:120],
                   witness="two particles at opposite faces of a periodic box are closer through the boundary than directly", loc=loc, sound=True)
        else:
            run.ob("R-PBC", fq, "minimum-image", None, "distance term recognised", show(D)[:120], loc=loc)
        return False
    diff, hm, ppp = pa
    pd = pair_difference(diff)
    ok = None
    if pd is not None:
        # recognised `positions[a] - positions[b]` of one frame: a definite verdict either way
        ok = pd["snap"] == snap and {show(pd["left"]), show(pd["right"])} == {show(FULL), show(i)}
    run.ob("R-PBC", fq, "difference", ok, "distance vector = positions of all particles - position of the centre particle i, same frame",
           show(diff)[:120], witness=None if ok else "difference is not between all particles and particle i of the current frame", loc=loc, sound=True)
    okh = eqv(hm, ("attr", snap, "hmatrix"))
    run.ob("R-PBC", fq, "cell", okh, "minimum image uses the current frame's cell", show(hm)[:70],
           witness=None if okh else "cell of another frame used: wrong images when the box changes between frames", loc=loc, sound=True)
    okm = eqv(ppp, ("sym", "ppp")) if ppp is not None else False     # recognised remove_pbc call without the mask argument
    run.ob("R-PBC", fq, "mask", okm, "the caller's periodicity mask is forwarded", show(ppp)[:50] if ppp else "default mask",
           witness=None if okm else "non-periodic axes are wrapped (default mask used)", loc=loc, sound=True)
    return ok


# ====================================================================== selection pipelines
class Pipe:
    """Abstract value of an index array: which particles it holds and in which order."""
    def __init__(self, kind, **kw):
        self.kind = kind            # 'partition' | 'smallest' | 'mask' | 'ranks'
        self.__dict__.update(kw)


def is_arange(t, n):
    if t[0] == "call" and t[1] == ".astype" and t[2]:
        t = t[2][0]
    return t[0] == "call" and t[1] == "numpy.arange" and len(t[2]) == 1 and (n is None or t[2][0] == n)


def arange_arg(t):
    if t[0] == "call" and t[1] == ".astype" and t[2]:
        t = t[2][0]
    return t[2][0] if (t[0] == "call" and t[1] == "numpy.arange" and len(t[2]) == 1) else None


def decode(t, ops):
    """Peel a selection term into a list of operations, innermost first."""
    if t[0] == "bin" and t[1] == "+" and C(1) in (t[2], t[3]):
        decode(t[3] if t[2] == C(1) else t[2], ops)
        ops.append(("plus1",))
        return
    if t[0] == "sub":
        base, idx = t[1], t[2]
        if idx[0] == "slice":
            decode(base, ops)
            ops.append(("slice", idx[1], idx[2], idx[3]))
            return
        # X[D[X].argsort()]  /  X[np.argsort(D[X])]
        srt = None
        if idx[0] == "call" and idx[1] in (".argsort", "numpy.argsort") and len(idx[2]) == 1 and not [k for k in idx[3] if k[0] not in ("kind",)]:
            srt = idx[2][0]
        if srt is not None and srt[0] == "sub":
            decode(base, ops)
            ops.append(("sortby", srt[1], srt[2], base))
            return
        if srt is not None:
            decode(base, ops)
            ops.append(("sortby-ungathered", srt, None, base))
            return
        if idx[0] == "sub" and idx[1][0] == "call" and idx[1][1] in (".argsort", "numpy.argsort") and idx[2][0] == "slice":
            decode(base, ops)
            ops.append(("sortby-ungathered", idx[1][2][0], None, base))
            return
        # arange(n)[mask]
        if base[0] == "call" and (is_arange(base, None)):
            ops.append(("where", idx, base, t))
            return
        if base[0] == "call" and base[1] in ("numpy.where", "numpy.nonzero") and idx == C(0) and len(base[2]) == 1:
            ops.append(("where", base[2][0], None, t))
            return
    if t[0] == "call" and t[1] == "numpy.flatnonzero" and len(t[2]) == 1:
        ops.append(("where", t[2][0], None, t))
        return
    if t[0] == "call" and t[1] == "numpy.argpartition" and len(t[2]) >= 2:
        ops.append(("argpartition", t[2][0], t[2][1]))
        return
    if t[0] == "call" and t[1] in ("numpy.argsort", ".argsort") and len(t[2]) == 1:
        ops.append(("argsort", t[2][0]))
        return
    raise AnalysisError(f"selection term outside the idiom table: {show(t)[:140]}")


def sym_int(t, table):
    """Affine integer expression in the symbols of `table` (term -> sympy symbol)."""
    def atom_of(x):
        return table.get(x)
    tr = S.Translator(atom_of)
    e = tr.tr(t)
    if tr.atoms:
        raise AnalysisError(f"index expression with unknown parts: {show(t)[:80]}")
    return sp.expand(e)


def run_pipeline(ops, D, table, n_sym):
    """Abstractly execute. Returns (state, problems) ; state: dict(kind, lo, hi, base, set, sorted_by)."""
    st = None
    problems = []
    for op in ops:
        k = op[0]
        if k == "argsort":
            same = eqv(op[1], D)
            if same is not True:
                problems.append(("keys", f"argsort of {show(op[1])[:60]}, not of the distance array", same is False))
            st = dict(kind="ranks", lo=sp.Integer(0), hi=None, set="all", base=0)
        elif k == "argpartition":
            same = eqv(op[1], D)
            if same is not True:
                problems.append(("keys", f"argpartition of {show(op[1])[:60]}, not of the distance array", same is False))
            st = dict(kind="partition", k=sym_int(op[2], table), base=0)
        elif k == "where":
            st = dict(kind="set", set=("mask", op[1]), base=0, index_ordered=True)
        elif k == "slice":
            lo = sp.Integer(0) if op[1] == NONE else sym_int(op[1], table)
            hi = None if op[2] == NONE else sym_int(op[2], table)
            if op[3] != NONE:
                raise AnalysisError("strided slice in a selection")
            if st is None:
                raise AnalysisError("slice before any selection")
            if st["kind"] == "partition":
                if lo != 0 or hi is None:
                    problems.append(("prefix", "argpartition result is not cut to a prefix [:m]", True))
                    st = dict(kind="set", set=("unknown",), base=0)
                    continue
                d = sp.simplify(hi - st["k"])
                if d in (0, 1):
                    if d == 0:
                        # kth == m needs m + 1 elements, but m candidates (the particle itself and m - 1 neighbours) already exist in
                        # the smallest admissible configuration of m particles: numpy raises "kth out of bounds" there
                        problems.append(("pivot-range", f"argpartition(kth={st['k']}) followed by [:{hi}]: kth must be a valid index of every admissible distance array, "
                                                        f"but a configuration of exactly {hi} particles (the particle and its {sp.simplify(hi - 1)} neighbours) has indices 0..{sp.simplify(hi - 1)}; "
                                                        f"kth = {sp.simplify(hi - 1)} selects the same {hi} smallest entries", True))
                    st = dict(kind="set", set=("smallest", hi), base=0)
                else:
                    problems.append(("prefix", f"argpartition(kth={st['k']}) fixes only the set of the first kth (or kth+1) entries; "
                                               f"the prefix [:{hi}] (length - kth = {d}) is not guaranteed to hold the {hi} smallest distances", True))
                    st = dict(kind="set", set=("smallest?", hi), base=0)
            elif st["kind"] == "ranks":
                new_lo = st["lo"] + lo
                new_hi = st["hi"] if hi is None else st["lo"] + hi
                st = dict(st, lo=new_lo, hi=new_hi)
            else:
                # slicing an unordered set: order is index order, not distance order
                problems.append(("order", "a prefix/suffix is taken from a set that is not ordered by distance", True))
                st = dict(kind="ranks", lo=lo, hi=hi, set=st["set"], base=st["base"], unordered=True)
        elif k in ("sortby", "sortby-ungathered"):
            if st is None or st["kind"] not in ("set",):
                if st is not None and st["kind"] == "ranks":
                    # re-sorting an already ordered array: allowed if keys are gathered correctly
                    pass
                else:
                    raise AnalysisError("sort applied to an unrecognised selection")
            if k == "sortby-ungathered":
                # definite only when the keys are literally the whole distance array; any other key term is outside the table
                problems.append(("keys", f"sort keys {show(op[1])[:60]} are not gathered by the candidate set: argsort of the whole distance array "
                                         "indexes all particles, not the candidates", eqv(op[1], D) is True))
            else:
                same = eqv(op[1], D)
                if same is not True:
                    problems.append(("keys", f"sort keys come from {show(op[1])[:60]}, not from the distance array", same is False))
                same = eqv(op[2], op[3])
                if same is not True:
                    problems.append(("keys", "sort keys are gathered by a different index array than the one being reordered", same is False))
            if st["kind"] == "ranks" and not st.get("unordered"):
                continue            # already in distance order: sorting again by the gathered distances changes nothing
            size = None
            if st["kind"] == "set" and st["set"][0] in ("smallest", "smallest?"):
                size = st["set"][1]
            st = dict(kind="ranks", lo=sp.Integer(0), hi=size, set=st.get("set", "all"), base=st["base"])
        elif k == "plus1":
            st = dict(st, base=st["base"] + 1)
    return st, problems


def concrete_selection(term, D, extra_env, expect_fn, trials):
    """Evaluate the extracted term on small distance arrays to obtain a printable witness (never decides a pass)."""
    import numpy as np
    from ..concrete import ev as cev, Unsupported
    try:
        for dist, env in trials:
            e = {D: np.array(dist, dtype=float)}
            e.update(env)
            e.update(extra_env)
            got = list(np.asarray(cev(term, e)).tolist())
            want = expect_fn(dist, env)
            if got != want:
                return f"distances {dist}, {', '.join(f'{show(k)}={v}' for k, v in env.items())}: writes {got}, expected {want}"
    except Exception as ex:  # noqa
        return None
    return None


def vectors_witness(term, snap, i, N, fixed=None, ordered=True):
    """Bind the minimum-image displacement vectors (the remove_pbc call inside the term) of particle 0 to concrete vectors of an
    inhomogeneous frame - a dense cluster far from the centre particle, a few particles around it - and evaluate the extracted
    selection.  Returns a description of the first frame on which the result is not the N nearest in order, else None."""
    import numpy as np
    from ..concrete import ev as cev
    rp = [x for x in walk(term) if x[0] == "call" and x[1] == "PyMatterSim.utils.pbc.remove_pbc"]
    if not rp:
        return None
    R_t = max(rp, key=lambda x: len(show(x)))
    rng = np.random.default_rng(5)
    for dim in (3, 2):
        L = 20.0
        for n, r0 in [(n_, 2.5 * 1.04 ** k_) for n_ in (60, 240) for k_ in range(1, 35)]:
            for nv in ((fixed,) if fixed else (2, 3, 5)):
                # particle 0 in a dilute region: nv - 1 close particles, one particle just beyond distance r0 along the first axis, three
                # particles near the corner of the cube of half-width r0 (farther away, but with every component below r0), the rest
                # of the frame in a dense cluster in the far corner of the box
                near = rng.uniform(-0.3, 0.3, (nv - 1, dim)) * r0
                face = np.zeros((1, dim)); face[0, 0] = 1.03 * r0
                corners = 0.97 * r0 * np.array([[1.0] * dim, [-1.0] * dim, [1.0] + [-1.0] * (dim - 1)])
                cluster = rng.uniform(9.6, 10.0, (n - 1 - (nv - 1) - 1 - 3, dim))
                V = np.vstack([np.zeros((1, dim)), near, face, corners, cluster])
                env = {R_t: V, i: 0, ("attr", snap, "nparticle"): n, ("attr", snap, "hmatrix"): np.eye(dim) * L, ("attr", snap, "boxlength"): np.ones(dim) * L,
                       ("sym", "ppp"): np.ones(dim, dtype=int)}
                if N is not None:
                    env[N] = nv
                for x in walk(term):        # the same quantities read from another frame object (e.g. the first frame)
                    if x[0] == "attr" and x not in env and x[2] in ("nparticle", "hmatrix", "boxlength"):
                        env[x] = {"nparticle": n, "hmatrix": np.eye(dim) * L, "boxlength": np.ones(dim) * L}[x[2]]
                try:
                    got = [int(x) for x in np.asarray(cev(term, env)).ravel().tolist()]
                except Exception as _ex:  # noqa
                    if __import__("os").environ.get("VERIF_DEBUG"):
                        print("vectors_witness: not evaluable:", type(_ex).__name__, str(_ex)[:200])
                    return None
                d = np.linalg.norm(V, axis=1)
                order = [int(j) for j in np.argsort(d, kind="stable")]
                want_d = [round(float(d[j]), 9) for j in order[1:nv + 1]]
                # ids may be written 0- or 1-based: a witness only if the list is wrong under both readings
                wrong = 0
                for base in (0, 1):
                    idx = [g - base for g in got]
                    got_d = [round(float(d[k]), 9) for k in idx] if all(0 <= k < n for k in idx) else None
                    if got_d is not None and not ordered:
                        got_d = sorted(got_d)
                    if len(idx) != nv or got_d != want_d:
                        wrong += 1
                if wrong == 2:
                    return (f"{dim}D frame of {n} particles in a box of length {L}: particle 0 with {nv - 1} close neighbours, one particle at distance {1.03 * r0:.3f} along x, "
                            f"three at distance {0.97 * r0 * dim ** 0.5:.3f} with every component {0.97 * r0:.3f}, a dense cluster elsewhere; N={nv}: the written list is {got}, "
                            f"the {nv} closest other particles are {order[1:nv + 1]} (0-based) at distances {want_d}")
    return None


# ====================================================================== writers
def file_writes(it, handle):
    return [e for e in it.events if e.kind == "call" and e.data["call"][1] == ".write" and e.data["call"][2] and e.data["call"][2][0] == handle]


def segments(t):
    """Text written by one write(): list of ('lit', s) | ('int', term) | ('join', sep, seq) | ('array', term)."""
    if is_const(t) and isinstance(t[1], str):
        return [("lit", t[1])]
    if t[0] == "bin" and t[1] == "+":
        return segments(t[2]) + segments(t[3])
    if t[0] == "bin" and t[1] == "%" and is_const(t[2]) and isinstance(t[2][1], str):
        fmt = t[2][1]
        args = list(t[3][1]) if t[3][0] == "tuple" else [t[3]]
        out = []
        import re
        pos = 0
        k = 0
        for m in re.finditer(r"%[-\d.]*[dsifge]", fmt):
            if m.start() > pos:
                out.append(("lit", fmt[pos:m.start()]))
            if k >= len(args):
                raise AnalysisError("format string has more fields than arguments")
            out.append(("int", args[k]))
            k += 1
            pos = m.end()
        if pos < len(fmt):
            out.append(("lit", fmt[pos:]))
        return out
    if t[0] == "fstr":
        out = []
        for p in t[1]:
            if p[0] == "const":
                out.append(("lit", p[1]))
            elif p[0] == "fmt":
                out.append(("int", p[1]))
            else:
                out.append(("int", p))
        return out
    if t[0] == "call" and t[1] == ".join" and len(t[2]) == 2 and is_const(t[2][0]):
        seq = t[2][1]
        if seq[0] == "call" and seq[1] == "builtins.map" and len(seq[2]) == 2 and seq[2][0] == ("builtin", "str"):
            return [("join", t[2][0][1], seq[2][1])]
        if seq[0] == "comp" and seq[2][0] == "call" and seq[2][1] == "builtins.str" and len(seq[3]) == 1 and seq[2][2] == (seq[3][0][0],):
            return [("join", t[2][0][1], seq[3][0][1])]
        return [("join", t[2][0][1], seq)]
    if t[0] == "call" and t[1] == "re.sub" and len(t[2]) == 3:
        inner = segments(t[2][2])
        return [("resub", t[2][0], t[2][1])] + inner
    if t[0] == "call" and t[1] == "numpy.array2string" and t[2]:
        return [("array", t[2][0])]
    if t[0] == "call" and t[1] == "builtins.str" and len(t[2]) == 1:
        return [("int", t[2][0])]
    raise AnalysisError(f"written text outside the idiom table: {show(t)[:120]}")


def header_verdict(it, writes, frame_loop, first_row_seq):
    """(verdict, text, first write): does the frame loop write exactly one literal line before the rows?  The text is
    reconstructed from every write() to the handle; any other way of emitting text makes a negative verdict undecidable."""
    handle = writes[0].data["call"][2][0] if writes else None
    other = [e for e in it.events if e.kind == "call" and e.data["call"][1] != ".write" and
             (handle in e.data["call"][2] or any(v == handle for _, v in e.data["call"][3])) and
             e.data["call"][1] not in (".close", ".flush")]
    unknown = bool(other)
    parts = []
    for w in writes:
        if w.loops == (frame_loop.id,) and w.seq < first_row_seq:
            try:
                segs = segments(w.data["call"][2][1])
            except AnalysisError:
                unknown = True
                continue
            if all(sg[0] == "lit" for sg in segs):
                parts.append((w, "".join(sg[1] for sg in segs)))
            else:
                unknown = True
    text = "".join(t for _, t in parts)
    nlines = text.count("\n")
    if nlines == 1 and text.endswith("\n") and not unknown:
        ok = True
    elif nlines == 0 and not unknown:
        ok = False
    elif nlines >= 2:
        ok = False
    else:
        ok = None
    return ok, text, (parts[0][0] if parts else None), nlines


def check_header(run, it, fq, writes, frame_loop, first_row_seq, want_token=True):
    """exactly one header line per frame, before the rows, containing the token `neighborlist`."""
    ok, text, w, nlines = header_verdict(it, writes, frame_loop, first_row_seq)
    run.ob("R-PROTO", fq, "header:per-frame", ok, "one header line is written per frame, inside the frame loop, before the particle rows",
           f"{nlines} literal header lines written in the frame loop before the rows", witness=None if ok else
           ("multi-frame file: the reader consumes one header per frame; frames after the first are shifted by one line" if not nlines else
            "two header lines per frame: the reader parses the second as particle 1"), loc=it.fi.loc(frame_loop.node), sound=True)
    if not ok:
        return
    run.ob("R-PROTO", fq, "header:line", True, "the header is exactly one line", repr(text), loc=loc_of(it, w))
    has = "neighborlist" in text.split()
    run.ob("R-PROTO", fq, "header:token", has == want_token, "the header carries the token `neighborlist` (the reader subtracts 1 from ids only then)",
           repr(text), witness=None if has == want_token else "reader treats the ids as weights: no -1 shift, float array returned", loc=loc_of(it, w), sound=True)


def open_handle(it, mode):
    ops = [e for e in it.events if e.kind == "call" and e.data["call"][1] == "builtins.open"]
    ops = [e for e in ops if (kw(e.data["call"], "mode", 1) or C("r")) == C(mode)]
    return ops


def check_nnearests(run, pkg):
    it = interp(pkg, f"{MOD}.Nnearests")
    fi = it.fi
    fq = short(fi.qual)
    N = ("sym", "N")
    opens = open_handle(it, "w")
    if len(opens) != 1:
        raise AnalysisError(f"{fq}: expected one file opened for writing")
    handle = opens[0].data["result"]
    # the store of the neighbour ids
    cands = [e for e in stores(it) if len(e.loops) == 2 and e.data["target"][2][0] == "tuple"]
    if len(cands) != 1:
        raise AnalysisError(f"{fq}: expected one per-particle store of neighbour ids, found {len(cands)}")
    ev = cands[0]
    frame_loop, part_loop = it.loops[ev.loops[0]], it.loops[ev.loops[1]]
    snap, i = frame_loop.target, part_loop.target
    loc = loc_of(it, ev)
    okf = eqv(frame_loop.iter, ("attr", SN, "snapshots"))
    run.ob("R-LOOPDOM", fq, "frames", okf, "every frame is processed in order", show(frame_loop.iter)[:60],
           witness=None if okf else "frames skipped / reordered", loc=fi.loc(frame_loop.node), sound=True)
    okp = eqv(part_loop.iter, ("call", "builtins.range", (("attr", snap, "nparticle"),), ()))
    run.ob("R-LOOPDOM", fq, "particles", okp, "every particle of the frame gets a list", show(part_loop.iter)[:60],
           witness=None if okp else "particles skipped", loc=fi.loc(part_loop.node), sound=True)
    arr = ev.data["target"][1]
    row, col = ev.data["target"][2][1]
    val = ev.data["value"]
    ops = []
    try:
        decode(val, ops)
    except AnalysisError as ex_:
        # a selection outside the idiom table (candidate pre-filters, fall-backs ...): the extracted term is evaluated on concrete
        # inhomogeneous frames with the displacement vectors bound - a list that is not the N closest particles in order of distance
        # is a witness; agreement on all frames decides nothing
        wit = vectors_witness(val, snap, i, N)
        run.ob("R-SELECTK", fq, "nearest:by-evaluation", False if wit else None, "the written list is the N closest other particles in order of increasing minimum-image distance",
               str(ex_)[:120], witness=wit, loc=loc, sound=True)
        return
    # distance array = the operand of the first op
    D = ops[0][1] if ops[0][0] in ("argsort", "argpartition") else None
    if D is None:
        raise AnalysisError(f"{fq}: N-nearest selection does not start from argsort/argpartition")
    distance_info(run, it, fq, D, frame_loop, part_loop, loc)
    Ns = sp.Symbol("N", integer=True, positive=True)
    table = {N: Ns}
    st, problems = run_pipeline(ops, D, table, None)
    import numpy as np

    def expect(dist, env):
        order = sorted(range(len(dist)), key=lambda j: dist[j])
        return [j + 1 for j in order[1:env[N] + 1]]
    trials = []
    for dist in ([0.0, 3.0, 1.0, 2.0, 5.0, 4.0], [2.5, 0.0, 1.5, 0.5, 3.5, 4.5, 1.0], [4.0, 3.0, 2.0, 1.0, 0.0, 5.0, 6.0, 7.0],
                 [0.9, 0.8, 0.7, 0.6, 0.5, 0.4, 0.3, 0.2, 0.0, 0.1]):
        for nv in (1, 2, 3):
            trials.append((dist, {N: nv}))
    conc = concrete_selection(val, D, {}, expect, trials)
    for kind, msg, definite in problems:
        run.ob("R-SELECTK", fq, f"nearest:{kind}", False if definite else None, "the candidate set is the N+1 smallest distances and is ordered by those distances",
               msg, witness=conc or msg, loc=loc, sound=True)
    if not problems:
        run.ob("R-SELECTK", fq, "nearest:pipeline", True, "selection = argpartition/argsort of the distances -> prefix -> sort by gathered distances",
               " -> ".join(o[0] for o in ops), loc=loc)
    # ranks kept must be [1, N+1)
    if st["kind"] != "ranks" or st.get("unordered"):
        run.ob("R-SELECTK", fq, "nearest:ordered", False, "neighbours are written in order of increasing distance", " -> ".join(o[0] for o in ops),
               witness=conc or "argpartition leaves the prefix unordered: file order is not distance order", loc=loc, sound=True)
    else:
        lo, hi = st["lo"], st["hi"]
        ok_lo = sp.simplify(lo - 1) == 0
        run.ob("R-SELECTK", fq, "nearest:drop-self", ok_lo, "exactly the closest entry (the particle itself, distance 0) is dropped",
               f"ranks kept start at {lo}", witness=None if ok_lo else (conc or (f"rank {lo} is the first kept: " + ("the particle itself is listed as its own neighbour" if lo == 0 else "the nearest neighbour is lost"))), loc=loc, sound=True)
        ok_hi = hi is not None and sp.simplify(hi - (Ns + 1)) == 0
        run.ob("R-SELECTK", fq, "nearest:count", ok_hi, "ranks 1..N are kept (N neighbours)", f"ranks [{lo}, {hi})",
               witness=None if ok_hi else (conc or f"ranks [{lo}, {hi}) kept instead of [1, N+1)"), loc=loc, sound=True)
    okb = st["base"] == 1
    run.ob("R-IDX", fq, "nearest:one-based", okb, "ids written to the file are 1-based (index + 1)", f"offset +{st['base']}",
           witness=None if okb else (conc or "reader subtracts 1: every neighbour index is shifted"), loc=loc, sound=True)
    # placement: row i, columns 2: ; id column, cn column
    okr = tri(eqv(row, i), eqv(col, ("slice", C(2), NONE, NONE)))
    run.ob("R-IDX", fq, "nearest:row", okr, "the list of particle i is stored in row i, columns 2..", show(ev.data["target"][2])[:50],
           witness=None if okr else "neighbours stored in another row / overlapping the id or cn column", loc=loc, sound=True)
    sh = arr[2][0] if arr[0] == "call" and arr[1] == "numpy.zeros" and arr[2] else None
    oksh = tri_lazy(lambda: (True if (sh is not None) else None), lambda: (True if (sh[0] == "tuple") else None), lambda: eqv(sh[1][0], ("attr", snap, "nparticle")), lambda: (True if (sym_int(sh[1][1], table) == Ns + 2) else None))
    run.ob("R-PROTO", fq, "nearest:width", bool(oksh), "a row has 2 + N entries: id, cn, N neighbours", show(sh)[:60] if sh else "?",
           witness=None if oksh else "row width differs from 2 + N", loc=loc, sound=True)
    st_id = [e for e in stores(it) if e.data["target"][1] == arr and e.data["target"][2] == ("tuple", (FULL, C(0)))]
    ok_id = tri_lazy(lambda: (True if (len(st_id) == 1) else None), lambda: eqv(st_id[0].data["value"], ("bin", "+", ("call", "numpy.arange", (("attr", snap, "nparticle"),), ()), C(1))))
    run.ob("R-IDX", fq, "nearest:id-column", ok_id, "column 0 holds the 1-based particle id of the row", key_of(st_id[0]) if st_id else "no store",
           witness=None if ok_id else "row k is labelled with another id: the reader places it in the wrong row", loc=loc, sound=True)
    st_cn = [e for e in stores(it) if e.data["target"][1] == arr and e.data["target"][2] == ("tuple", (FULL, C(1)))]
    ok_cn = eqv(st_cn[0].data["value"], N) if len(st_cn) == 1 else None
    run.ob("R-PROTO", fq, "nearest:cn-column", ok_cn, "column 1 holds the coordination number N", key_of(st_cn[0]) if st_cn else "no store",
           witness=None if ok_cn else "cn field differs from the number of ids that follow", loc=loc, sound=True)
    # text
    writes = file_writes(it, handle)
    arrw = []
    for w in writes:
        try:
            segs = segments(w.data["call"][2][1])
        except AnalysisError:
            segs = []
        if any(s[0] == "array" for s in segs):
            arrw.append((w, segs))
    if len(arrw) != 1:
        raise AnalysisError(f"{fq}: expected one write of the neighbour array")
    w, segs = arrw[0]
    lx = [e for e in it.events if e.kind == "loop_exit" and e.data["loop"] == part_loop.id]
    ok_after = w.loops == (frame_loop.id,) and lx and w.seq > lx[0].seq
    a_t = [s for s in segs if s[0] == "array"][0][1]
    run.ob("R-PROTO", fq, "nearest:array-write", bool(ok_after) and a_t == arr, "the filled array of the frame is written once per frame after the particle loop",
           f"array {show(a_t)[:50]} written in loops {w.loops}", witness=None if ok_after and a_t == arr else "array written before it is filled / another array written",
           loc=loc_of(it, w))
    tail = [s for s in segs if s[0] == "lit"]
    ok_nl = bool(tail) and segs[-1][0] == "lit" and segs[-1][1] == "\n"
    run.ob("R-PROTO", fq, "nearest:newline", ok_nl, "the array text is newline-terminated (next frame's header starts a new line)", str([s[0] for s in segs]),
           witness=None if ok_nl else "the next header is glued to the last row: the reader loses a line in multi-frame files", loc=loc_of(it, w))
    rs = [s for s in segs if s[0] == "resub"]
    ok_rs = tri_lazy(lambda: (True if (len(rs) == 1) else None), lambda: eqv(rs[0][1], C(r"[\[\]]")), lambda: eqv(rs[0][2], C(" ")))
    run.ob("R-PROTO", fq, "nearest:brackets", ok_rs, "the brackets of the array rendering are blanked so every row is `id cn ids...`", show(rs[0][1]) if rs else "no substitution",
           witness=None if ok_rs else "rows begin with '[': int('[1') fails / tokens shift", loc=loc_of(it, w), sound=True)
    po = [e for e in it.events if e.kind == "call" and e.data["call"][1] == "numpy.set_printoptions" and e.seq < w.seq]
    okpo = tri_lazy(lambda: (True if (bool(po)) else None), lambda: eqv(kw(po[-1].data["call"], "threshold"), ("mod", "numpy.inf")), lambda: eqv(kw(po[-1].data["call"], "linewidth"), ("mod", "numpy.inf")))
    run.ob("R-PROTO", fq, "nearest:printoptions", okpo, "array2string is preceded by set_printoptions(threshold=inf, linewidth=inf): one full row per line",
           show(po[-1].data["call"])[:80] if po else "not set", witness=None if okpo else
           "more than 1000 entries are summarised with '...', rows longer than 75 characters are wrapped: lines no longer map to particles", loc=loc_of(it, w), sound=True)
    check_header(run, it, fq, writes, frame_loop, w.seq)
    check_writer_handle(run, it, fq, opens[0], frame_loop)


def check_writer_handle(run, it, fq, open_ev, frame_loop):
    ok = not open_ev.loops            # loop membership of the recognised open(.., 'w') call: definite
    closes = [e for e in it.events if e.kind == "call" and e.data["call"][1] == ".close" and e.data["call"][2] and e.data["call"][2][0] == open_ev.data["result"]]
    okc = True if ((len(closes) == 1 and not closes[0].loops) or any(e.kind == "with" and e.data["value"] == open_ev.data["result"] for e in it.events)) else \
        (False if any(set(c.loops) - set(open_ev.loops) for c in closes) else None)
    run.ob("R-HANDLE", fq, "writer:open", ok, "the output file is opened once, before the frame loop", f"open in loops {open_ev.loops}",
           witness=None if ok else "re-opened per frame in 'w' mode: only the last frame survives", loc=loc_of(it, open_ev), sound=True)
    run.ob("R-HANDLE", fq, "writer:close", okc, "the output file is closed after the frame loop", f"{len(closes)} close calls",
           witness=None if okc else "file closed inside the frame loop: writing the next frame fails", loc=loc_of(it, open_ev), sound=True)


def check_cutoff(run, pkg, name, typed):
    it = interp(pkg, f"{MOD}.{name}")
    fi = it.fi
    fq = short(fi.qual)
    opens = open_handle(it, "w")
    if len(opens) != 1:
        raise AnalysisError(f"{fq}: expected one file opened for writing")
    handle = opens[0].data["result"]
    writes = file_writes(it, handle)
    rows = [w for w in writes if len(w.loops) == 2]
    if not rows:
        raise AnalysisError(f"{fq}: no per-particle writes found")
    frame_loop, part_loop = it.loops[rows[0].loops[0]], it.loops[rows[0].loops[1]]
    snap, i = frame_loop.target, part_loop.target
    okf = eqv(frame_loop.iter, ("attr", SN, "snapshots"))
    run.ob("R-LOOPDOM", fq, "frames", okf, "every frame is processed in order", show(frame_loop.iter)[:60],
           witness=None if okf else "frames skipped / reordered", loc=fi.loc(frame_loop.node), sound=True)
    okp = eqv(part_loop.iter, ("call", "builtins.range", (("attr", snap, "nparticle"),), ()))
    run.ob("R-LOOPDOM", fq, "particles", okp, "every particle of the frame gets a line", show(part_loop.iter)[:60],
           witness=None if okp else "particles skipped", loc=fi.loc(part_loop.node), sound=True)
    # line template
    segs = []
    for w in rows:
        if w.loops != rows[0].loops:
            raise AnalysisError(f"{fq}: row writes in different loops")
        segs += segments(w.data["call"][2][1])
    loc = loc_of(it, rows[0])
    # every value on the way to the written ids is held in double precision: a cutoff or a distance stored in a narrower float
    # type is a different number (1.9 -> 1.89999998), so the boundary d = r_c moves
    narrow = sorted({c for w in rows for c in narrowing_casts(w.data["call"])} | {c for e in it.events if e.kind in ("store", "assign", "aug") for c in narrowing_casts(e.data.get("value", NONE))})
    run.ob("R-CMP", fq, "precision", not narrow, "distances and cutoffs are compared in double precision (no narrowing cast on the way to the inclusive test d <= r_c)",
           "; ".join(narrow)[:200] if narrow else "no float32 / float16 construct", witness=None if not narrow else
           f"{narrow[0]}: a cutoff of 1.9 becomes 1.89999998 - a pair at distance exactly 1.9 is dropped although the boundary is inclusive (and 1.6 becomes 1.60000002: pairs up to 2e-8 beyond it are listed)",
           loc=loc, sound=True)
    kinds = [s[0] for s in segs]
    ints = [s for s in segs if s[0] == "int"]
    joins = [s for s in segs if s[0] == "join"]
    lits = "".join(s[1] for s in segs if s[0] == "lit")
    ok_shape = len(ints) == 2 and len(joins) == 1 and kinds.index("join") > max(k for k, s in enumerate(segs) if s[0] == "int") \
        and segs[-1] == ("lit", "\n") and lits.count("\n") == 1 and joins[0][1].strip() == "" and joins[0][1] != ""
    sep_ok = ok_shape and all(s[1].strip() == "" and s[1] != "" for k, s in enumerate(segs[:-1]) if s[0] == "lit") and \
        all(segs[k + 1][0] == "lit" for k, s in enumerate(segs[:-1]) if s[0] == "int")
    run.ob("R-PROTO", fq, "row:template", bool(ok_shape and sep_ok), "each particle line is `id cn n1 ... ncn\\n` with blank separators",
           " ".join(f"<{s[0]}>" if s[0] != "lit" else repr(s[1]) for s in segs), witness=None if ok_shape and sep_ok else
           "reader splits on blanks and expects id, cn, then the ids on one line", loc=loc)
    if not ok_shape:
        return
    id_t, cn_t = ints[0][1], ints[1][1]
    okid = eqv(id_t, ("bin", "+", i, C(1)), ("bin", "+", C(1), i))
    run.ob("R-IDX", fq, "row:id", okid, "the first field is the 1-based id of the centre particle (i + 1)", show(id_t),
           witness=None if okid else "reader computes row = id - 1: lines land in the wrong rows (row -1 for i = 0)", loc=loc, sound=True)
    lst = joins[0][2]
    ops = []
    decode(lst, ops)
    if ops[0][0] != "where":
        # another selection form (e.g. sort everything, then cut the sorted distances): the extracted list term is evaluated on
        # small distance arrays that contain a particle at exactly the cutoff; a differing line is a definite violation
        okp, det, wit = None, " -> ".join(o[0] for o in ops), None
        if not typed:
            try:
                import numpy as np
                from ..concrete import ev as cev
                Ds = [x for x in walk(lst) if is_rowwise_norm(x) is not None]
                D_ = max(Ds, key=lambda x: len(show(x))) if Ds else None
                RC_ = ("sym", "r_cut")
                if D_ is not None:
                    for dist in ([0.0, 3.0, 1.0, 2.0, 5.0, 4.0], [2.5, 0.0, 1.5, 0.5, 3.5, 1.0], [4.0, 3.0, 2.0, 1.0, 0.0], [0.0, 1.0, 1.0, 1.0, 2.0]):
                        for c in (1.0, 2.0, 3.5, 0.2):
                            sel = [j for j in range(len(dist)) if dist[j] <= c]
                            sel.sort(key=lambda j: dist[j])
                            want_ = sorted(j + 1 for j in sel[1:])
                            got = sorted(np.asarray(cev(lst, {D_: np.array(dist), RC_: c, ("attr", snap, "nparticle"): len(dist)})).tolist())
                            if got != want_:
                                okp = False
                                wit = (f"distances from particle i {dist}, r_cut = {c}: the line lists ids {got}, the particles with d <= r_cut are {want_}"
                                       + (" - a particle at exactly the cutoff is dropped (boundary must be inclusive)" if c in dist and len(got) < len(want_) else ""))
                                break
                        if okp is False:
                            break
                    det += " ; evaluated on 16 small distance arrays" + ("" if okp is False else " - no difference found (not a proof)")
            except Exception as e_:  # noqa
                det += f" ; not evaluable: {type(e_).__name__}"
        run.ob("R-SELECTK", fq, "cutoff:pipeline", okp, "the listed particles are exactly those with d <= r_cut (boundary inclusive), the particle itself excluded", det, witness=wit, loc=loc, sound=True)
        return
    mask, rng = ops[0][1], ops[0][2]
    # mask: D <= rc  (normalised)
    cmpn = normalise_cmp(mask)
    if cmpn is None:
        run.ob("R-CMP", fq, "cutoff:comparator", None, "cutoff test recognised", show(mask)[:100], loc=loc)
        return
    D, rc, op = cmpn
    if rng is not None:
        okr = eqv(arange_arg(rng), ("attr", snap, "nparticle"))
        run.ob("R-IDX", fq, "cutoff:index-base", okr, "the mask selects from the 0-based indices of all particles of the frame", show(rng)[:60],
               witness=None if okr else "candidate indices are not 0..nparticle-1", loc=loc, sound=True)
    distance_info(run, it, fq, D, frame_loop, part_loop, loc)
    okc = op == "<="        # the comparator of the recognised `distance op cutoff` mask: a definite verdict
    run.ob("R-CMP", fq, "cutoff:inclusive", okc, "a particle at exactly the cutoff distance is a neighbour (d <= r_c)", f"d {op} cutoff",
           witness=None if okc else ("d = r_c exactly: excluded, the property requires it" if op == "<" else f"comparator {op} selects the particles outside the cutoff"), loc=loc, sound=True)
    if not typed:
        okrc = eqv(rc, ("sym", "r_cut"))
        run.ob("R-CMP", fq, "cutoff:value", okrc, "the distance is compared with the caller's r_cut", show(rc)[:60],
               witness=None if okrc else "another cutoff is applied", loc=loc, sound=True)
    else:
        check_type_cutoffs(run, it, fq, rc, snap, i, loc)
    st, problems = run_pipeline(ops, D, {}, None)
    import numpy as np
    RC = ("sym", "<rc>")

    def expect(dist, env):
        sel = [j for j in range(len(dist)) if dist[j] <= env[RC]]
        sel.sort(key=lambda j: dist[j])
        return [j + 1 for j in sel[1:]]
    lst_c = subst(lst, lambda x: RC if x == rc else None)
    trials = [(d, {RC: c}) for d in ([0.0, 3.0, 1.0, 2.0, 5.0, 4.0], [2.5, 0.0, 1.5, 0.5, 3.5, 1.0], [4.0, 3.0, 2.0, 1.0, 0.0]) for c in (1.0, 2.0, 3.5, 0.2)]
    conc = concrete_selection(lst_c, D, {("attr", snap, "nparticle"): None}, expect, []) if False else None
    try:
        from ..concrete import ev as cev
        for dist, env in trials:
            e = {D: np.array(dist), RC: env[RC], ("attr", snap, "nparticle"): len(dist)}
            got = list(np.asarray(cev(lst_c, e)).tolist())
            if got != expect(dist, env):
                conc = f"distances from particle i {dist}, cutoff {env[RC]}: line lists {got}, expected {expect(dist, env)}"
                break
    except Exception:  # noqa
        conc = None
    for kind, msg, definite in problems:
        run.ob("R-SELECTK", fq, f"cutoff:{kind}", False if definite else None, "the selected particles are ordered by their own distances", msg, witness=conc or msg, loc=loc, sound=True)
    if not problems:
        run.ob("R-SELECTK", fq, "cutoff:pipeline", True, "selection = mask -> sort by gathered distances -> drop first -> +1", " -> ".join(o[0] for o in ops), loc=loc)
    if st["kind"] != "ranks" or st.get("unordered"):
        run.ob("R-SELECTK", fq, "cutoff:ordered", False, "neighbours are written in order of increasing distance", " -> ".join(o[0] for o in ops),
               witness=conc or "the mask yields index order, not distance order (and index order does not put the particle itself first)", loc=loc, sound=True)
    else:
        ok_lo = st["lo"] == 1 and st["hi"] is None
        run.ob("R-SELECTK", fq, "cutoff:drop-self", ok_lo, "exactly the closest selected entry (the particle itself) is dropped, all others kept",
               f"ranks [{st['lo']}, {st['hi'] if st['hi'] is not None else 'end'})", witness=None if ok_lo else
               (conc or ("the particle is listed as its own neighbour" if st["lo"] == 0 else "selected particles are lost")), loc=loc, sound=True)
    okb = st["base"] == 1
    run.ob("R-IDX", fq, "cutoff:one-based", okb, "ids written to the file are 1-based (index + 1)", f"offset +{st['base']}",
           witness=None if okb else (conc or "reader subtracts 1: every neighbour index is shifted"), loc=loc, sound=True)
    # cn = size of the selected set - 1
    sel_term = ops[0][3]
    want = [("bin", "-", ("sub", ("attr", sel_term, "shape"), C(0)), C(1)), ("bin", "-", ("call", "builtins.len", (sel_term,), ()), C(1)),
            ("bin", "-", ("attr", sel_term, "size"), C(1)),
            ("sub", ("attr", lst, "shape"), C(0)), ("call", "builtins.len", (lst,), ()), ("attr", lst, "size")] if sel_term else []
    from ..vg import subst as _subst

    def _noint(t):
        # int(...) / builtins.int around a count keeps its value
        prev = None
        while prev != t:
            prev, t = t, _subst(t, lambda x: x[2][0] if (x[0] == "call" and x[1] == "builtins.int" and len(x[2]) == 1 and not x[3]) else None)
        return t
    cn_in = _noint(cn_t)
    okcn = None
    if sel_term is not None:
        # ... or sum of the mask - 1
        forms = list(want) + [("bin", "-", ("call", ".sum", (mask,), ()), C(1)), ("bin", "-", ("call", "numpy.count_nonzero", (mask,), ()), C(1))]
        okcn = True if any(eqv(cn_in, f) is True for f in forms) else None
        if okcn is None:
            # definitely another count: the size of the selection with no / another correction for the particle itself
            sizes = [("sub", ("attr", sel_term, "shape"), C(0)), ("call", "builtins.len", (sel_term,), ()), ("attr", sel_term, "size"),
                     ("call", ".sum", (mask,), ()), ("call", "numpy.count_nonzero", (mask,), ())]
            if any(eqv(cn_in, z) is True for z in sizes) or any(eqv(cn_in, ("bin", "-", z, C(2))) is True or eqv(cn_in, ("bin", "+", z, C(1))) is True for z in sizes):
                okcn = False
    run.ob("R-PROTO", fq, "row:cn", okcn, "the cn field equals the number of ids on the line (selected particles minus the particle itself)", show(cn_t)[:80],
           witness=None if okcn else "cn differs from the number of ids that follow: the reader slices item[2:cn+2] and mis-sizes the row", loc=loc, sound=True)
    first_row = min(w.seq for w in rows)
    check_header(run, it, fq, writes, frame_loop, first_row)
    check_writer_handle(run, it, fq, opens[0], frame_loop)


def mask_selection_term(lst):
    """the `arange(n)[mask]` sub-term of a selection."""
    for x in walk(lst):
        if x[0] == "sub" and x[1][0] == "call" and is_arange(x[1], None) and x[2][0] in ("cmp", "bin", "un", "call"):
            return x
    return None


def normalise_cmp(mask):
    """(D, cutoff, op) with op applied as  D op cutoff."""
    flip = {"<=": ">=", ">=": "<=", "<": ">", ">": "<"}
    neg = {"<=": ">", ">=": "<", "<": ">=", ">": "<="}
    if mask[0] == "un" and mask[1] in ("~", "not"):
        r = normalise_cmp(mask[2])
        return None if r is None else (r[0], r[1], neg[r[2]])
    if mask[0] != "cmp" or mask[1] not in flip:
        return None
    op, a, b = mask[1], mask[2], mask[3]

    def has_norm(t):
        return any(is_rowwise_norm(x) is not None for x in walk(t))
    if has_norm(b) and not has_norm(a):
        a, b, op = b, a, flip[op]
    if not has_norm(a):
        return None
    # (D - c) op 0
    if a[0] == "bin" and a[1] == "-" and b in (C(0), C(0.0)) and is_rowwise_norm(a[2]) is not None:
        return a[2], a[3], op
    if is_rowwise_norm(a) is not None:
        return a, b, op
    return None


def check_type_cutoffs(run, it, fq, rc, snap, i, loc):
    """rc must be the row `centre type - 1` of a table whose [a, j] entry is r_cut[a, type_j - 1]."""
    ptype_cur = ("attr", snap, "particle_type")
    ptype0 = ("attr", ("sub", ("attr", SN, "snapshots"), C(0)), "particle_type")
    # whatever the layout of intermediate tables: the vector compared with the distances from particle i must be
    # [r_cut[type_i - 1, type_j - 1] for j] - evaluated on a 3 x 3 table of distinct exact symbols and five typed particles
    if not (rc[0] == "sub" and [e for e in stores(it) if e.data["target"][1] == rc[1]]):
        try:
            import numpy as np
            from ..concrete import ev as cev, symbolic_array
            from ..vg import strip_alloc
            R = symbolic_array((3, 3), "rc", complex_=False)
            types = np.array([1, 2, 2, 3, 1])
            bad = None
            for iv in range(5):
                env = {("sym", "r_cut"): R, ptype0: types, ptype_cur: types, ("sym", "nparticle_type"): 3, i: iv,
                       ("attr", ("sub", ("attr", SN, "snapshots"), C(0)), "nparticle"): 5, ("attr", snap, "nparticle"): 5}
                got = np.asarray(cev(strip_alloc(rc), env), dtype=object).ravel()
                want = [R[types[iv] - 1, types[j] - 1] for j in range(5)]
                if got.shape[0] != 5:
                    raise ValueError("shape")
                for j in range(5):
                    if got[j] != want[j]:
                        bad = (f"types {types.tolist()}: the distance from particle {iv} (type {types[iv]}) to particle {j} (type {types[j]}) is compared with r_cut[{str(got[j])[3:]}] "
                               f"instead of r_cut[{types[iv] - 1}{types[j] - 1}] - wrong for every non-symmetric cutoff table")
                        break
                if bad:
                    break
            run.ob("R-IDX", fq, "typed:pair-cutoff", bad is None, "the cutoff compared with d_ij is r_cut[type_i - 1, type_j - 1] (centre type selects the row, neighbour type the column); "
                   "decided exactly on a symbolic 3 x 3 table and five typed particles", show(rc)[:90], witness=bad, loc=loc, sound=True)
            return
        except Exception:  # noqa
            pass
    ok_row = tri_lazy(lambda: (True if (rc[0] == "sub") else None), lambda: eqv(rc[2], ("bin", "-", ("sub", ptype_cur, i), C(1)), ("bin", "-", ("sub", ptype0, i), C(1))))
    run.ob("R-IDX", fq, "typed:row", ok_row, "the cutoff row is selected by the centre particle's type - 1", show(rc[2])[:70] if rc[0] == "sub" else show(rc)[:70],
           witness=None if ok_row else "types are 1-based, table rows 0-based: type K indexes past the table / type 1 uses row of type 2", loc=loc, sound=True)
    if rc[0] != "sub":
        return
    table = rc[1]
    fills = [e for e in stores(it) if e.data["target"][1] == table]
    if len(fills) != 1:
        # direct form r_cut[type_i - 1][type - 1]
        alt = ("sub", ("sub", ("sym", "r_cut"), rc[2]), ("bin", "-", ptype_cur, C(1)))
        # whole-array form (e.g. fancy indexing of r_cut by the type ids): evaluated on a 3 x 3 table of distinct exact symbols
        # and five particles of types (1, 2, 2, 3, 1); entry [a, j] must be the symbol r_cut[a, type_j - 1]
        okt, det, wit = None, f"{len(fills)} stores into {show(table)[:50]}", None
        if not fills:
            try:
                import numpy as np
                from ..concrete import ev as cev, symbolic_array
                from ..vg import strip_alloc
                R = symbolic_array((3, 3), "rc", complex_=False)
                types = np.array([1, 2, 2, 3, 1])
                env = {("sym", "r_cut"): R, ptype0: types, ptype_cur: types, ("sym", "nparticle_type"): 3,
                       ("attr", ("sub", ("attr", SN, "snapshots"), C(0)), "nparticle"): 5}
                got = np.asarray(cev(strip_alloc(table), env), dtype=object)
                det = f"whole-array form {show(strip_alloc(table))[:90]}"
                if got.shape != (3, 5):
                    okt, wit = False, f"3 types, 5 particles: table has shape {got.shape}, rows must be centre types and columns particles"
                else:
                    bad = [(a, j) for a in range(3) for j in range(5) if got[a, j] != R[a, types[j] - 1]]
                    okt = not bad
                    if bad:
                        a, j = bad[0]
                        wit = (f"types {types.tolist()}: entry [centre type {a + 1}, particle {j} of type {types[j]}] is r_cut[{str(got[a, j])[3:]}] instead of r_cut[{a}{types[j] - 1}] "
                               f"- wrong cutoff for every pair whose two cutoffs differ (non-symmetric table)")
            except Exception as e:  # noqa
                det = f"whole-array form not evaluable: {type(e).__name__}: {str(e)[:80]}"
        run.ob("R-IDX", fq, "typed:table", okt, "cutoffs[a, j] = r_cut[a, type_j - 1] for every type row a and particle j (whole-array form decided exactly on a symbolic 3 x 3 table)", det,
               witness=wit, loc=loc, sound=True)
        return
    f = fills[0]
    tgt = f.data["target"][2]
    val = f.data["value"]
    loops = [it.loops[l] for l in f.loops]
    ok = None
    detail = key_of(f)
    if tgt[0] == "tuple" and len(tgt[1]) == 2 and len(loops) == 2:
        a, j = tgt[1]
        La = [L for L in loops if L.target == a]
        Lj = [L for L in loops if L.target == j]
        if La and Lj:
            shp = table[2][0] if table[0] == "call" and table[1] == "numpy.zeros" and table[2] else None
            dom_a = eqv(La[0].iter, ("call", "builtins.range", (("sub", ("attr", table, "shape"), C(0)),), ()))
            dom_j = eqv(Lj[0].iter, ("call", "builtins.range", (("sub", ("attr", table, "shape"), C(1)),), ()))
            n0 = ("attr", ("sub", ("attr", SN, "snapshots"), C(0)), "nparticle")
            shape_ok = eqv(shp[1][1], n0) if (shp is not None and shp[0] == "tuple" and len(shp[1]) == 2) else None
            want = ("sub", ("sym", "r_cut"), ("tuple", (a, ("bin", "-", ("sub", ptype0, j), C(1)))))
            want2 = ("sub", ("sub", ("sym", "r_cut"), a), ("bin", "-", ("sub", ptype0, j), C(1)))
            okv = eqv(val, want)
            if okv is None and eqv(val, want2) is True:
                okv = True
            ok = tri(dom_a, dom_j, shape_ok, okv)
            if not (dom_a and dom_j and shape_ok):
                detail += " ; table not filled for all (type, particle) entries"
    run.ob("R-IDX", fq, "typed:table", ok, "cutoffs[a, j] = r_cut[a, type_j - 1] for every type row a and particle j", detail,
           witness=None if ok else "binary mixture with r_cut = [[AA, AB], [BA, BB]], AB != BA or unequal diagonal: the pair (i, j) is tested against the wrong cutoff",
           loc=loc_of(it, f), sound=True)


# ====================================================================== reader
def _strip_nonline(t):
    def fn(x):
        if x[0] == "call" and x[1] != ".readline" and any(k == "@" for k, _ in x[3]):
            return ("call", x[1], x[2], tuple((k, v) for k, v in x[3] if k != "@"))
        return None
    return subst(t, fn)


def case_subs(rel, trim):
    """Parametrisation of the case: rel = cn ? Nmax in {lt, eq, gt}; trim = max_cn ? Nmax in {lt, eq}."""
    cnS, MS, mxS = sp.Symbol("cn", integer=True, nonnegative=True), sp.Symbol("M", integer=True, nonnegative=True), \
        sp.Symbol("mx", integer=True, nonnegative=True)
    k = kS_()

    def sub(e):
        syms = e.free_symbols
        if cnS in syms or (MS in syms and mxS not in syms):
            e = {"lt": lambda: e.subs(MS, cnS + 1 + k), "eq": lambda: e.subs(MS, cnS), "gt": lambda: e.subs(cnS, MS + 1 + k)}[rel]()
        elif mxS in syms:
            e = {"lt": lambda: e.subs(MS, mxS + 1 + k), "eq": lambda: e.subs(MS, mxS)}[trim]()
        return sp.expand(e)
    return sub


def reader_interp(pkg, nl, rel, trim):
    """Interpret read_neighbors under: header has `neighborlist` (nl), cn <,=,> Nmax (rel), max_cn <,= Nmax (trim)."""
    fi = pkg.func("neighbors.read_neighbors.read_neighbors")
    sub = case_subs(rel, trim)

    def assume(c):
        c = _strip_nonline(c)
        if c[0] == "cmp" and c[1] in ("in", "not in") and c[2] == C("neighborlist"):
            return nl if c[1] == "in" else (not nl)
        if c[0] == "cmp" and c[1] in ("<", "<=", ">", ">=", "==", "!="):
            try:
                raw = reader_sym(c[2], {}) - reader_sym(c[3], {})
            except Exception:  # noqa
                return None
            if not ({"cn", "M", "mx"} & {x.name for x in raw.free_symbols}) or "id" in {x.name for x in raw.free_symbols}:
                return None
            d = sub(raw)
            sign = None
            if d.is_zero:
                sign = 0
            elif d.is_positive:
                sign = 1
            elif d.is_negative:
                sign = -1
            table = {"<": {0: False, 1: False, -1: True}, "<=": {0: True, 1: False, -1: True}, ">": {0: False, 1: True, -1: False},
                     ">=": {0: True, 1: True, -1: False}, "==": {0: True, 1: False, -1: False}, "!=": {0: False, 1: True, -1: True}}
            return table[c[1]].get(sign)
        return None
    return Interp(pkg, fi, assume=assume, track_alloc=True)


def reader_sym(t, info):
    """sympy form of an index expression of the reader: int(item[1]) -> cn, Nmax -> M, int(arr[:,0].max()) -> mx, int(item[0]) -> id."""
    cnS, MS, mxS, idS = sp.Symbol("cn", integer=True, nonnegative=True), sp.Symbol("M", integer=True, nonnegative=True), \
        sp.Symbol("mx", integer=True, nonnegative=True), sp.Symbol("id", integer=True, positive=True)

    def atom_of(x):
        x = _strip_nonline(x)
        if x == ("sym", "Nmax"):
            return MS
        if x[0] == "call" and x[1] in ("builtins.int", "builtins.float") and len(x[2]) == 1:
            a = x[2][0]
            if a[0] == "sub" and is_const(a[2]) and a[1][0] == "call" and a[1][1] == ".split":
                return {0: idS, 1: cnS}.get(a[2][1])
            if a[0] == "call" and a[1] in (".max", "numpy.max") and a[2] and a[2][0][0] == "sub" and a[2][0][2] == ("tuple", (FULL, C(0))):
                return mxS
            if x[1] == "builtins.int":
                inner = atom_of(a)
                if inner is not None:
                    return inner
        return None
    tr = S.Translator(atom_of)
    tr.ufuncs = False
    e = tr.tr(t)
    if tr.atoms:
        raise AnalysisError(f"reader index expression with unknown parts: {show(t)[:80]} ({sorted(tr.atoms)[:2]})")
    return e


def check_reader(run, pkg):
    fq = "neighbors.read_neighbors.read_neighbors"
    first = True
    for nl in (True, False):
        for rel in ("lt", "eq", "gt"):
            it = reader_interp(pkg, nl, rel, "lt")
            case = f"{'list' if nl else 'weights'}/cn{ {'lt': '<', 'eq': '=', 'gt': '>'}[rel]}Nmax"
            check_reader_rows(run, it, fq, nl, rel, case, first)
            first = False
        for trim in ("lt", "eq"):
            it = reader_interp(pkg, nl, "lt", trim)
            check_reader_return(run, it, fq, nl, trim)


def check_reader_rows(run, it, fq, nl, rel, case, protocol):
    le = rel != "gt"
    sub_ = case_subs(rel, "lt")
    fi = it.fi
    cnS, MS = sp.Symbol("cn", integer=True, nonnegative=True), sp.Symbol("M", integer=True, nonnegative=True)
    idS = sp.Symbol("id", integer=True, positive=True)
    c_want = cnS if le else MS
    info = {}
    # lines
    rl = [e for e in it.events if e.kind == "call" and e.data["call"][1] == ".readline"]
    hdr = [e for e in rl if not e.loops]
    rows = [e for e in rl if e.loops]
    if protocol:
        ok = len(hdr) == 1 and len(rows) == 1 and len(rows[0].loops) == 1 and hdr[0].seq < rows[0].seq
        if not ok and any(e.kind == "call" and e.data["call"][1] in (".readlines", ".read", "builtins.next", ".__next__") for e in it.events):
            ok = None       # lines consumed by other means than readline(): outside the table
        run.ob("R-PROTO", fq, "lines", ok, "one call consumes one header line, then one line per particle", f"{len(hdr)} header reads, {len(rows)} row reads",
               witness=None if ok else "frame k+1 starts at the wrong line of a multi-frame file", loc=fi.loc(), sound=True)
        if ok:
            L = it.loops[rows[0].loops[0]]
            okd = eqv(L.iter, ("call", "builtins.range", (("sym", "nparticle"),), ()))
            run.ob("R-PROTO", fq, "lines:count", okd, "exactly nparticle particle lines are consumed", show(L.iter)[:50],
                   witness=None if okd else "too few/many lines consumed: the next frame starts mid-frame", loc=fi.loc(L.node), sound=True)
            okf = tri(*[eqv(e.data["call"][2][0], ("sym", "f")) for e in rl])
            run.ob("R-HANDLE", fq, "reader:handle", okf, "lines are read from the caller's open handle (file position carries over to the next frame)",
                   show(rl[0].data["call"])[:50], witness=None if okf else "file re-opened inside the reader: every call returns frame 0", loc=fi.loc(), sound=True)
    if len(rows) != 1:
        return
    row_line = rows[0].data["result"]
    hdr_line = hdr[0].data["result"] if hdr else None
    # the header test must look at the header line
    if protocol:
        tests = []
        for e in it.events:
            for g, _ in e.guards:
                tests.append(g)
        # guards were folded; search the raw AST instead: any `in` test on a split line
        import ast as _ast
        bad = None
        nhdr = 0
        for node in _ast.walk(fi.node):
            if isinstance(node, _ast.Compare) and len(node.ops) == 1 and isinstance(node.ops[0], (_ast.In, _ast.NotIn)) \
                    and isinstance(node.left, _ast.Constant) and node.left.value == "neighborlist":
                nhdr += 1
        run.ob("R-PROTO", fq, "kind-test", nhdr >= 1, "the file kind is decided by the token `neighborlist` in the header", f"{nhdr} tests",
               witness=None if nhdr >= 1 else "neighbour ids are never shifted to 0-based", loc=fi.loc())
    arr_stores = [e for e in stores(it) if e.loops and e.data["target"][2][0] == "tuple" and len(e.data["target"][2][1]) == 2]
    cnt = [e for e in arr_stores if e.data["target"][2][1][1][0] != "slice"]
    lst = [e for e in arr_stores if e.data["target"][2][1][1][0] == "slice"]
    if len(cnt) != 1 or len(lst) != 1:
        run.ob("R-PROTO", fq, f"{case}:stores", None, "one count store and one list store per row", f"{len(cnt)} count stores, {len(lst)} list stores", loc=fi.loc())
        return
    ce, le_ = cnt[0], lst[0]
    arr = _strip_nonline(ce.data["target"][1])
    shp = arr[2][0] if arr[0] == "call" and arr[1] == "numpy.zeros" and arr[2] else None
    if protocol:
        oksh = tri_lazy(lambda: (True if (shp is not None) else None), lambda: (True if (shp[0] == "tuple") else None), lambda: (True if (len(shp[1]) == 2) else None), lambda: eqv(shp[1][0], ("sym", "nparticle")), lambda: (True if (sp.expand(reader_sym(shp[1][1], info) - MS - 1) == 0) else None))
        run.ob("R-PROTO", fq, "alloc", bool(oksh), "the result starts as zeros of shape (nparticle, Nmax + 1): unused entries are zero padding", show(shp)[:60] if shp else show(arr)[:60],
               witness=None if oksh else "padding is not zero / rows or columns missing", loc=fi.loc(), sound=True)

    def tokens_of(t):
        """item[k] -> (line, k)"""
        t = _strip_nonline(t)
        if t[0] == "sub" and t[1][0] == "call" and t[1][1] == ".split" and t[1][2] and t[1][2][0][0] == "call" and t[1][2][0][1] == ".readline":
            return t[1][2][0], t[2]
        return None
    for e, which in ((ce, "count"), (le_, "list")):
        r = e.data["target"][2][1][0]
        try:
            # exact integer arithmetic over (id, cn, Nmax); an index outside that vocabulary is undecided unless it contains
            # no token of the line at all (then the row cannot depend on the particle id: definite)
            ok = sp.expand(reader_sym(r, info) - (idS - 1)) == 0
            lines = {x for x in walk(r) if x[0] == "call" and x[1] == ".readline"}
            ok = ok and lines == {row_line}
        except AnalysisError:
            ok = False if not [x for x in walk(r) if x[0] == "call" and x[1] in (".readline", ".split")] else None
        run.ob("R-IDX", fq, f"{case}:{which}-row", ok, "the row is chosen by the line's particle id - 1 (lines may come in any order)", show(_strip_nonline(r))[:70],
               witness=None if ok else "rows placed by line order / id not shifted: a file with unsorted ids is misassigned", loc=loc_of(it, e), sound=True)
    # count value
    try:
        cv = reader_sym(ce.data["value"], info)
        okc = sp.simplify(sub_(cv) - sub_(c_want)) == 0
    except AnalysisError as ex:
        okc = None
    col0 = ce.data["target"][2][1][1] == C(0)
    run.ob("R-PROTO", fq, f"{case}:count", None if okc is None else bool(okc and col0), f"column 0 receives {'the cn field' if le else 'Nmax (truncated)'}",
           f"{show(_strip_nonline(ce.data['target'][2][1][1]))} <- {show(_strip_nonline(ce.data['value']))[:60]}",
           witness=None if okc and col0 else ("cn=7, Nmax=5: stored coordination number is not 5" if not le else "stored coordination number differs from the file's cn field"),
           loc=loc_of(it, ce), sound=True)
    # list target slice
    sl = le_.data["target"][2][1][1]
    try:
        lo = sp.Integer(0) if sl[1] == NONE else reader_sym(sl[1], info)
        hi = reader_sym(sl[2], info)
        oks = tri(sp.simplify(sub_(lo) - 1) == 0, sp.simplify(sub_(hi) - 1 - sub_(c_want)) == 0, eqv(sl[3], NONE))
    except AnalysisError:
        oks = None
    run.ob("R-PROTO", fq, f"{case}:target", oks, f"the ids fill columns 1 .. {'cn' if le else 'Nmax'} (column 0 is the count)", show(_strip_nonline(sl))[:60],
           witness=None if oks else ("cn=3: columns " + (f"[{lo}, {hi})" if oks is not None else "?") + " written instead of [1, 4)"), loc=loc_of(it, le_), sound=True)
    # list source
    val = _strip_nonline(le_.data["value"])
    oksrc = okelt = None
    detail = show(val)[:110]
    if val[0] == "comp" and val[1] == "list" and len(val[3]) == 1 and not val[3][0][2]:
        cvar, src, _ = val[3][0]
        elt = val[2]
        tk = tokens_of(src)
        if tk and tk[1][0] == "slice":
            try:
                slo = sp.Integer(0) if tk[1][1] == NONE else reader_sym(tk[1][1], info)
                shi = reader_sym(tk[1][2], info)
                oksrc = tri(sp.simplify(sub_(slo) - 2) == 0, sp.simplify(sub_(shi) - 2 - sub_(c_want)) == 0, eqv(tk[1][3], NONE), _strip_nonline(tk[0]) == _strip_nonline(row_line))
            except AnalysisError:
                oksrc = None
        fl = ("call", "builtins.float", (cvar,), ())
        il = ("call", "builtins.int", (cvar,), ())
        if nl:
            okelt = eqv(elt, ("bin", "-", fl, C(1)), ("bin", "-", il, C(1)))
            if not okelt and elt in (fl, il):
                okelt = False
            elif not okelt:
                okelt = None
        else:
            okelt = True if elt == fl else eqv(elt, fl)       # algebraic: float(j) - 0, 1 * float(j) ... are float(j)
            if okelt is not True and elt == il:
                okelt = False
            elif okelt is False and not (elt[0] == "bin" and fl in (elt[2], elt[3])):
                okelt = None
    run.ob("R-PROTO", fq, f"{case}:source", oksrc, f"the ids are tokens 2 .. {'cn' if le else 'Nmax'}+1 of the particle's own line", detail,
           witness=None if oksrc else ("Nmax=2, line `1 4 9 8 7 6`: tokens kept are not [9, 8] (the first Nmax)" if not le else "cn=3: tokens other than item[2:5] are stored"),
           loc=loc_of(it, le_), sound=True)
    run.ob("R-IDX", fq, f"{case}:shift", okelt, "neighbour ids are shifted to 0-based" if nl else "weights / bond properties are stored unshifted (as floats)",
           show(val[2])[:60] if val[0] == "comp" else detail, witness=None if okelt else
           ("neighbour id 1 in the file must become index 0" if nl else "a weight file row `1 2 0.5 0.5` must give 0.5, 0.5 (unshifted, not truncated to int)"), loc=loc_of(it, le_), sound=True)


def kS_():
    return sp.Symbol("k", integer=True, nonnegative=True)


def check_reader_return(run, it, fq, nl, trim):
    fi = it.fi
    case = f"{'list' if nl else 'weights'}/{'max_cn<Nmax' if trim == 'lt' else 'max_cn=Nmax'}"
    sub_ = case_subs("lt", trim)
    trim = trim == "lt"
    MS, mxS = sp.Symbol("M", integer=True, nonnegative=True), sp.Symbol("mx", integer=True, nonnegative=True)
    if len(it.returns) != 1:
        raise AnalysisError("read_neighbors: expected one return")
    ret = _strip_nonline(it.returns[0].data["value"])
    cast = False
    if ret[0] == "call" and ret[1] == ".astype" and len(ret[2]) == 2:
        cast = ret[2][1] in (("mod", "numpy.int32"), ("mod", "numpy.int64"), ("builtin", "int"), ("mod", "numpy.int_"))
        if not cast:
            run.ob("R-PROTO", fq, f"{case}:cast", None, "cast recognised", show(ret[2][1]), loc=fi.loc())
            return
        ret = ret[2][0]
    okc = cast == nl        # presence of the recognised integer astype on the returned array under this header case: definite
    run.ob("R-PROTO", fq, f"{case}:cast", okc, "neighbour lists are returned as integers, weights as floats", f"integer cast = {cast}",
           witness=None if okc else ("indices returned as floats cannot index arrays" if nl else "weights 0.25 0.75 are truncated to 0 0"), loc=fi.loc(), sound=True)
    arr_ok = ret[0] == "call" and ret[1] == "numpy.zeros"
    if trim:
        ok = False
        detail = show(ret)[:90]
        if ret[0] == "sub" and ret[2][0] == "tuple" and len(ret[2][1]) == 2 and ret[2][1][0] == FULL and ret[2][1][1][0] == "slice":
            sl = ret[2][1][1]
            try:
                hi = reader_sym(sl[2], {})
                ok = tri(eqv(sl[1], NONE, C(0)), eqv(sl[3], NONE), sp.expand(hi - mxS - 1) == 0, True if (ret[1][0] == "call" and ret[1][1] == "numpy.zeros") else None)
            except AnalysisError:
                ok = None
        elif arr_ok:
            ok = False
        else:
            ok = None
        run.ob("R-PROTO", fq, f"{case}:trim", ok, "when the largest coordination number is below Nmax the array is cut to 1 + max_cn columns", detail,
               witness=None if ok else "max cn 4, Nmax 200: returned width is not 5", loc=fi.loc(), sound=True)
    else:
        ok = arr_ok
        if not ok and ret[0] == "sub" and ret[2][0] == "tuple" and len(ret[2][1]) == 2 and ret[2][1][0] == FULL and ret[2][1][1][0] == "slice" \
                and ret[1][0] == "call" and ret[1][1] == "numpy.zeros":
            sl = ret[2][1][1]
            try:
                ok = tri(eqv(sl[1], NONE, C(0)), eqv(sl[3], NONE), sub_(reader_sym(sl[2], {}) - MS - 1) == 0)
            except AnalysisError:
                ok = None
        run.ob("R-PROTO", fq, f"{case}:keep", ok if ok else (False if ret[0] == "sub" and ok is not None else None), "when some particle reaches Nmax the full Nmax + 1 columns are returned", show(ret)[:90],
               witness=None if ok else "columns dropped although they hold neighbours", loc=fi.loc(), sound=True)


# ====================================================================== consumers
def check_handles(run, pkg):
    n = 0
    for fi in pkg.all_functions():
        if fi.qual == READER:
            continue
        src_has = "read_neighbors" in ast_names(fi)
        if not src_has:
            continue
        it = interp(pkg, fi.qual)
        fq = short(fi.qual)
        sites = calls(it, READER)
        for k, e in enumerate(sites):
            n += 1
            c = e.data["call"]
            h = kw(c, "f", 0)
            while h is not None and h[0] == "phi":        # handle defined on one arm only (`if self.weightsfile: f = open(..)`)
                arms = [a for a in (h[2], h[3]) if a[0] != "undef"]
                h = arms[0] if len(arms) == 1 else None
            key = f"site{k}:{show(h)[:40] if h else '?'}"
            opn = [o for o in it.events if o.kind == "call" and o.data["call"][1] == "builtins.open" and o.data["result"] == h]
            if not opn:
                run.ob("R-HANDLE", fq, key, None, "handle is a file opened in this function", show(h)[:60] if h else "?", loc=loc_of(it, e))
                continue
            o = opn[0]
            mode = kw(o.data["call"], "mode", 1) or C("r")
            inner = [l for l in e.loops if l not in o.loops]
            ok = not set(o.loops) & set(e.loops) or all(l in e.loops for l in o.loops) and len(o.loops) == 0
            # loop membership of the recognised open() and of the reader call are structural facts: definite either way
            ok = tri(not (set(o.loops) & set(e.loops)), len(e.loops) <= 1, eqv(mode, C("r"), C("rt")), True if o.seq < e.seq else None)
            wit = None
            if not ok:
                if o.loops:
                    wit = "file re-opened for every frame: every frame reads the first frame's neighbours"
                elif len(e.loops) > 1:
                    wit = "reader called inside a nested (per-particle) loop: one file frame consumed per particle"
                else:
                    wit = "handle not opened for reading before the read"
            run.ob("R-HANDLE", fq, key, ok, "the file is opened once outside the frame loop and read_neighbors is called at most once per frame with that handle",
                   f"open in loops {o.loops}, read in loops {e.loops}, mode {show(mode)}", witness=wit, loc=loc_of(it, e), sound=True)
            # frames are consumed in order: if in a loop, the loop runs over frames in order
            if e.loops:
                L = it.loops[e.loops[0]]
                itr = L.iter
                seq_ok = itr in (("attr", ("attr", ("sym", "self"), "snapshots"), "snapshots"), ("attr", SN, "snapshots"),
                                 ("call", "builtins.enumerate", (("attr", SN, "snapshots"),), ()),
                                 ("call", "builtins.enumerate", (("attr", ("attr", ("sym", "self"), "snapshots"), "snapshots"),), ())) or \
                    (itr[0] == "call" and itr[1] == "builtins.range" and len(itr[2]) == 1)
                run.ob("R-HANDLE", fq, key + ":order", seq_ok, "frames are consumed in file order (forward loop over all frames)", show(itr)[:70],
                       witness=None if seq_ok else "frame k of the trajectory is paired with another frame of the file", loc=fi.loc(L.node))
    run.extra["reader_call_sites"] = n


def ast_names(fi):
    import ast as _ast
    return {n.id for n in _ast.walk(fi.node) if isinstance(n, _ast.Name)}
